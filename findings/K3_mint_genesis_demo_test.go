// place in: x/mint/keeper
// Demonstration of finding K3 (properties C19/C18): mint InitGenesis replaced the imported minter's epoch provisions by
// the genesis provisions, so a node initialised from another node's export (taken after a reduction) mints more than
// the exporter.
package keeper_test

import (
	"github.com/osmosis-labs/osmosis/osmomath"
)

func (s *KeeperTestSuite) TestZZDemoK3ImportKeepsReducedProvisions() {
	s.SetupTest()
	k := s.App.MintKeeper
	params := k.GetParams(s.Ctx)
	reduced := params.GenesisEpochProvisions.Mul(osmomath.NewDecWithPrec(5, 1)) // provisions after reductions
	minter := k.GetMinter(s.Ctx)
	minter.EpochProvisions = reduced
	k.SetMinter(s.Ctx, minter)

	exported := k.ExportGenesis(s.Ctx)
	s.Require().Equal(reduced.String(), exported.Minter.EpochProvisions.String())

	// a fresh node imports the exported state
	k.InitGenesis(s.Ctx, exported)
	s.Require().Equal(reduced.String(), k.GetMinter(s.Ctx).EpochProvisions.String(), "the importing node must continue with the exported provisions")
}
