// place in: x/lockup/keeper
// Demonstration of finding F7 (property C06/C11/C19): DeleteSyntheticLockup removes the synthetic lock's amount from
// the accumulation bucket of the *underlying lock's* duration, while CreateSyntheticLockup (and the add-tokens, slash
// and genesis-rebuild paths) account it under the *synthetic lock's* duration. With lock duration 3s and synthetic
// duration 2s, create+delete leaves -10 in the 3s bucket: "amount locked for at least 2.5s" of the synthetic denom
// reads -10 although no synthetic lock exists.
package keeper_test

import (
	"time"

	sdk "github.com/cosmos/cosmos-sdk/types"
)

func (s *KeeperTestSuite) TestZZDemoF7SyntheticAccumulationSymmetric() {
	s.SetupTest()
	addr1 := sdk.AccAddress([]byte("addr1---------------"))
	s.LockTokens(addr1, sdk.Coins{sdk.NewInt64Coin("stake", 10)}, 3*time.Second)

	s.Require().NoError(s.App.LockupKeeper.CreateSyntheticLockup(s.Ctx, 1, "synthstake", 2*time.Second, false))
	s.Require().Equal("10", s.App.LockupKeeper.GetLockedDenom(s.Ctx, "synthstake", 2*time.Second).String())
	s.Require().NoError(s.App.LockupKeeper.DeleteSyntheticLockup(s.Ctx, 1, "synthstake"))

	for _, d := range []time.Duration{time.Second, 2 * time.Second, 2500 * time.Millisecond, 3 * time.Second, 4 * time.Second} {
		s.Require().Equal("0", s.App.LockupKeeper.GetLockedDenom(s.Ctx, "synthstake", d).String(), "locked for at least %s with no synthetic lock alive", d)
	}
}
