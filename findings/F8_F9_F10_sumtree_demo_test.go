// place in: osmoutils/sumtree
// Demonstrations of findings F8, F9, F10 (property C16): sum-tree histories with removals that empty nodes.
//   F8  accumulationSplit indexes Children[-1] when the probe key sorts before every child of a non-leftmost node
//       (its first child was removed): PrefixSum/SplitAcc panic.
//   F9  pull merges two siblings but reports the *unmerged* left node's sum to the parent: the right node's weight
//       disappears from every prefix sum.
//   F10 pull deletes an emptied node although the left sibling that inherits its key range hangs under a different
//       parent: later insertions into that range land left of the ancestors' boundary and are counted in prefix
//       sums of smaller keys.
package sumtree_test

import (
	"testing"

	"cosmossdk.io/log"
	iavlstore "cosmossdk.io/store/iavl"
	dbm "github.com/cosmos/cosmos-db"
	"github.com/cosmos/iavl"

	"github.com/osmosis-labs/osmosis/osmomath"
	"github.com/osmosis-labs/osmosis/osmoutils/sumtree"
	"github.com/osmosis-labs/osmosis/osmoutils/wrapper"
)

type zzOp struct {
	rm  bool
	key byte
	val int64
}

func zzTree(t *testing.T, m uint8, ops []zzOp) (sumtree.Tree, map[byte]int64) {
	db := wrapper.NewIAVLDB(dbm.NewMemDB())
	it := iavl.NewMutableTree(db, 100, false, log.NewNopLogger())
	if _, _, err := it.SaveVersion(); err != nil {
		t.Fatal(err)
	}
	tr := sumtree.NewTree(iavlstore.UnsafeNewStore(it), m)
	model := map[byte]int64{}
	for _, o := range ops {
		if o.rm {
			tr.Remove([]byte{o.key})
			delete(model, o.key)
		} else {
			tr.Set([]byte{o.key}, osmomath.NewInt(o.val))
			model[o.key] = o.val
		}
	}
	return tr, model
}

func zzCheckPrefixSums(t *testing.T, tr sumtree.Tree, model map[byte]int64) {
	for probe := 0; probe < 40; probe++ {
		want := int64(0)
		for k, v := range model {
			if int(k) <= probe {
				want += v
			}
		}
		func() {
			defer func() {
				if r := recover(); r != nil {
					t.Errorf("PrefixSum(%d) panics: %v", probe, r)
				}
			}()
			if got := tr.PrefixSum([]byte{byte(probe)}); !got.Equal(osmomath.NewInt(want)) {
				t.Errorf("PrefixSum(%d) = %s, a sorted map gives %d", probe, got, want)
			}
		}()
	}
}

func TestZZDemoF8ProbeBeforeFirstChild(t *testing.T) {
	tr, model := zzTree(t, 3, []zzOp{{false, 10, 6}, {false, 4, 9}, {false, 26, 3}, {true, 10, 0}})
	zzCheckPrefixSums(t, tr, model)
}

func TestZZDemoF9MergeKeepsRightSum(t *testing.T) {
	tr, model := zzTree(t, 5, []zzOp{{false, 17, 4}, {false, 14, 5}, {false, 18, 2}, {false, 26, 3}, {false, 25, 3}, {false, 22, 1}, {false, 28, 4}, {false, 15, 4},
		{false, 23, 3}, {false, 5, 5}, {true, 23, 0}, {false, 1, 5}, {true, 15, 0}, {true, 17, 0}, {true, 18, 0}, {true, 14, 0}})
	// probes outside the gap F8 panics on
	for _, probe := range []byte{25, 26, 28, 39} {
		want := int64(0)
		for k, v := range model {
			if k <= probe {
				want += v
			}
		}
		if got := tr.PrefixSum([]byte{probe}); !got.Equal(osmomath.NewInt(want)) {
			t.Errorf("PrefixSum(%d) = %s, a sorted map gives %d", probe, got, want)
		}
	}
}

func TestZZDemoF10InsertAfterEmptiedNode(t *testing.T) {
	tr, model := zzTree(t, 3, []zzOp{{false, 13, 1}, {false, 3, 7}, {false, 22, 6}, {false, 14, 9}, {false, 23, 7}, {false, 1, 6}, {true, 14, 0}, {false, 11, 1}, {true, 13, 0}, {false, 20, 7}})
	// keys 13..19 are absent: every prefix sum up to them must leave out the leaf 20 inserted last
	// (on the unrepaired tree these probes hit F8's panic instead of returning 21)
	zzCheckPrefixSums(t, tr, model)
}

func TestZZDemoAllPrefixSumsAfterFixes(t *testing.T) {
	for _, c := range [][]zzOp{
		{{false, 13, 1}, {false, 3, 7}, {false, 22, 6}, {false, 14, 9}, {false, 23, 7}, {false, 1, 6}, {true, 14, 0}, {false, 11, 1}, {true, 13, 0}, {false, 20, 7}},
		{{false, 17, 7}, {false, 30, 4}, {false, 15, 4}, {false, 18, 1}, {false, 19, 8}, {false, 28, 1}, {false, 20, 9}, {true, 20, 0}, {true, 19, 0}, {false, 25, 4}},
	} {
		tr, model := zzTree(t, 3, c)
		zzCheckPrefixSums(t, tr, model)
	}
}
