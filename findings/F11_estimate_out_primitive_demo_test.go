// place in: x/poolmanager
// F11 (C05): the EstimateSwapExactAmountOutWithPrimitiveTypes query builds each route entry but never appends it, so
// it validates and estimates over an EMPTY route list and fails with "empty routes" for every request, while the
// typed query on the same state returns the amount the swap would charge. Fails before the fix, passes after.
package poolmanager_test

import (
	"testing"

	"github.com/stretchr/testify/require"

	sdk "github.com/cosmos/cosmos-sdk/types"

	"github.com/osmosis-labs/osmosis/v31/app/apptesting"
	"github.com/osmosis-labs/osmosis/v31/x/poolmanager/client"
	"github.com/osmosis-labs/osmosis/v31/x/poolmanager/client/queryproto"
	"github.com/osmosis-labs/osmosis/v31/x/poolmanager/types"
)

func TestZZDemoF11EstimateOutWithPrimitiveTypes(t *testing.T) {
	var s apptesting.KeeperTestHelper
	s.SetT(t)
	s.Setup()
	poolId := s.PrepareBalancerPool() // foo, bar, baz, uosmo
	q := client.NewQuerier(s.App.PoolManagerKeeper)

	typed, err := q.EstimateSwapExactAmountOut(s.Ctx, queryproto.EstimateSwapExactAmountOutRequest{
		PoolId:   poolId,
		Routes:   []types.SwapAmountOutRoute{{PoolId: poolId, TokenInDenom: "foo"}},
		TokenOut: sdk.NewInt64Coin("bar", 1000).String(),
	})
	require.NoError(t, err)

	prim, err := q.EstimateSwapExactAmountOutWithPrimitiveTypes(s.Ctx, queryproto.EstimateSwapExactAmountOutWithPrimitiveTypesRequest{
		PoolId:             poolId,
		RoutesPoolId:       []uint64{poolId},
		RoutesTokenInDenom: []string{"foo"},
		TokenOut:           sdk.NewInt64Coin("bar", 1000).String(),
	})
	require.NoError(t, err, "the primitive-types estimate must run over the requested route")
	require.Equal(t, typed.TokenInAmount.String(), prim.TokenInAmount.String())
}
