#!/usr/bin/env python3
"""Regenerates /verif/MANIFEST.json from the table below (kept in sync with checker/internal/props)."""
import json, re, subprocess, os

FIX_COMMITS = ["7de88560c5", "5379f6c8d1", "4b4b809cc2", "a6f4203039", "d8a222be03", "a6b392129b"]
CLAIMED = {
 # id: (design_ref, claim text, not covered / trusted base, technique)
 "C06": ("5/C06",
   "Static rules over the type-checked SSA of x/lockup/keeper decide, for all inputs and histories at once, structural necessary conditions: coins sent == coins recorded == accumulation delta (same denom/duration keys), end time = block time + duration, matured-unlock guarded by IsUnlocking and BlockTime<EndTime and paying lock.Owner, index add/delete key symmetry, owner guards before every mutation, allow-listed callers of the low-level writers. Also: accumulation updates run for every coin of the lock (ForEach), ForceUnlock pays out the lock re-read after begin-unlock (freshness). Also: genesis rebuild sums locks sharing (denom, duration).",
   "Not covered: index = primary records for every query shape over histories, sum-tree internals, conservation as a number. Trusted: go/types, go/ssa, bank keeper and KV store as effect primitives, SDK tx atomicity.",
   "SSA origin-term / dominance / call-graph rules (argument origin, guard, order, pairing, who-may-call)"),
}

CLAIMED["C12"] = ("5/C12",
   "Case-partitioned abstract interpretation (sign(N) x sign(D) x rem=0 x |rem| vs half x quotient parity, enumerated exhaustively) of 41 rounding primitives of osmomath/decimal.go proves result = trunc(N/D)+delta with the delta of the documented mode for operands of either sign, with the documented power-of-ten scale/divisor constants evaluated from the package initialisers; effect analysis proves non-mutating forms never write an operand's big.Int and *Mut forms write only the receiver; every magnitude-growing BigDec operation asserts the bit-length bound on all paths. The asserted big.Int is the one returned. The textual and the binary decoder reject exactly the values of more than maxBitLen bits.",
   "Not covered: exactness of math/big, LegacyDec internals, value-level round-trip of encodings. Trusted: math/big Quo/QuoRem truncation semantics, go/ssa.",
   "finite-domain abstract interpretation over SSA + alias/effect analysis + must-pass-through (dominance) rule")

CLAIMED["C16"] = ("5/C16",
   "Structural necessary conditions on both sides of osmoutils/sumtree. Query side (tree.go): which components of the three-way split each range-sum API adds under which nil-bound condition (sentinel consistency), Increase/Decrease as read-modify-write with (negated) amount on the same key, leaf case mapping key comparison -1/0/+1 to left/exact/right, interior case descending into child idx only when it exists. Node side (node.go): every stored node value is the one whose accumulate() is reported to the parent (push, pull, merge, updateAccumulation), an emptied node is removed from its parent under its own key and deleted only when the left sibling inheriting its key range has the same parent, siblings merge only under one parent and when they fit, the 8-bit split position cannot wrap (interval evaluation), split/merge slice bounds, loud failure on unknown children. Also (round 8): the legacy JSON-to-protobuf migration re-encodes every node (recursion one level down into every child).",
   "Not covered: equivalence with a sorted map over operation sequences as such (the rules are necessary conditions found by reading the three repaired defects F8-F10 and the seeded changes), iteration order, every fan-out as a value. Trusted: go/ssa, KV store iterator semantics used by parent()/siblings.",
   "SSA origin-term rules: return-value formulas under dominating nil-tests, phi-edge case analysis, stored-equals-reported pairing, guard/argument rules, unsigned interval (no-wrap) evaluation")

CLAIMED["C15"] = ("5/C15",
   "Static rules over osmoutils/accum decide: the claimable formula unclaimed + (value - snapshot) x shares; every share mutation folds accrued rewards into the record, writes old +/- delta shares under the same name, and updates the re-read accumulator total by the same delta with the same sign before persisting; failure guards (non-positive delta, remove > held, zero update, unknown position, negative rewards) precede all writes; claim resets or deletes exactly the claimer and truncates only via TruncateDecimal; the writers of position and accumulator records are the listed mutators. Also: UpdatePositionIntervalAccumulation re-bases on the caller's interval value in both directions; every successful claim rewrites or deletes the record. Also (round 8): a surviving position is always re-based after a claim.",
   "Not covered: claim = sum of growth x shares over a history, total shares = sum of positions over histories (numeric/history clauses). Trusted: go/ssa, osmoutils store helpers, KV store.",
   "SSA origin-term / guard / order / who-may-call rules")
CLAIMED["C17"] = ("5/C17",
   "Static rules decide: the per-timer BeginBlocker callback is loop-free (at most one tick per block), ticks only under BlockTime > epoch end or not-started and never before StartTime, sets the new start to StartTime or previous start + duration (never block time), signals end-of-epoch n before the increment, persists, then signals start n+1; every subscriber runs through applyFunc on the cache context whose write() is reachable only on the nil-error edge; the recover handler re-panics exactly for the two out-of-gas error types and otherwise sets an error; the subscriber loops have no early exit and the app wires the containing multi-hook. Also (round 8): genesis import hands every epoch on unmodified and the start time is defaulted only when zero.",
   "Not covered: 'exactly once' over block-time sequences as a trace property; grid arithmetic over histories. Trusted: sdk.Context.CacheContext isolation, go/ssa.",
   "SSA guard-disjunct (phi-expanded) dominance rules, cache-context containment, loop/CFG shape rules")

CLAIMED["C13"] = ("5/C13",
   "Only the 'fails loudly outside the domain' clause and structural side conditions: every documented domain guard of Exp2, the exp2 approximant, LogBase2, CustomBaseLog, Pow, PowApprox, the monotone square roots, OrderOfMagnitude, DivIntByU64ToBigDec and the binary searches is a branch to a panic/error exit on every path to a normal return, compared against the documented constant (evaluated from the package initialiser); the square roots increment r exactly when r^2 < d in both precisions; rounding-mode dispatch selects the matching division; the listed functions do not write their arguments. Also: binary searches (comparison argument order, which bound moves under which sign, return only when the tolerance is met), Pow splits integer and fractional exponent, SigFigRound rounds the scaled value to nearest. Also: the tolerance comparisons return 'within tolerance' only when both configured tolerances were consulted and met, the relative error being the decimal quotient by min(|expected|,|actual|).",
   "Not covered: every numeric error bound, monotonicity, binary-search post-conditions (numeric clauses no static argument in reach bounds). Trusted: math/big Sqrt, go/ssa.",
   "SSA guard/dominance rules with constant evaluation + effect analysis")

CLAIMED["C05"] = ("5/C05",
   "Static rules over x/poolmanager (and the gamm / concentrated-liquidity swap entries) decide: execution and estimate hops apply the same-direction taker-fee formula to the same denom pair, use the pool's spread factor and chain hop outputs; rule L: every swap entry taking a caller limit returns only values compared with that limit on a failing branch or produced by a callee that received it, inner hops get the neutral limit and only the last hop the caller's; split routes sum legs and compare the sum; the taker-fee step's result depends only on quantities the estimate has (one recorded known finding: reduced-fee whitelist). Also: the concentrated swap-loop transition is flag-independent and a failed gamm settlement transfer fails the route. The Estimate* queries hand the request's routes and coin to the fee-including estimator (one repaired defect: the exact-out primitive-types query estimated over an empty route list).",
   "Not covered: value-level equality of routed result and composition across pool types, state-untouched for cosmwasm pools, routes visiting a pool twice. Trusted: PoolModuleI implementations outside gamm/CL, SDK tx atomicity, go/ssa.",
   "SSA origin-term rules incl. limit-on-returned-value (L), phi-edge case rules, sibling agreement")

CLAIMED["C19"] = ("5/C19",
   "Syntax-tree analyses over the type-checked workspace decide: (X-det) every map range in state-machine code has an order-independent body or is collect-then-sort, and no wall-clock time (except feeding telemetry/logging), randomness, environment read, goroutine or select occurs there, each exception being one named construct with a reason; (X-gen) every field of each of the 18 module GenesisStates is consumed by InitGenesis and produced by ExportGenesis, and InitGenesis does not overwrite imported fields except nil/zero-defaulting; (X-mem) every write to in-memory keeper state is wiring, a rebuild from the store, or a self-validating cache. 3 recorded known findings (poolmanager caches written during message execution); the mint genesis overwrite was repaired. (X-gen-loop) every call in an InitGenesis import loop runs on every iteration. Also: side conditions of the pool-module cache (a hit charges the recorded gas of the read it replaces; filled only in finalize mode; invalidated by the only writer) and genesis rebuild of lockup accumulations keyed like the running chain. Also: poolmanager import order (params before taker-fee overrides), pool-incentives key prefixes closed by the separator, lockup genesis rebuild sums per key.",
   "Not covered: bit-identical app hash, losslessness of exported values beyond field coverage, nondeterminism inside dependencies. Trusted: go/types; scoping by package class.",
   "AST/type-based determinism lint, genesis field-coverage analysis, keeper-field write scan with call-graph classification")
FIX_COMMITS.append("59282cb358")
FIX_COMMITS.append("d2a0ad067f")
FIX_COMMITS += ["35b50d1c51", "5b670324a2", "bcb8c3a391", "1a10ebd7f7", "f4a77651e5"]

CLAIMED["C20"] = ("5/C20",
   "Interprocedural guard propagation (rule GI) over the workspace call graph: for all 37 message handlers of concentrated-liquidity, lockup, superfluid, tokenfactory and valset-pref (signer field read from each message's GetSigners), every bounded-depth call path to a privileged sink (lock, position and denom mutators) carries a branch that compares a signer-identity value with the stored object's owner/admin and fails on mismatch — directly, via a checked guard helper, inside the sink on all success paths, or modulo the governance-module equality — with three creation/own-index exemptions listed with side conditions. Also: tokenfactory mint/burn/force-transfer never touch protected module accounts (guards on the very addresses credited/debited, on every iteration over all protected modules; the protected set holds every module account's address). Also: the module-account scan of forceTransfer covers the whole protected list; tokenfactory import writes every exported authority record.",
   "Not covered: 'all balances and records unchanged' on failure (SDK transaction atomicity trusted), object reachability over histories, wasm hooks. Bounds: call depth 7, helper depth 3; class-hierarchy resolution of interface calls.",
   "call-graph obligation propagation with SSA guard facts (actor-identity / owner-like term classification)")

CLAIMED["C03"] = ("5/C03",
   "Direction inference (abstract interpretation over {EXACT,GE,LE,ANY} with in-place *Mut object updates) proves each of the four next-sqrt-price functions returns a value on its documented side of the exact formula; rounding-class region rules prove CalcAmount0/1Delta use only round-up operations under roundUp and only truncations otherwise; per swap step in all four strategy functions amount-in is computed with roundUp=true and DecRoundUp, amount-out with roundUp=false and Dec(), the fee by round-up multiplication or exact remainder, with the matching price function; estimates run the same compute function with the same arguments on a never-written cache context; the progress/overshoot/no-progress/overcharge guards precede the loop's state updates; totals ceil amount-in and truncate amount-out. Also: the per-step swap-state transition (totals, liquidity after a crossing, tick) is independent of the estimate/execute flag; execution uses the caller's spread factor; checked settlement transfers. Also (round 8): every non-zero rounded-up spread fee is collected; ApplySwap stores price, tick and liquidity on every successful path.",
   "Not covered: distance from the exact rational curve, value equality of estimate and execution, round-trip inequality, 18/36-digit regimes (numeric). Assumes positive operands in the direction inference. Trusted: C12's rounding classes, go/ssa.",
   "direction-lattice abstract interpretation + rounding-class dataflow + SSA guard/order/cache-context rules")

CLAIMED["C01"] = ("5/C01",
   "Rounding-class dataflow and origin-term rules over concentrated-liquidity decide the structural solvency conditions: deposits and amounts charged use only round-up operations, withdrawals, pay-outs, reward growth and claims only truncations (CalcAmount0/1Delta by branch, CalcActualAmounts flag = sign of the liquidity delta, TruncateInt/DecRoundUp/Dec conversions, fee ceiling); every transfer out of a pool, spread-reward or incentive account is exactly the amount just computed, to the position owner, from the matching account; and the set of functions that send from pool-owned accounts is closed. Also: swap totals ceil the charged and truncate the paid amount; an exhausted incentive record is deleted exactly when it exists and nothing remains and only positive remainders are written; dust is divided by the remaining shares only when some remain. Also: a position's checkpoint in uptime accumulator i is re-based on the growth of the same uptime i. Also (round 8): a tick is reported empty only when updated gross and net liquidity are both zero.",
   "Not covered: that accumulated dust over a history covers every claim, lock-bound positions, negative interval accumulator values (history/magnitude clauses). Trusted: C12 rounding classes, bank SendCoins semantics.",
   "rounding-class dataflow (with constant-argument-sensitive helper summaries) + SSA origin-term / guard / who-may-send rules")
CLAIMED["C07"] = ("5/C07",
   "Static rules decide: a position update applies the same delta to the lower tick (+net), upper tick (-net), position record and - iff lower <= current < upper - the pool's active liquidity, after validation and before persisting; crossing adds the direction-signed net liquidity of exactly the parsed tick and moves the tick to next-1/next; iterator start bounds; ticks are removed only when reported empty, positions deleted only on full withdrawal, pools uninitialised only without positions; writers of ticks/positions have only the listed callers. Also: emptied lower and upper ticks are each removed exactly when reported empty (OnlyWhen + converse), the first position sets the pool's tick with the shared round-down-to-spacing helper.",
   "Not covered: the bookkeeping invariant itself over histories; price/tick numeric agreement. Trusted: KV store, go/ssa.",
   "SSA origin-term / predicate-shape / order / who-may-call rules")

CLAIMED["C18"] = ("5/C18",
   "Static rules over x/mint decide: minted coin == distributed coin == truncated epoch provision; community-pool amount = minted - staking - pool-incentives - developer share with each term being the amount the distribute call reports it moved; shares are truncated proportions with ratio > 1 rejected; the provision is reduced exactly under epoch >= period + last reduction (strict comparison direction checked), together with SetMinter and the new last-reduction epoch and never after minting; nothing is minted before the start epoch or for another epoch identifier; developer rewards are burned from the mint account and paid from the vesting account inside a +/- supply-offset bracket. Also: the epoch hook wrapper fails when the keeper's epoch step fails. Also (round 8): minter and last-reduction epoch are written and read under the same key and encoding; mintCoins mints the given coins into the mint account.",
   "Not covered: mint account empty / supply growth as numbers, long-run schedule. Trusted: bank keeper, epoch hook invoked once per epoch (C17).",
   "SSA origin-term / guard-disjunct / order rules")

CLAIMED["C10"] = ("5/C10",
   "Static rules over x/twap decide: accumulators advance by the old record's last spot price (P0->P0, P1->P1, log2(P0)->geometric) times the canonical-ms difference between the record's time and the new time; the arithmetic strategy reads the quote side's accumulator; the geometric result is inverted exactly under (negative & quote0) or (non-negative & not quote0) (path-sensitive boolean-join expansion); the three error-flag comparisons exist; zero price stamps the error time; lookup is reverse iteration ending at t; pruning deletes only after skipping the newest record; new records update both indexes. Also: path-resolved cases of getSpotPrices (error or clamp => error time = block time, value = maximum; neither => previous error time); EndBlock updates every changed pool. Also: the key builders of the record indexes agree on a layout in which pool id and denoms are closed by the separator. The TWAP queries pass the request's interval to the keeper; the two-denom record lookup orders the denoms canonically. Also (round 8): the per-block record update and record creation field by field, every most-recent record / every denom pair visited, the hooks and listeners that mark a pool changed and the pool modules firing them on every successful swap or join, the changed-pool key encoding, the unit helpers, the pruning start state.",
   "Not covered: TWAP = time-weighted mean as a value, min/max bounds, reciprocity, precision (integral over histories). Trusted: Exp2/log2 accuracy, go/ssa.",
   "SSA origin-term rules + path-sensitive guard disjuncts")

CLAIMED["C09"] = ("5/C09",
   "Static rules over x/incentives decide: budget = coins - distributed over remaining epochs (1 if perpetual, paid-over - filled otherwise; 0 is an error); a lock's share is lock amount x remaining coin integer-divided by lock sum x remaining epochs with no round-up operation anywhere in the distribution; the receiver is the lock's reward receiver or, exactly when empty, its owner; the coins put on a pay-out entry (and handed to a concentrated pool's incentive record) are added to the distributed total (paired-argument rule), which is booked with one filled epoch; pay-outs leave the incentives module to the index-aligned receiver list; activation at start time precedes distribution; finishing only for non-perpetual gauges whose last epoch was filled. Also: loops over locks and gauge coins are left early only by failing; the per-denom lock cache is filled from the minimal duration and filtered per gauge. Also: strict minimum-value tests; Distribute and the epoch hook wrapper fail when the pay-out / keeper step fails. Also (round 8): active gauges are partitioned between the superfluid routine (perpetual and synthetic) and the incentives hook (the rest).",
   "Not covered: sum over epochs <= deposit, module balance >= remainders over histories, group gauges. Trusted: bank multi-send semantics, go/ssa.",
   "SSA origin-term / paired-argument / rounding-class rules")

CLAIMED["C14"] = ("5/C14",
   "Constant-consistency and guard rules: declared tick bounds equal the documented values and the price bounds' initialisers are the documented powers of ten, ticks-per-decade = 9*10^6; out-of-range ticks/prices are rejected by guards against exactly those constants; the 18-digit square root is used exactly for ticks >= -108000000 (prices >= 10^-12 chopped to 18 digits), the 36-digit one otherwise; RoundDownTickToSpacing makes the remainder Euclidean and returns tick or tick - remainder; the sqrt-price->tick correction compares with neighbouring ticks using >= / >= / <. Also: GetSqrtPriceLimit has inclusive bounds and regime-matching square roots.",
   "Not covered: monotonicity/exactness of tick->price over 4.5*10^8 ticks and the inverse property (numeric enumeration). Trusted: osmomath monotone square roots (C13).",
   "go/constant evaluation + SSA guard / predicate-shape rules")

CLAIMED["C11"] = ("5/C11",
   "Static rules over x/superfluid (and lockup's BeginUnlock) decide: mint-for-delegation is paired with a supply offset of the negated amount and the same amount is sent to the intermediary account and delegated; undelegation sends back and burns exactly the instantly-undelegated coins and raises the offset by their bond-denom amount; all cache-context closures of the package use only their own context; delegate records the lock/intermediary connection and a bonded synthetic lock after validating ownership and before staking, undelegate removes both and leaves an unlocking marker; unbonding requires an unlocking synthetic lock; lockup refuses to begin unlocking a lock with synthetic locks. Also: epoch refresh (current stake 0 or tokens-from-shares, mint/burn by the difference in the right direction, expected = OSMO value of the marker accumulation from the unbonding time up) and staking/unstaking markers (one per lock, denom and end time by status, end = block time + unbonding period, accumulation keyed by the marker's duration on create/delete/top-up/slash). Also: the risk-adjusted value formula and its inverse; synthetic-lock genesis rebuild sums per key; the epoch hook wrapper fails when the keeper step fails.",
   "Not covered: stake = risk-adjusted value within one unit per lock, supply neutrality as a number, drift over epochs. Trusted: staking keeper semantics, cache-context helper (C17).",
   "SSA origin-term / pairing / order rules + cache-context closure containment")

CLAIMED["C02"] = ("5/C02",
   "Static rules over x/gamm/keeper and x/poolmanager decide: every pool-record mutation is paired on every success path with bank operations on the same coin values (swap: token-in trader->pool, token-out pool->trader; join: coins + share mint; exit: coins + share burn); share mint/burn use the pool's own share denom and the same amount; each of the six join/exit/swap entry points hands the state-change helper exactly the values it gave to or received from the pool model (paired-result rule); the taker fee is the exact difference between the amount paid and the amount that reaches the pool, computed from the very value returned, sent to the collector; the router passes the after-fee coin; pool records are written only by the listed functions. Also: every gamm entry changes the pool model exactly once and settles exactly once (quotes use the read-only Calc* form); the router hands a pool module the pool as read for this hop (freshness with kill semantics). Also: join/exit entries and pool creation fail when the state change / initial-liquidity transfer fails.",
   "Not covered: bank balance = reported reserves over histories, supply of non-share tokens, cosmwasm pools, pool-model internals. Trusted: bank keeper semantics.",
   "SSA origin-term / pairing (paired-argument, paired-result) / who-may-call rules")

CLAIMED["C04"] = ("5/C04",
   "Static rules over the balancer / stableswap pool models and cfmm_common decide: amounts paid out are truncated and amounts charged ceiled at the pool boundary; the spread factor is taken off the input before the curve and grossed up on the required input; exit amounts are truncated with the share and reserve guards in place; proportional joins truncate shares and ceil the used amount; the stableswap solver scales reserves/input down, the requested output up and divides by (1-sf) rounding up; each state-mutating swap returns exactly its pure calculation's result for the same arguments and applies exactly those coins to the reserves. Also: the balancer single-asset join/exit formulas apply the fee ratio in the pool's favour (Mul on deposits, Quo on required deposits and withdrawals, 1/(1-exit fee) on shares), the single-asset leg is priced against the caller's interim reserve and share total, and the all-asset join mints exactly the shares the model credited. Also: join/exit entries fail when the state change fails. Also (round 8): both pool models range-check exit fee and swap fee field by field; an LBP poke after the end goes through updateAllWeights.",
   "Not covered: agreement with the constant-weighted-product formula to powPrecision, monotonicity of the stableswap invariant, value conservation over sequences (numeric). Trusted: osmomath Pow / binary search (C13).",
   "SSA origin-term / rounding-class / sibling-agreement rules")

CLAIMED["C08"] = ("5/C08",
   "Static rules over concentrated-liquidity reward code decide: crossing flips tick snapshots to (global + this swap's growth) - old and global - old per uptime; a new tick starts with the global value iff current >= tick; growth above/below follows the documented four-case table and uptime growth inside the three-way split (path-sensitive condition matching with infeasible-path pruning); accumulators are accrued to now before positions, ticks or incentive records change and before a position claims; claim = set(init + outside) -> claim -> re-base to global - outside if the position still exists; emission deducts exactly the emitted amount only when the record covers it and only feeds the accumulator of its own uptime; the position age (block time - join time) is compared with each uptime with <. Also: one scaling factor per accumulator family, used by growth and claim alike (who-may-call + argument rules); redeposited forfeits start from zero per uptime (no loop-carried accumulator) and are amount / active liquidity. Also: same-uptime re-basing in initOrUpdatePositionUptimeAccumulators. Also (round 8): a surviving position is always re-based after a claim.",
   "Not covered: proportionality / identical positions earn identical rewards as numbers, totals claimable vs paid in over histories. Trusted: osmoutils/accum (C15), go/ssa.",
   "SSA origin-term / path-sensitive predicate / order rules")

NOT_YET = "check not built yet in this revision (static rule set under construction; see DESIGN.md section 5)"

def main():
    props = [json.loads(l) for l in open('/verif/properties.jsonl')]
    checks, na = [], []
    for p in props:
        pid = p['id']
        if pid in CLAIMED:
            ref, text, note, tech = CLAIMED[pid]
            checks.append({
                "property_id": pid,
                "quick_cmd": f"sh /verif/run_check.sh {pid} quick",
                "thorough_cmd": f"sh /verif/run_check.sh {pid} thorough",
                "evidence_file": f"/verif/evidence/{pid}.json",
                "replay_cmd_template": "/verif/bin/osmolint -replay {path}",
                "engine": "osmolint",
                "level_claimed": {"category": "other", "text": text, "design_ref": "DESIGN.md " + ref},
                "level_note": note,
                "technique": "static analysis: " + tech,
            })
        else:
            na.append({"property_id": pid, "reason": NA.get(pid, NOT_YET)})
    m = {
        "version": 1,
        "setup_cmd": "sh /verif/setup.sh",
        "hooks": {"guard": "verif", "enable": "none needed: the checker reads /repo's sources; no instrumentation is compiled into osmosis",
                  "baseline_off_cmd": "cd /repo && for m in . osmomath osmoutils x/epochs x/ibc-hooks; do (cd $m && go test -vet=off -count=1 ./... ) ; done",
                  "source_commits": FIX_COMMITS, "add_only": True},
        "engines": [{"name": "osmolint", "path": "/verif/checker", "serves_properties": sorted(CLAIMED), "kind_free_text": "repository-specific static analyser (go/packages + go/ssa, x/tools v0.29.0): origin terms, guard/dominance facts, call graph, rounding-class dataflow, abstract interpretation of osmomath rounding helpers"}],
        "checks": checks,
        "notes": "All checks are static: they load and analyse /repo's current working tree (go/packages, workspace mode) on every run and never execute osmosis code. Each run takes ~12 s and < 2 GB; run at most ~8 in parallel. Exit 0 ok, 1 VIOLATION, 2 CHECK-BROKEN (load/type error, unresolved anchor, undecided rule).",
        "not_applicable": na,
    }
    json.dump(m, open('/verif/MANIFEST.json', 'w'), indent=1)
    print("claimed", len(checks), "not_applicable", len(na))

NA = {}
if __name__ == '__main__':
    main()
