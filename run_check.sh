#!/bin/sh
# usage: run_check.sh <property> <tier>
# Rebuilds nothing from /verif (the checker binary is built by setup_cmd) but re-loads and
# re-analyses /repo's current working tree on every invocation.
cd /verif || exit 2
if [ ! -x /verif/bin/osmolint ]; then
  sh /verif/setup.sh >/dev/null 2>&1 || { echo "CHECK-BROKEN cannot build osmolint"; exit 2; }
fi
unset GOWORK
exec /verif/bin/osmolint -property "$1" -tier "${2:-quick}"
