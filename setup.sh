#!/bin/sh
# Builds the checker offline from /verif/checker (x/tools v0.29.0 from the module cache) and warms the
# Go build cache for /repo's dependencies (export data), so that the first check is not slow.
set -e
cd /verif/checker
GOWORK=off GOFLAGS=-mod=mod GOPROXY=off GOSUMDB=off GOTOOLCHAIN=local go build -o /verif/bin/osmolint ./cmd/osmolint
cd /verif
unset GOWORK
/verif/bin/osmolint -warm
