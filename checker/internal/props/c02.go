package props

import "osmolint/internal/rules"

func init() {
	register(&Prop{
		ID: "C02",
		Explanation: "Classic pools and router conservation, structural clauses: every mutation of a gamm pool record is paired, in the same keeper function and on every success path, with bank operations on the same coin values (swap: token-in trader→pool and token-out pool→trader; join: coins in + share mint; exit: coins out + share burn); share mint/burn move the share denom of that pool with the same amount they mint/burn; " +
			"the keeper passes to the state-change helpers the values it gave to / received from the pool model; the taker fee is the exact difference between what the trader pays and what reaches the pool, and exactly that fee is sent to the collector; the router hands the pool the after-fee coin.",
		NotCovered:  []string{"bank balance = reported reserves over histories (direct sends are allowed by the statement)", "supply of non-share tokens (bank module semantics)", "cosmwasm pools", "pool-model internals (C04)"},
		Assumptions: []string{"bank keeper MintCoins/BurnCoins/SendCoins semantics"},
		MinObl:      74,
		Run:         runC02,
	})
}

func runC02(c *rules.Ctx) {
	const K = "x/gamm/keeper.Keeper."
	// ---- swap
	gammSwapSettleRules(c)
	gammStateChangeCheckedRules(c)
	cfmmUsedAmountRules(c)
	balancerShareBookRules(c)
	const SI = K + "SwapExactAmountIn"
	c.Let("OUTCOIN", "gammtypes.CFMMPoolI.SwapOutAmtGivenIn(gammkeeper.asCFMMPool(pool)#0, ctx, list(tokenIn), tokenOutDenom, spreadFactor)#0")
	c.CheckedCallOpt(SI, "gammkeeper.Keeper.updatePoolForSwap", []string{"k", "ctx", "pool", "sender", "tokenIn", "{OUTCOIN}"}, "the coins moved are the caller's token-in and the coin the pool model returned for it", "", false)
	c.Returns(SI, 0, "{OUTCOIN}.Amount | local:tokenOutAmount()", "the reported amount out is the moved coin's amount", "")
	const SO = K + "SwapExactAmountOut"
	c.Let("INCOIN", "gammtypes.CFMMPoolI.SwapInAmtGivenOut(gammkeeper.asCFMMPool(pool)#0, ctx, list(tokenOut), tokenInDenom, spreadFactor)#0")
	c.CheckedCallOpt(SO, "gammkeeper.Keeper.updatePoolForSwap", []string{"k", "ctx", "pool", "sender", "{INCOIN}", "tokenOut"}, "the coins moved are the coin the pool model required and the caller's token-out", "", false)
	c.Returns(SO, 0, "{INCOIN}.Amount | local:tokenInAmount()", "the reported amount in is the moved coin's amount", "")
	c.FailsWhen(SO, "ge(tokenOut.Amount, sdk.Coins.AmountOf(gammkeeper.Keeper.GetTotalPoolLiquidity(...)#0, tokenOut.Denom))", "a pool cannot pay out its whole reserve", rules.GuardOpt{Before: "gammtypes.CFMMPoolI.SwapInAmtGivenOut"})
	// ---- join / exit state changes
	const AJ = K + "applyJoinPoolStateChange"
	c.CheckedCall(AJ, "gammtypes.BankKeeper.SendCoins", []string{"_", "ctx", "joiner", "poolmanagertypes.PoolI.GetAddress(pool)", "joinCoins"}, "join: exactly the join coins move from the joiner to the pool account", "")
	c.CheckedCall(AJ, "gammkeeper.Keeper.MintPoolShareToAccount", []string{"k", "ctx", "pool", "joiner", "numShares"}, "join: exactly numShares are minted to the joiner", "")
	c.CheckedCall(AJ, "gammkeeper.Keeper.setPool", []string{"k", "ctx", "pool"}, "join: the pool record is persisted", "")
	const AE = K + "applyExitPoolStateChange"
	c.CheckedCall(AE, "gammtypes.BankKeeper.SendCoins", []string{"_", "ctx", "poolmanagertypes.PoolI.GetAddress(pool)", "exiter", "exitCoins"}, "exit: exactly the exit coins move from the pool account to the exiter", "")
	c.CheckedCall(AE, "gammkeeper.Keeper.BurnPoolShareFromAccount", []string{"k", "ctx", "pool", "exiter", "numShares"}, "exit: exactly numShares are burned from the exiter", "")
	c.CheckedCall(AE, "gammkeeper.Keeper.setPool", []string{"k", "ctx", "pool"}, "exit: the pool record is persisted", "")
	// ---- share mint / burn
	const MS = K + "MintPoolShareToAccount"
	c.Let("SHARES", "sdk.NewCoins(sdk.NewCoin(gammtypes.GetPoolShareDenom(poolmanagertypes.PoolI.GetId(pool)), amount))")
	c.CheckedCall(MS, "gammtypes.BankKeeper.MintCoins", []string{"_", "ctx", "\"gamm\"", "{SHARES}"}, "shares of this pool's share denom are minted for the amount", "")
	c.CheckedCall(MS, "gammtypes.BankKeeper.SendCoinsFromModuleToAccount", []string{"_", "ctx", "\"gamm\"", "addr", "{SHARES}"}, "and exactly those are sent to the account", "")
	const BS = K + "BurnPoolShareFromAccount"
	c.Let("BSHARES", "list(sdk.NewCoin(gammtypes.GetPoolShareDenom(poolmanagertypes.PoolI.GetId(pool)), amount))")
	c.CheckedCall(BS, "gammtypes.BankKeeper.SendCoinsFromAccountToModule", []string{"_", "ctx", "addr", "\"gamm\"", "{BSHARES}"}, "shares of this pool's share denom are taken from the account for the amount", "")
	c.CheckedCall(BS, "gammtypes.BankKeeper.BurnCoins", []string{"_", "ctx", "\"gamm\"", "{BSHARES}"}, "and exactly those are burned", "")
	// ---- callers hand over what the pool model computed
	c.Let("POOLJ", "gammkeeper.Keeper.getPoolForSwap(k,ctx,poolId)#0 | gammkeeper.Keeper.GetCFMMPool(k,ctx,poolId)#0 | _")
	c.PairedArgN(K+"JoinPoolNoSwap", "gammtypes.CFMMPoolI.JoinPoolNoSwap", "gammkeeper.Keeper.applyJoinPoolStateChange", "all-asset join: shares minted = shares the pool model returned; coins moved = coins given to it")
	c.PairedArgN(K+"JoinSwapExactAmountIn", "gammtypes.CFMMPoolI.JoinPool", "gammkeeper.Keeper.applyJoinPoolStateChange", "single-asset join: shares minted = shares the pool model returned; coins moved = coins given to it")
	c.PairedArgN(K+"JoinSwapShareAmountOut", "gammtypes.PoolAmountOutExtension.IncreaseLiquidity", "gammkeeper.Keeper.applyJoinPoolStateChange", "exact-shares join: the shares and coins booked on the pool are the ones minted and moved")
	c.PairedArgN(K+"ExitPool", "gammtypes.CFMMPoolI.ExitPool", "gammkeeper.Keeper.applyExitPoolStateChange", "exit: coins paid out = coins the pool model returned for the shares burned")
	c.PairedArgN(K+"ExitSwapExactAmountOut", "gammtypes.PoolAmountOutExtension.ExitSwapExactAmountOut", "gammkeeper.Keeper.applyExitPoolStateChange", "single-asset exit: shares burned = shares the pool model returned; coin paid = coin given to it")
	// ---- pool creation: the declared initial liquidity really reaches the pool account
	const CP = "x/poolmanager.Keeper.CreatePool"
	c.CheckedCall(CP, "poolmanagertypes.BankI.SendCoins", []string{"k.bankKeeper", "ctx", "poolmanagertypes.CreatePoolMsg.PoolCreator(msg)", "poolmanagertypes.PoolI.GetAddress(poolmanager.Keeper.createPoolZeroLiquidityNoCreationFee(k,ctx,msg)#0)", "poolmanagertypes.CreatePoolMsg.InitialLiquidity(msg)"},
		"pool creation moves exactly the declared initial liquidity from the creator to the new pool's account, and fails when that transfer fails", "")
	c.CheckedCall(CP, "poolmanager.Keeper.createPoolZeroLiquidityNoCreationFee", []string{"k", "ctx", "msg"}, "a failed pool construction fails the creation", "")
	c.Returns(CP, 0, "poolmanagertypes.PoolI.GetId(poolmanager.Keeper.createPoolZeroLiquidityNoCreationFee(k,ctx,msg)#0) | 0", "the reported id is the created pool's", "/id")
	// ---- taker fee arithmetic (poolmanager)
	const PM = "x/poolmanager."
	takerFeeArithmeticRules(c)
	c.CallArg(PM+"Keeper.chargeTakerFee", "poolmanagertypes.BankI.SendCoinsFromAccountToModule", 3, "\"taker_fee_collector\"", "the fee goes to the taker-fee collector module account")
	c.CallArg(PM+"Keeper.SwapExactAmountIn", "poolmanagertypes.PoolModuleI.SwapExactAmountIn", 4, "poolmanager.Keeper.chargeTakerFee(k,ctx,tokenIn,tokenOutDenom,sender,true)#0", "the pool module receives the after-fee coin, never the original")
	// ---- writers
	c.WhoMayCall(K+"setPool", []string{"gammkeeper.Keeper.updatePoolForSwap", "gammkeeper.Keeper.applyJoinPoolStateChange", "gammkeeper.Keeper.applyExitPoolStateChange", "gammkeeper.Keeper.InitializePool",
		"gammkeeper.Keeper.setStableSwapScalingFactors", "gammkeeper.Keeper.setStableSwapScalingFactorController", "gammkeeper.Keeper.InitGenesis", "gammkeeper.Keeper.OverwritePoolV15MigrationUnsafe"}, "pool records are written only by the swap/join/exit helpers, pool creation, the scaling-factor setters, genesis and the v15 migration")
	// ---- each entry changes the pool model exactly once (a quote is taken with the read-only Calc* form)
	mut := "gammtypes.CFMMPoolI.JoinPool|gammtypes.CFMMPoolI.JoinPoolNoSwap|gammtypes.CFMMPoolI.ExitPool|gammtypes.CFMMPoolI.SwapOutAmtGivenIn|gammtypes.CFMMPoolI.SwapInAmtGivenOut|" +
		"gammtypes.PoolAmountOutExtension.IncreaseLiquidity|gammtypes.PoolAmountOutExtension.JoinPoolTokenInMaxShareAmountOut|gammtypes.PoolAmountOutExtension.ExitSwapExactAmountOut|" +
		"gammtypes.PoolAmountOutExtension.JoinPool|gammtypes.PoolAmountOutExtension.JoinPoolNoSwap|gammtypes.PoolAmountOutExtension.ExitPool|gammtypes.PoolAmountOutExtension.SwapOutAmtGivenIn|gammtypes.PoolAmountOutExtension.SwapInAmtGivenOut"
	for _, fn := range []string{"JoinPoolNoSwap", "JoinSwapExactAmountIn", "JoinSwapShareAmountOut", "ExitPool", "ExitSwapExactAmountOut", "SwapExactAmountIn", "SwapExactAmountOut"} {
		c.ExactlyOnce(K+fn, mut, "the pool's reserves/shares are changed exactly once per operation (one bank movement, one reserve update)")
	}
	c.ExactlyOnce(K+"JoinPoolNoSwap", "gammkeeper.Keeper.applyJoinPoolStateChange", "…and persisted/settled exactly once")
	c.ExactlyOnce(K+"JoinSwapExactAmountIn", "gammkeeper.Keeper.applyJoinPoolStateChange", "…and persisted/settled exactly once")
	c.ExactlyOnce(K+"JoinSwapShareAmountOut", "gammkeeper.Keeper.applyJoinPoolStateChange", "…and persisted/settled exactly once")
	c.ExactlyOnce(K+"ExitPool", "gammkeeper.Keeper.applyExitPoolStateChange", "…and persisted/settled exactly once")
	c.ExactlyOnce(K+"ExitSwapExactAmountOut", "gammkeeper.Keeper.applyExitPoolStateChange", "…and persisted/settled exactly once")
	c.ExactlyOnce(K+"SwapExactAmountIn", "gammkeeper.Keeper.updatePoolForSwap", "…and persisted/settled exactly once")
	c.ExactlyOnce(K+"SwapExactAmountOut", "gammkeeper.Keeper.updatePoolForSwap", "…and persisted/settled exactly once")
	// ---- the router hands a pool module the pool as read for this hop, never a copy an earlier hop has made stale
	const R = "x/poolmanager.Keeper."
	swaps := "poolmanagertypes.PoolModuleI.SwapExactAmountIn|poolmanagertypes.PoolModuleI.SwapExactAmountOut"
	c.FreshRead(R+"RouteExactAmountOut", "poolmanager.Keeper.GetPoolModuleAndPool", swaps, "poolmanagertypes.PoolModuleI.SwapExactAmountOut", 3, "each hop of an exact-out route swaps against the pool read after the previous hop (a route may visit a pool twice)")
	c.FreshRead(R+"SwapExactAmountIn", "poolmanager.Keeper.GetPoolModuleAndPool", swaps, "poolmanagertypes.PoolModuleI.SwapExactAmountIn", 3, "a hop swaps against the pool it has just read")
	c.FreshRead(R+"SwapExactAmountInNoTakerFee", "poolmanager.Keeper.GetPoolModuleAndPool", swaps, "poolmanagertypes.PoolModuleI.SwapExactAmountIn", 3, "a hop swaps against the pool it has just read")
	// the pool model is changed before it is persisted and settled
	c.NeverAfter(K+"JoinSwapShareAmountOut", "gammkeeper.Keeper.applyJoinPoolStateChange", "gammtypes.PoolAmountOutExtension.IncreaseLiquidity", "the reserves and shares are booked on the pool object before it is stored and settled (a later change would never be stored)")
	c.NeverAfter(K+"JoinPoolNoSwap", "gammkeeper.Keeper.applyJoinPoolStateChange", "gammtypes.CFMMPoolI.JoinPoolNoSwap", "the join is applied to the pool object before it is stored")
	c.NeverAfter(K+"JoinSwapExactAmountIn", "gammkeeper.Keeper.applyJoinPoolStateChange", "gammtypes.CFMMPoolI.JoinPool", "the join is applied to the pool object before it is stored")
	c.NeverAfter(K+"ExitPool", "gammkeeper.Keeper.applyExitPoolStateChange", "gammtypes.CFMMPoolI.ExitPool", "the exit is applied to the pool object before it is stored")
	c.NeverAfter(K+"ExitSwapExactAmountOut", "gammkeeper.Keeper.applyExitPoolStateChange", "gammtypes.PoolAmountOutExtension.ExitSwapExactAmountOut", "the exit is applied to the pool object before it is stored")
	c.NeverAfter(K+"SwapExactAmountIn", "gammkeeper.Keeper.updatePoolForSwap", "gammtypes.CFMMPoolI.SwapOutAmtGivenIn", "the swap is applied to the pool object before it is stored")
	c.NeverAfter(K+"SwapExactAmountOut", "gammkeeper.Keeper.updatePoolForSwap", "gammtypes.CFMMPoolI.SwapInAmtGivenOut", "the swap is applied to the pool object before it is stored")
	// ---- balancer model internals reached by the entries above
	const BP = "x/gamm/pool-models/balancer.Pool."
	c.Let("SHARESIN", "sdkmath.LegacyDec.TruncateInt(balancer.calcPoolSharesInGivenSingleAssetOut(...))")
	c.CallArg(BP+"ExitSwapExactAmountOut", "balancer.Pool.exitPool", 3, "{SHARESIN}", "an exact-out exit removes from the share total exactly the shares it computed (not the caller's maximum)")
	c.CallArg(BP+"ExitSwapExactAmountOut", "balancer.Pool.exitPool", 2, "sdk.NewCoins(tokenOut)", "…and from the reserves exactly the requested coin")
	c.Returns(BP+"ExitSwapExactAmountOut", 0, "{SHARESIN} | zero:Int()", "…and reports those shares to the keeper, which burns them", "")
	c.FailsWhen(BP+"ExitSwapExactAmountOut", "sdkmath.Int.GT({SHARESIN}, shareInMaxAmount)", "more shares than the caller's maximum is an error", rules.GuardOpt{Before: "balancer.Pool.exitPool"})
	c.StoresOnlyFields(BP+"updateAllWeights", "PoolAsset", []string{"Weight"}, "a weight update (LBP poke) rewrites only the weights of the pool assets, never their token reserves")
	c.ForEach(BP+"calcJoinSingleAssetTokensIn", "sdk.Coins.Add", "tokensIn", "every coin handed to a single-asset join is added to the liquidity booked on the pool (the keeper moves all of them to the pool account)", false)
}
