package props

import (
	"fmt"
	"sort"
	"strings"

	"golang.org/x/tools/go/ssa"

	"osmolint/internal/analyses"
	"osmolint/internal/ir"
	"osmolint/internal/load"
	"osmolint/internal/rules"
)

func init() {
	register(&Prop{
		ID: "C12",
		Explanation: "Fixed-point arithmetic: (X-round) case-partitioned abstract interpretation of every rounding primitive of osmomath/decimal.go over sign(N) × sign(D) × remainder-zero × remainder-vs-half × quotient-parity proves, for operands of either sign, " +
			"that the result is trunc(N/D)+δ with the δ of the documented mode, that the numerator scale and divisor constants are the documented powers of ten (evaluated from the package initialisers), and that X and XMut agree; " +
			"(X-mut) effect analysis proves non-mutating forms cannot write a big.Int reachable from an operand; (O) every growing arithmetic method asserts the bit-length bound on the value it returns.",
		NotCovered:  []string{"exactness of math/big itself", "value-level round-trip of text/JSON/binary encodings beyond 'same codec both ways'", "LegacyDec internals (SDK)"},
		Assumptions: []string{"math/big method semantics (Quo/QuoRem truncate toward zero, remainder has the dividend's sign)", "the partition's branch predicates are the only value-dependent control flow in the helpers (anything else is reported undecided)"},
		MinObl:      302,
		Run:         runC12,
	})
}

func xroundSubjects() []analyses.RSubject {
	const (
		N  = analyses.ArgNumOnly
		NP = analyses.ArgNumPrec
		B  = analyses.ArgBigDecNum
		PR = analyses.ArgBigDecPair
		M  = analyses.ArgBigDecMul
		I  = analyses.ArgBigDecInt64
		PU = analyses.ArgPtrBigDecU
		BU = analyses.ArgBigDecU
	)
	T, U, H := analyses.RTrunc, analyses.RUp, analyses.RHalfEven
	return []analyses.RSubject{
		{Name: "chopPrecisionAndRound", Mode: H, Shape: N, Stages: 1, Div: "1e36"},
		{Name: "chopPrecisionAndRoundSdkDec", Mode: H, Shape: N, Stages: 1, Div: "1e18"},
		{Name: "chopPrecisionAndRoundNonMutative", Mode: H, Shape: N, Stages: 1, Div: "1e36"},
		{Name: "chopPrecisionAndRoundUpMut", Variant: "/36", Mode: U, Shape: NP, Stages: 1, Div: "1e36", PrecArg: "defaultBigDecPrecisionReuse"},
		{Name: "chopPrecisionAndRoundUpMut", Variant: "/18", Mode: U, Shape: NP, Stages: 1, Div: "1e18", PrecArg: "precisionReuseSDKDec"},
		{Name: "chopPrecisionAndRoundUpDec", Mode: U, Shape: N, Stages: 1, Div: "1e18"},
		{Name: "chopPrecisionAndTruncate", Mode: T, Shape: NP, Stages: 1, Div: "1e36", PrecArg: "defaultBigDecPrecisionReuse"},
		{Name: "chopPrecisionAndTruncateMut", Mode: T, Shape: NP, Stages: 1, Div: "1e36", PrecArg: "defaultBigDecPrecisionReuse"},
		{Name: "BigDec.Mul", Mode: H, Shape: M, Stages: 1, Div: "1e36"},
		{Name: "BigDec.MulMut", Mode: H, Shape: M, Stages: 1, Div: "1e36"},
		{Name: "BigDec.MulDec", Mode: H, Shape: M, Stages: 1, Div: "1e18"},
		{Name: "BigDec.MulDecMut", Mode: H, Shape: M, Stages: 1, Div: "1e18"},
		{Name: "BigDec.MulTruncate", Mode: T, Shape: M, Stages: 1, Div: "1e36"},
		{Name: "BigDec.MulTruncateDec", Mode: T, Shape: M, Stages: 1, Div: "1e18"},
		{Name: "BigDec.MulRoundUp", Mode: U, Shape: M, Stages: 1, Div: "1e36"},
		{Name: "BigDec.MulRoundUpDec", Mode: U, Shape: M, Stages: 1, Div: "1e18"},
		{Name: "BigDec.Quo", Mode: H, Shape: PR, Stages: 2, Scale: "1e72", Div: "1e36"},
		{Name: "BigDec.QuoMut", Mode: H, Shape: PR, Stages: 2, Scale: "1e72", Div: "1e36"},
		{Name: "BigDec.QuoRaw", Mode: H, Shape: I, Stages: 2, Scale: "1e36", Div: "1e36"},
		{Name: "BigDec.QuoTruncate", Mode: T, Shape: PR, Stages: 1, Scale: "1e36"},
		{Name: "BigDec.QuoTruncateMut", Mode: T, Shape: PR, Stages: 1, Scale: "1e36"},
		{Name: "BigDec.QuoTruncateDec", Mode: T, Shape: PR, Stages: 1, Scale: "1e18"},
		{Name: "BigDec.QuoTruncateDecMut", Mode: T, Shape: PR, Stages: 1, Scale: "1e18"},
		{Name: "BigDec.QuoRoundUp", Mode: U, Shape: PR, Stages: 1, Scale: "1e36"},
		{Name: "BigDec.QuoRoundUpMut", Mode: U, Shape: PR, Stages: 1, Scale: "1e36"},
		{Name: "BigDec.QuoByDecRoundUp", Mode: U, Shape: PR, Stages: 1, Scale: "1e18"},
		{Name: "BigDec.QuoRoundUpNextIntMut", Mode: U, Shape: PR, Stages: 1, Scale: "1", Post: "1e36"},
		{Name: "BigDec.QuoInt", Mode: T, Shape: PR, Stages: 1, Scale: "1"},
		{Name: "BigDec.QuoInt64", Mode: T, Shape: I, Stages: 1, Scale: "1"},
		{Name: "BigDec.Dec", Mode: T, Shape: B, Stages: 1, Div: "1e18"},
		{Name: "BigDec.DecRoundUp", Mode: U, Shape: B, Stages: 1, Div: "1e18"},
		{Name: "BigDec.DecWithPrecision", Mode: T, Shape: BU, Stages: 1, Div: "any", Post: "any"},
		{Name: "BigDec.ChopPrecisionMut", Mode: T, Shape: PU, Stages: 1, Div: "any", Post: "any"},
		{Name: "BigDec.ChopPrecision", Mode: T, Shape: PU, Stages: 1, Div: "any", Post: "any"},
		{Name: "BigDec.Ceil", Mode: U, Shape: B, Stages: 1, Div: "1e36", Post: "1e36"},
		{Name: "BigDec.CeilMut", Mode: U, Shape: B, Stages: 1, Div: "1e36", Post: "1e36"},
		{Name: "BigDec.TruncateInt", Mode: T, Shape: B, Stages: 1, Div: "1e36"},
		{Name: "BigDec.TruncateInt64", Mode: T, Shape: B, Stages: 1, Div: "1e36"},
		{Name: "BigDec.TruncateDec", Mode: T, Shape: B, Stages: 1, Div: "1e36", Post: "1e36"},
		{Name: "BigDec.RoundInt", Mode: H, Shape: B, Stages: 1, Div: "1e36"},
		{Name: "BigDec.RoundInt64", Mode: H, Shape: B, Stages: 1, Div: "1e36"},
	}
}

func runC12(c *rules.Ctx) {
	sp := c.P.SSAPkg("osmomath")
	if sp == nil {
		c.Broken("package osmomath not loaded")
		return
	}
	resolve := func(name string) *ssa.Function {
		f := c.FnOpt("osmomath." + name)
		if f == nil {
			return nil
		}
		return f.Fn
	}
	results := analyses.RunXRound(c.P.SSA, sp, xroundSubjects(), resolve)
	// group: one obligation per (subject, case); violated cases of one subject are merged into one
	// violation key per subject so that a known finding names the construct, not 20 cases.
	type agg struct {
		ok, bad, und int
		firstBad     string
		firstUnd     string
		pos          string
		cases        []string
	}
	bySubj := map[string]*agg{}
	var order []string
	for _, r := range results {
		a := bySubj[r.Subject]
		if a == nil {
			a = &agg{}
			bySubj[r.Subject] = a
			order = append(order, r.Subject)
		}
		if r.Pos.IsValid() {
			a.pos = c.P.Rel(r.Pos)
		}
		switch r.Status {
		case "ok":
			a.ok++
		case "violated":
			a.bad++
			a.cases = append(a.cases, r.Case)
			if a.firstBad == "" {
				a.firstBad = r.Case + ": " + r.Detail
			}
		default:
			a.und++
			if a.firstUnd == "" {
				a.firstUnd = r.Case + ": " + r.Detail
			}
		}
	}
	sort.Strings(order)
	total, discharged := 0, 0
	for _, s := range order {
		a := bySubj[s]
		total += a.ok + a.bad + a.und
		discharged += a.ok
		desc := "for every case of the sign/remainder/parity partition the result is trunc(N/D)+δ with the δ of the documented rounding mode, with the documented scale and divisor constants"
		switch {
		case a.und > 0:
			c.Undecided("X-round", "osmomath."+s, "allcases", desc, fmt.Sprintf("%d case(s) undecided, first: %s", a.und, a.firstUnd), a.pos)
		case a.bad > 0:
			c.Record("X-round", "osmomath."+s, "allcases", desc, false, fmt.Sprintf("%d of %d cases wrong, first: %s", a.bad, a.ok+a.bad, a.firstBad), a.pos)
		default:
			c.Record("X-round", "osmomath."+s, "allcases", desc, true, fmt.Sprintf("%d cases proved", a.ok), a.pos)
		}
	}
	runXMut(c, sp)
	runAssertBitLen(c, sp)
	c.R.Extra["xround_case_obligations"] = total
	c.R.Extra["xround_case_discharged"] = discharged
	c.R.Extra["exhaustive"] = true
}

// mutAllowed: functions of osmomath that are documented to mutate an operand, with the parameter
// indexes (receiver = 0) they may write. Everything named *Mut may write its receiver only.
var mutAllowed = map[string][]int{
	"osmomath.chopPrecisionAndRound":          {0}, // documented: "Mutates the input"
	"osmomath.chopPrecisionAndRoundSdkDec":    {0}, // same helper for 18 decimals
	"osmomath.chopPrecisionAndRoundUpMut":     {0},
	"osmomath.chopPrecisionAndTruncateMut":    {0},
	"osmomath.incBasedOnRem":                  {1}, // increments the quotient it is given, by contract
	"osmomath.AbsDifferenceWithSign":          {0}, // documented: "a is mutated and returned"
	"osmomath.NewBigDecFromBigIntMut":         {0},
	"osmomath.NewBigDecFromBigIntMutWithPrec": {0},
	"osmomath.BigDecFromDecMut":               {0},
	"osmomath.BigDec.Unmarshal":               {0},
	"osmomath.BigDec.UnmarshalJSON":           {0},
	"osmomath.BigDec.UnmarshalAmino":          {0},
	"osmomath.BigInt.Unmarshal":               {0},
	"osmomath.BigInt.UnmarshalJSON":           {0},
	"osmomath.BigInt.UnmarshalAmino":          {0},
	"osmomath.unmarshalText":                  {0},
	"osmomath.unmarshalJSON":                  {0},
	"osmomath.BigDec.ChopPrecisionMut":        {0},
}

func runXMut(c *rules.Ctx, sp *ssa.Package) {
	var fns []*ssa.Function
	for _, fn := range c.P.AllFuncs() {
		if fn.Pkg == sp && fn.Parent() == nil && load.IsSubjectFile(c.P.File(fn.Pos())) {
			fns = append(fns, fn)
		}
	}
	sums := analyses.RunXMut(fns)
	n := 0
	for _, fn := range fns {
		s := sums[fn]
		if s == nil {
			continue
		}
		name := ir.FuncName(fn)
		allowed := map[int]bool{}
		if a, ok := mutAllowed[name]; ok {
			for _, k := range a {
				allowed[k] = true
			}
		} else if strings.HasSuffix(fn.Name(), "Mut") {
			allowed[0] = true // XMut: mutates the receiver / first operand, by naming convention
		}
		bad := ""
		pos := c.P.Rel(fn.Pos())
		var ks []int
		for k := range s.Mutates {
			ks = append(ks, k)
		}
		sort.Ints(ks)
		for _, k := range ks {
			if !allowed[k] {
				bad = s.Describe(k)
				pos = c.P.Rel(s.NotePos[k])
				break
			}
		}
		n++
		c.Record("X-mut", name, "nomutation", "a function not declared mutating writes no big.Int reachable from its operands; *Mut methods write only their receiver", bad == "", orStr(bad, "no undeclared write"), pos)
	}
	c.R.Extra["xmut_functions"] = n
}

func orStr(a, b string) string {
	if a != "" {
		return a
	}
	return b
}

// growing big.Int operations: the result can have more bits than the operands
var bigGrowing = map[string]bool{"Mul": true, "Add": true, "Sub": true, "Lsh": true, "Exp": true}

// assertExempt: functions that apply a growing operation but need no bit-length assertion, with reason.
var assertExempt = map[string]string{
	"osmomath.BigDec.CeilMut":                 "divides by 10^36 first, then adds at most one and re-multiplies by 10^36: magnitude grows by < one unit of the integer part",
	"osmomath.BigDec.Ceil":                    "delegates to CeilMut",
	"osmomath.BigDec.ChopPrecisionMut":        "divides by the factor before multiplying by the same factor: magnitude cannot grow",
	"osmomath.BigDec.ChopPrecision":           "delegates to ChopPrecisionMut",
	"osmomath.BigDec.TruncateDec":             "divides by 10^36 before re-multiplying by 10^36",
	"osmomath.NewBigDec":                      "constructor from int64: bounded input",
	"osmomath.NewBigDecWithPrec":              "constructor from int64: bounded input",
	"osmomath.NewBigDecFromBigInt":            "constructor: scaling of caller-supplied integer (bounded types upstream)",
	"osmomath.NewBigDecFromBigIntMut":         "constructor",
	"osmomath.NewBigDecFromBigIntWithPrec":    "constructor",
	"osmomath.NewBigDecFromBigIntMutWithPrec": "constructor",
	"osmomath.NewBigDecFromInt":               "constructor",
	"osmomath.NewBigDecFromIntWithPrec":       "constructor",
	"osmomath.NewBigDecFromDecMulDec":         "product of two bounded 18-decimal values",
	"osmomath.BigDecFromDec":                  "conversion of a bounded 18-decimal value",
	"osmomath.BigDecFromDecMut":               "conversion of a bounded 18-decimal value",
	"osmomath.BigDecFromSDKInt":               "conversion of a bounded integer",
	"osmomath.BigInt.ToDec":                   "conversion",
	"osmomath.OneBigDec":                      "constant",
	"osmomath.ZeroBigDec":                     "constant",
	"osmomath.SmallestBigDec":                 "constant",
	"osmomath.BigDec.LogBase2":                "result magnitude is logarithmic in the input; intermediate values go through asserting Mul/Quo (C13 covers its domain guard)",
	"osmomath.MonotonicSqrtBigDecMut":         "square root: the magnitude of the result is at most that of the (bounded) input",
}

// runAssertBitLen: every function of osmomath that returns a BigDec and applies a growing big.Int
// operation calls assertMaxBitLen (directly, or through a BigDec-returning callee that does) on every
// path to a normal return.
func runAssertBitLen(c *rules.Ctx, sp *ssa.Package) {
	asserting := map[*ssa.Function]bool{}
	var fns []*ssa.Function
	for _, fn := range c.P.AllFuncs() {
		if fn.Pkg != sp || fn.Parent() != nil || !load.IsSubjectFile(c.P.File(fn.Pos())) {
			continue
		}
		res := fn.Signature.Results()
		if res.Len() == 0 || !strings.HasSuffix(res.At(0).Type().String(), "osmomath.BigDec") {
			continue
		}
		fns = append(fns, fn)
	}
	passes := func(fn *ssa.Function) (bool, bool, string) { // (grows, ok, pos)
		f := c.Wrap(fn)
		grows := false
		var guards []ssa.CallInstruction
		for _, call := range f.Calls() {
			callee := call.Common().StaticCallee()
			if callee == nil {
				continue
			}
			if callee.Signature.Recv() != nil && strings.HasSuffix(callee.Signature.Recv().Type().String(), "math/big.Int") && bigGrowing[callee.Name()] {
				grows = true
			}
			if callee.Name() == "assertMaxBitLen" && callee.Pkg == sp {
				guards = append(guards, call)
			}
			if asserting[callee] {
				guards = append(guards, call)
			}
		}
		if !grows {
			// a function that only delegates still "asserts" if all its paths go through asserting callees
			if len(guards) > 0 && c.MustPassAny(f, guards) {
				return false, true, ""
			}
			return false, false, ""
		}
		if len(guards) == 0 {
			return true, false, c.P.Rel(fn.Pos())
		}
		return true, c.MustPassAny(f, guards), c.P.Rel(fn.Pos())
	}
	for round := 0; round < 5; round++ {
		for _, fn := range fns {
			_, ok, _ := passes(fn)
			if ok {
				asserting[fn] = true
			}
		}
	}
	n := 0
	for _, fn := range fns {
		grows, ok, pos := passes(fn)
		if !grows {
			continue
		}
		name := ir.FuncName(fn)
		if why, ex := assertExempt[name]; ex {
			c.Record("O-assert", name, "bitlen", "exempt from the bit-length assertion: "+why, true, "exempt (listed reason)", pos)
			continue
		}
		n++
		if ok {
			// the value asserted is the value returned: assertMaxBitLen(x) with BigDec{x} (or the receiver d with d.i)
			f := c.Wrap(fn)
			asserted := map[string]bool{}
			direct := false
			for _, call := range f.Calls() {
				if callee := call.Common().StaticCallee(); callee != nil && callee.Name() == "assertMaxBitLen" && callee.Pkg == sp {
					direct = true
					asserted[f.Term(call.Common().Args[0]).String()] = true
				}
			}
			if direct {
				bad := ""
				for _, b := range fn.Blocks {
					ret, isRet := b.Instrs[len(b.Instrs)-1].(*ssa.Return)
					if !isRet || len(ret.Results) == 0 || !f.CanSucceed(b) {
						continue
					}
					t := f.Term(ret.Results[0])
					switch {
					case t.Op == "call" && strings.HasPrefix(t.Name, "with:i") && len(t.Args) == 2:
						if !asserted[t.Args[1].String()] {
							bad = "returns BigDec{" + t.Args[1].String() + "} but asserts " + keysOf(asserted)
						}
					case t.Op == "param":
						if !asserted[t.String()+".i"] {
							bad = "returns " + t.String() + " but asserts " + keysOf(asserted)
						}
					}
				}
				c.Record("O-assert", name, "bitlen-value", "the bit-length assertion is applied to the very value the operation returns", bad == "", orStr(bad, "asserted value = returned value"), pos)
			}
		}
		c.Record("O-assert", name, "bitlen", "a BigDec operation that can grow the magnitude asserts the bit-length bound on every path to a normal return (results beyond the bound fail rather than wrap)", ok, orStr(map[bool]string{true: "assertMaxBitLen on every path", false: "a path returns without assertMaxBitLen"}[ok], ""), pos)
	}
	c.R.Extra["assert_bitlen_functions"] = n
	// assertMaxBitLen itself: panics iff BitLen() > maxDecBitLen
	// the sign-and-magnitude difference goes through the range-checked decimal operations on both orderings
	c.WhenReturn("osmomath.AbsDifferenceWithSign", "sdkmath.LegacyDec.GTE(a,b)", 0, "sdkmath.LegacyDec.SubMut(a,b)", "a ≥ b: a − b through the checked subtraction")
	c.WhenReturn("osmomath.AbsDifferenceWithSign", "not(sdkmath.LegacyDec.GTE(a,b))", 0, "sdkmath.LegacyDec.AddMut(sdkmath.LegacyDec.NegMut(a), b) | sdkmath.LegacyDec.SubMut(b,a) | sdkmath.LegacyDec.Sub(b,a)", "a < b: b − a through the checked decimal operations too (no raw big-integer arithmetic that skips the overflow check)")
	c.NoCall("osmomath.AbsDifferenceWithSign", "big.Int.Sub", "no raw big-integer subtraction")
	// the textual and the binary decoders accept the same range: exactly the values of at most maxBitLen bits
	for _, fn := range []string{"osmomath.NewBigDecFromStr", "osmomath.BigDec.Unmarshal"} {
		c.BranchOn(fn, "gt(big.Int.BitLen(_), 1024)", []string{"ge(big.Int.BitLen(_), _)", "lt(big.Int.BitLen(_), _)"}, "decoding rejects a value exactly when its bit length exceeds maxBitLen = 1024 (a representable value always parses back)")
		c.FailsWhen(fn, "gt(big.Int.BitLen(_), 1024)", "…and that branch fails the decoding", rules.GuardOpt{Conditional: true})
	}
	c.FailsWhen("osmomath.assertMaxBitLen", "gt(big.Int.BitLen(i), 1144)", "the assertion panics exactly when the bit length exceeds maxDecBitLen = 1024+120", rules.GuardOpt{})
}

func keysOf(m map[string]bool) string {
	var ks []string
	for k := range m {
		ks = append(ks, k)
	}
	sort.Strings(ks)
	return strings.Join(ks, ", ")
}
