package props

import "osmolint/internal/rules"

func init() {
	register(&Prop{
		ID: "C15",
		Explanation: "Reward accumulator (osmoutils/accum): decides the formula total = unclaimed + (accum value − position snapshot)·shares; that every share mutation first folds the accrued rewards into the position (GetTotalRewards → unclaimed), " +
			"writes old±Δ shares for the same position name, and updates the re-read accumulator total by the same Δ with the same sign before persisting; the failure guards (non-positive Δ, remove > held, zero update, unknown position, negative rewards) precede all writes; " +
			"claim resets exactly the claimed position (or deletes it when it holds no shares) and truncates only via TruncateDecimal; the set of functions writing position and accumulator records. Round 8: after a claim the surviving position is always re-based to global − growth outside, whatever was paid.",
		NotCovered:  []string{"claim = Σ growth × shares over a history as a number", "total shares = Σ position shares as an invariant over histories"},
		Assumptions: []string{"osmoutils.MustSet/Get and the KV store are the effect primitives"},
		MinObl:      66,
		Run:         runC15,
	})
}

func runC15(c *rules.Ctx) {
	clClaimRebaseRules(c)
	const A = "osmoutils/accum.AccumulatorObject."
	const P = "osmoutils/accum."
	c.Let("POS", "accum.GetPosition(accum,name)#0")
	c.Let("SIZE", "accum.AccumulatorObject.GetPositionSize(accum,name)#0")
	c.Let("FRESH", "accum.GetAccumulator(accum.store,accum.name)#0")
	c.Let("REWARDS", "accum.GetTotalRewards(accum,{POS})")

	// formula
	c.Returns(P+"GetTotalRewards", 0, "sdk.DecCoins.Add(position.UnclaimedRewardsTotal, sdk.DecCoins.MulDec(sdk.DecCoins.Sub(accum.valuePerShare, position.AccumValuePerShare), position.NumShares))",
		"claimable = unclaimed + (accumulator value − position snapshot) × shares held", "")
	// record writer
	c.StoreField(P+"initOrUpdatePosition", "NumShares", "numShareUnits", "the record takes the given share count")
	c.StoreField(P+"initOrUpdatePosition", "AccumValuePerShare", "accumulatorValuePerShare", "the record takes the given snapshot")
	c.StoreField(P+"initOrUpdatePosition", "UnclaimedRewardsTotal", "unclaimedRewardsTotal", "the record takes the given unclaimed rewards")
	c.HasCall(P+"initOrUpdatePosition", "osmoutils.MustSet", []string{"accum.store", "accum.FormatPositionPrefixKey(accum.name,index)", "_"}, true, "the record is written under the position's own key", "")
	c.StoreField(P+"setAccumulator", "AccumValue", "value", "accumulator record takes the given value")
	c.StoreField(P+"setAccumulator", "TotalShares", "shares", "accumulator record takes the given total")
	c.HasCall(P+"setAccumulator", "osmoutils.MustSet", []string{"accum.store", "accum.formatAccumPrefixKey(accum.name)", "_"}, true, "written under the accumulator's own key", "")

	// AddToAccumulator
	c.HasCall(A+"AddToAccumulator", "accum.setAccumulator", []string{"accum", "sdk.DecCoins.Add(accum.valuePerShare, amt)", "accum.totalShares"}, true, "growth adds amt to the value per share and leaves the share total", "")
	c.StoreField(A+"AddToAccumulator", "valuePerShare", "sdk.DecCoins.Add(accum.valuePerShare, amt)", "in-memory value follows")

	// AddToPositionIntervalAccumulation
	const AD = A + "AddToPositionIntervalAccumulation"
	c.FailsWhen(AD, "not(sdkmath.LegacyDec.IsPositive(newShares))", "non-positive share additions fail", rules.GuardOpt{Before: "accum.initOrUpdatePosition|accum.setAccumulator"})
	c.CheckedCall(AD, "accum.GetPosition", []string{"accum", "name"}, "unknown positions fail before any write", "")
	c.Order(AD, "accum.GetPosition", "accum.initOrUpdatePosition", "the position is read before it is written")
	c.HasCall(AD, "accum.initOrUpdatePosition", []string{"accum", "intervalAccumulationPerShare", "name", "sdkmath.LegacyDec.Add({SIZE}, newShares)", "{REWARDS}", "{POS}.Options"}, true,
		"new record: snapshot = given value, shares = old + Δ, unclaimed = rewards accrued so far (nothing lost or duplicated)", "")
	c.HasCall(AD, "accum.setAccumulator", []string{"accum", "accum.valuePerShare", "sdkmath.LegacyDec.Add({FRESH}.totalShares, newShares)"}, true, "total shares (re-read from the store) grow by the same Δ", "")
	c.Order(AD, "accum.initOrUpdatePosition", "accum.GetAccumulator", "the accumulator total is re-read after the position write")

	// RemoveFromPositionIntervalAccumulation
	const RM = A + "RemoveFromPositionIntervalAccumulation"
	c.FailsWhen(RM, "not(sdkmath.LegacyDec.IsPositive(numSharesToRemove))", "non-positive share removals fail", rules.GuardOpt{Before: "accum.initOrUpdatePosition|accum.setAccumulator"})
	c.FailsWhen(RM, "gt(numSharesToRemove, {POS}.NumShares)", "removing more than held fails", rules.GuardOpt{Before: "accum.initOrUpdatePosition|accum.setAccumulator"})
	c.CheckedCall(RM, "accum.GetPosition", []string{"accum", "name"}, "unknown positions fail before any write", "")
	c.HasCall(RM, "accum.initOrUpdatePosition", []string{"accum", "intervalAccumulationPerShare", "name", "sdkmath.LegacyDec.Sub({SIZE}, numSharesToRemove)", "{REWARDS}", "{POS}.Options"}, true,
		"new record: shares = old − Δ, unclaimed = rewards accrued so far", "")
	c.HasCall(RM, "accum.setAccumulator", []string{"accum", "accum.valuePerShare", "sdkmath.LegacyDec.Sub({FRESH}.totalShares, numSharesToRemove)"}, true, "total shares shrink by the same Δ", "")

	// NewPositionIntervalAccumulation
	const NW = A + "NewPositionIntervalAccumulation"
	c.HasCall(NW, "accum.initOrUpdatePosition", []string{"accum", "intervalAccumulationPerShare", "name", "numShareUnits", "sdk.NewDecCoins()", "options"}, true, "a new position starts with the given snapshot, shares and no unclaimed rewards", "")
	c.HasCall(NW, "accum.setAccumulator", []string{"accum", "accum.valuePerShare", "sdkmath.LegacyDec.Add({FRESH}.totalShares, numShareUnits)"}, true, "total shares grow by the new position's shares", "")
	c.Returns(A+"NewPosition", 0, "accum.AccumulatorObject.NewPositionIntervalAccumulation(accum,name,numShareUnits,accum.valuePerShare,options)", "plain new position snapshots the current value", "")
	c.Returns(A+"AddToPosition", 0, "accum.AccumulatorObject.AddToPositionIntervalAccumulation(accum,name,newShares,accum.valuePerShare)", "plain add snapshots the current value", "")
	c.Returns(A+"RemoveFromPosition", 0, "accum.AccumulatorObject.RemoveFromPositionIntervalAccumulation(accum,name,numSharesToRemove,accum.valuePerShare)", "plain remove snapshots the current value", "")
	c.Returns(A+"UpdatePosition", 0, "accum.AccumulatorObject.UpdatePositionIntervalAccumulation(accum,name,numShares,accum.valuePerShare)", "plain update snapshots the current value", "")

	// UpdatePositionIntervalAccumulation dispatch by sign
	const UP = A + "UpdatePositionIntervalAccumulation"
	c.FailsWhen(UP, "sdkmath.LegacyDec.IsZero(numShares)", "a zero update fails", rules.GuardOpt{Before: "accum.AccumulatorObject.RemoveFromPositionIntervalAccumulation|accum.AccumulatorObject.AddToPositionIntervalAccumulation"})
	c.OnlyWhen(UP, "accum.AccumulatorObject.RemoveFromPositionIntervalAccumulation", "sdkmath.LegacyDec.IsNegative(numShares)", "negative updates remove")
	c.OnlyWhen(UP, "accum.AccumulatorObject.AddToPositionIntervalAccumulation", "not(sdkmath.LegacyDec.IsNegative(numShares))", "positive updates add")
	c.CallArg(UP, "accum.AccumulatorObject.RemoveFromPositionIntervalAccumulation", 2, "sdkmath.LegacyDec.Neg(numShares)", "the removed amount is the magnitude of the negative update")
	c.CallArg(UP, "accum.AccumulatorObject.AddToPositionIntervalAccumulation", 2, "numShares", "the added amount is the update")
	c.CallArg(UP, "accum.AccumulatorObject.AddToPositionIntervalAccumulation", 3, "intervalAccumulationPerShare", "adding re-bases on the caller's interval value, never on the global one")
	c.CallArg(UP, "accum.AccumulatorObject.RemoveFromPositionIntervalAccumulation", 3, "intervalAccumulationPerShare", "removing re-bases on the caller's interval value, never on the global one")
	c.CallArg(UP, "accum.AccumulatorObject.AddToPositionIntervalAccumulation", 1, "name", "…for the named position")
	c.CallArg(UP, "accum.AccumulatorObject.RemoveFromPositionIntervalAccumulation", 1, "name", "…for the named position")

	// SetPositionIntervalAccumulation / AddToUnclaimedRewards keep everything else
	c.HasCall(A+"SetPositionIntervalAccumulation", "accum.initOrUpdatePosition", []string{"accum", "intervalAccumulationPerShare", "name", "{POS}.NumShares", "{POS}.UnclaimedRewardsTotal", "{POS}.Options"}, true, "only the snapshot changes", "")
	c.CheckedCall(A+"SetPositionIntervalAccumulation", "accum.GetPosition", []string{"accum", "name"}, "unknown positions fail", "")
	c.Let("POSN", "accum.GetPosition(accum,positionName)#0")
	c.FailsWhen(A+"AddToUnclaimedRewards", "sdk.DecCoins.IsAnyNegative(rewardsToAddTotal)", "negative rewards fail", rules.GuardOpt{Before: "accum.initOrUpdatePosition"})
	c.HasCall(A+"AddToUnclaimedRewards", "accum.initOrUpdatePosition", []string{"accum", "{POSN}.AccumValuePerShare", "positionName", "{POSN}.NumShares", "sdk.DecCoins.Add({POSN}.UnclaimedRewardsTotal, rewardsToAddTotal)", "{POSN}.Options"}, true, "only the unclaimed rewards grow, by the given amount", "")
	c.CheckedCall(A+"AddToUnclaimedRewards", "accum.GetPosition", []string{"accum", "positionName"}, "unknown positions fail", "")

	clScalingMigrationRules(c)
	// ClaimRewards
	const CL = A + "ClaimRewards"
	c.CheckedCall(CL, "accum.GetPosition", []string{"accum", "positionName"}, "unknown positions fail before any write", "")
	c.Returns(CL, 0, "sdk.DecCoins.TruncateDecimal(accum.GetTotalRewards(accum,{POSN}))#0", "the claim is the truncated total (truncation only here)", "/claimed")
	c.Returns(CL, 1, "sdk.DecCoins.TruncateDecimal(accum.GetTotalRewards(accum,{POSN}))#1", "the remainder is returned as dust", "/dust")
	c.HasCall(CL, "accum.initOrUpdatePosition", []string{"accum", "accum.valuePerShare", "positionName", "{POSN}.NumShares", "sdk.NewDecCoins()", "{POSN}.Options"}, false, "claiming resets exactly the claimer: snapshot = current value, no unclaimed rewards, same shares", "")
	c.OnlyWhen(CL, "accum.AccumulatorObject.deletePosition", "sdkmath.LegacyDec.IsZero({POSN}.NumShares)", "the record is deleted only when it holds no shares")
	c.OnlyWhen(CL, "accum.initOrUpdatePosition", "not(sdkmath.LegacyDec.IsZero({POSN}.NumShares))", "…and reset otherwise")
	c.CallArg(CL, "accum.AccumulatorObject.deletePosition", 1, "positionName", "the deleted record is the claimer's")
	c.HasCall(CL, "accum.AccumulatorObject.deletePosition|accum.initOrUpdatePosition", nil, true, "every successful claim rewrites the claimer's record (deleted or reset) — also when only sub-unit dust was owed, so the same growth is never counted twice", "rewrite")

	// DeletePosition
	const DL = A + "DeletePosition"
	c.NeverAfter(DL, "accum.AccumulatorObject.ClaimRewards", "accum.AccumulatorObject.GetPosition", "the position (its share count) is read before the final claim, which deletes the record of a position without shares")
	c.CheckedCall(DL, "accum.AccumulatorObject.ClaimRewards", []string{"accum", "positionName"}, "rewards are claimed before deletion", "")
	c.HasCall(DL, "storetypes.KVStore.Delete", []string{"accum.store", "accum.FormatPositionPrefixKey(accum.name,positionName)"}, true, "the position record disappears", "")
	c.HasCall(DL, "sdkmath.LegacyDec.SubMut", []string{"accum.totalShares", "accum.AccumulatorObject.GetPosition(accum,positionName)#0.NumShares"}, true, "total shares shrink by the deleted position's shares", "")
	c.Order(DL, "sdkmath.LegacyDec.SubMut", "accum.setAccumulator", "the reduced total is what is persisted")
	c.Order(DL, "accum.AccumulatorObject.ClaimRewards", "storetypes.KVStore.Delete", "claim precedes delete")

	// GetPosition
	c.FailsWhen(P+"GetPosition", "not(osmoutils.Get(accum.store, accum.FormatPositionPrefixKey(accum.name,name), _)#0)", "a missing record is an error", rules.GuardOpt{})

	// writers
	c.WhoMayCall(P+"initOrUpdatePosition", []string{"accum.AccumulatorObject.NewPositionIntervalAccumulation", "accum.AccumulatorObject.AddToPositionIntervalAccumulation", "accum.AccumulatorObject.RemoveFromPositionIntervalAccumulation",
		"accum.AccumulatorObject.SetPositionIntervalAccumulation", "accum.AccumulatorObject.ClaimRewards", "accum.AccumulatorObject.AddToUnclaimedRewards"}, "position records are written only by the listed mutators")
	c.WhoMayCall(P+"setAccumulator", []string{"accum.MakeAccumulator", "accum.MakeAccumulatorWithValueAndShare", "accum.OverwriteAccumulatorUnsafe", "accum.AccumulatorObject.AddToAccumulator", "accum.AccumulatorObject.NewPositionIntervalAccumulation",
		"accum.AccumulatorObject.AddToPositionIntervalAccumulation", "accum.AccumulatorObject.RemoveFromPositionIntervalAccumulation", "accum.AccumulatorObject.DeletePosition"}, "accumulator records are written only by the listed functions")
}
