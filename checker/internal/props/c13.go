package props

import (
	"golang.org/x/tools/go/ssa"

	"osmolint/internal/analyses"
	"osmolint/internal/ir"
	"osmolint/internal/load"
	"osmolint/internal/rules"
)

func init() {
	register(&Prop{
		ID: "C13",
		Explanation: "Approximate math functions — only the clause 'outside the domain the functions fail loudly' and structural side conditions: each documented domain guard (negative / too large exponent, non-positive log argument or base, base 1, base ≥ 2, negative square-root argument, negative magnitude argument, zero divisor, unknown rounding mode, iteration limits) " +
			"is a branch to a panic or error exit that lies on every path to a normal return, against the documented constant (evaluated from the initialisers); the square roots apply the +1 correction exactly when r² < d, in both precisions; the rounding-mode dispatch of DivIntByU64ToBigDec selects the matching division; SigFigRound does not write its argument.",
		NotCovered:  []string{"every numeric error bound (Exp2 10^-18, LogBase2 10^-32, Pow precision, sig-fig half-unit)", "monotonicity of the square roots", "binary-search post-conditions"},
		Assumptions: []string{"math/big.Int.Sqrt returns the floor square root"},
		MinObl:      100,
		Run:         runC13,
	})
}

func runC13(c *rules.Ctx) {
	const M = "osmomath."
	// Exp2
	c.FailsWhen(M+"Exp2", "osmomath.BigDec.IsNegative(exponent)", "negative exponents are rejected", rules.GuardOpt{Before: "osmomath.exp2ChebyshevRationalApprox"})
	c.FailsWhen(M+"Exp2", "gt(osmomath.BigDec.Abs(exponent), @osmomath.maxSupportedExponent)", "exponents above the supported maximum are rejected", rules.GuardOpt{Before: "osmomath.exp2ChebyshevRationalApprox"})
	c.InitStore("osmomath", "maxSupportedExponent", "osmomath.BigDec.PowerInteger(osmomath.MustNewBigDecFromStr(\"2\"),9)", "the supported maximum exponent is 2^9")
	c.CallArg(M+"Exp2", "osmomath.exp2ChebyshevRationalApprox", 0, "osmomath.BigDec.Sub(exponent, osmomath.BigDec.TruncateDec(exponent))", "the approximant receives only the fractional part (in [0,1))")
	const CH = M + "exp2ChebyshevRationalApprox"
	c.FailsWhen(CH, "lt(x, osmomath.ZeroBigDec())", "the approximant rejects x < 0", rules.GuardOpt{})
	c.FailsWhen(CH, "gt(x, osmomath.OneBigDec())", "the approximant rejects x > 1", rules.GuardOpt{})
	c.WhenReturn(CH, "osmomath.BigDec.IsZero(x)", 0, "osmomath.OneBigDec()", "2^0 = 1 exactly")
	c.WhenReturn(CH, "osmomath.BigDec.Equal(x, osmomath.OneBigDec())", 0, "@osmomath.twoBigDec", "2^1 = 2 exactly")
	c.InitStore("osmomath", "twoBigDec", "osmomath.MustNewBigDecFromStr(\"2\")", "the constant two is 2")
	// logs
	c.FailsWhen(M+"BigDec.LogBase2", "le(with:i(_, big.Int.Set(_, x.i)), @osmomath.zeroBigDec)", "log2 of a non-positive number is rejected (checked on a copy of the receiver)", rules.GuardOpt{})
	c.InitStore("osmomath", "zeroBigDec", "osmomath.ZeroBigDec()", "the zero constant is zero")
	c.FailsWhen(M+"BigDec.CustomBaseLog", "le(base, osmomath.ZeroBigDec())", "a non-positive base is rejected", rules.GuardOpt{Before: "osmomath.BigDec.LogBase2"})
	c.FailsWhen(M+"BigDec.CustomBaseLog", "eq(base, osmomath.OneBigDec())", "base one is rejected", rules.GuardOpt{Before: "osmomath.BigDec.LogBase2"})
	c.Returns(M+"BigDec.CustomBaseLog", 0, "osmomath.BigDec.Quo(osmomath.BigDec.LogBase2(x), osmomath.BigDec.LogBase2(base))", "log_b(x) = log2(x) / log2(b)", "")
	// Pow
	c.FailsWhen(M+"Pow", "not(sdkmath.LegacyDec.IsPositive(base))", "a non-positive base is rejected", rules.GuardOpt{Before: "sdkmath.LegacyDec.Power|osmomath.PowApprox"})
	c.FailsWhen(M+"Pow", "ge(base, @osmomath.two)", "a base of two or more is rejected", rules.GuardOpt{Before: "sdkmath.LegacyDec.Power|osmomath.PowApprox"})
	c.InitStore("osmomath", "two", "sdkmath.LegacyMustNewDecFromStr(\"2\")", "the bound is 2")
	c.FailsWhen(M+"PowApprox", "not(sdkmath.LegacyDec.IsPositive(originalBase))", "a non-positive base is rejected", rules.GuardOpt{})
	c.FailsWhen(M+"PowApprox", "eq(phi(1,add(#self,1)), 150000)", "the series gives up loudly at the iteration limit", rules.GuardOpt{Conditional: true})
	c.Let("IPART", "sdkmath.LegacyDec.TruncateDec(exp)")
	c.CallArg(M+"Pow", "osmomath.PowApprox", 0, "base", "the series is evaluated for the given base")
	c.CallArg(M+"Pow", "osmomath.PowApprox", 1, "sdkmath.LegacyDec.Sub(exp, {IPART})", "the series receives only the fractional part of the exponent (the integer part is an exact power)")
	c.CallArg(M+"Pow", "osmomath.PowApprox", 2, "@osmomath.powPrecision", "…to the documented power precision")
	c.CallArg(M+"Pow", "sdkmath.LegacyDec.Power", 1, "sdkmath.LegacyDec.TruncateInt64({IPART})", "the integer part of the exponent is raised exactly")
	c.Returns(M+"Pow", 0, "sdkmath.LegacyDec.Power(base,_) | sdkmath.LegacyDec.MulMut(sdkmath.LegacyDec.Power(base,_), osmomath.PowApprox(base,_,_))", "the result is integer power × fractional power", "")
	c.OnlyWhen(M+"Pow", "osmomath.PowApprox", "not(sdkmath.LegacyDec.IsZero(sdkmath.LegacyDec.Sub(exp, {IPART})))", "the series is evaluated only for a non-integral exponent")
	c.ReachedWhen(M+"Pow", "osmomath.PowApprox", "not(sdkmath.LegacyDec.IsZero(sdkmath.LegacyDec.Sub(exp, {IPART})))", "…and always for one (the series is skipped only for an integral exponent)")
	c.HasCall(M+"Pow", "sdkmath.LegacyDec.MulMut", []string{"sdkmath.LegacyDec.Power(base,_)", "osmomath.PowApprox(base,_,_)"}, false, "the fractional power multiplies the integer power", "")
	// significant-figure rounding: the kept digits are rounded to nearest (half a unit at most)
	c.CallArg(M+"SigFigRound", "sdkmath.LegacyDec.QuoIntMut", 0, "sdkmath.Int.ToLegacyDec(sdkmath.LegacyDec.RoundInt(sdkmath.LegacyDec.MulInt(_, tenToSigFig)))", "the numerator is the scaled value rounded to the nearest integer (half-even), so the result moves by at most half a unit of the last kept digit")
	c.CallArg(M+"SigFigRound", "sdkmath.LegacyDec.QuoIntMut", 1, "sdkmath.Int.Mul(tenToSigFig, sdkmath.LegacyDec.TruncateInt(sdkmath.LegacyDec.Power(sdkmath.Int.ToLegacyDec(sdkmath.NewInt(10)), _)))", "…and is scaled back by 10^sigfig · 10^k")
	c.HasCall(M+"SigFigRound", "sdkmath.LegacyDec.RoundInt", []string{"sdkmath.LegacyDec.MulInt(_, tenToSigFig)"}, false, "d·10^k·10^sigfig is rounded half-even to an integer", "")
	c.HasCall(M+"PowApprox", "sdkmath.LegacyDec.ApproxSqrt", []string{"originalBase"}, false, "the square-root shortcut for exponent one half is taken of the base as given", "sqrt")
	c.OnlyWhen(M+"PowApprox", "sdkmath.LegacyDec.ApproxSqrt", "sdkmath.LegacyDec.Equal(exp, @osmomath.one_half)", "…and only for exactly one half")
	c.NeverAfter(M+"PowApprox", "osmomath.AbsDifferenceWithSign", "sdkmath.LegacyDec.ApproxSqrt", "the shortcut is decided before the series set-up consumes (and overwrites) its working copy of the base")
	// square roots
	for _, v := range [][3]string{{"MonotonicSqrtMut", "sdkmath.LegacyDec", "@osmomath.tenTo18"}, {"MonotonicSqrtBigDecMut", "osmomath.BigDec", "@osmomath.tenTo36"}} {
		fn, ty, ten := M+v[0], v[1], v[2]
		c.Let("DBI", ty+".BigIntMut(d)")
		c.Let("R", "big.Int.Mul(_, {DBI}, "+ten+")")
		c.FailsWhen(fn, ty+".IsNegative(d)", "the square root of a negative number is an error", rules.GuardOpt{Before: "big.Int.Sqrt"})
		c.HasCall(fn, "big.Int.Sqrt", []string{"{R}", "{R}"}, true, "r = floor(sqrt(d · 10^precision))", "")
		c.OnlyWhen(fn, "big.Int.Add", "eq(big.Int.Cmp(big.Int.Mul(_, {R}, {R}), big.Int.Mul({DBI}, {DBI}, "+ten+")), -1)", "r is incremented exactly when r² < d·10^precision (least r with r² ≥ d)")
		c.CallArg(fn, "big.Int.Add", 2, "@osmomath.oneBigInt", "the correction is one unit")
		c.HasCall(fn, "big.Int.Set", []string{"{DBI}", "{R}"}, true, "the result written back is r", "")
	}
	c.InitStore("osmomath", "tenTo18", "big.NewInt(1000000000000000000)", "10^18")
	c.InitStore("osmomath", "tenTo36", "big.Int.Mul(_, @osmomath.tenTo18, @osmomath.tenTo18)", "10^36 = 10^18 · 10^18")
	c.InitStore("osmomath", "oneBigInt", "big.NewInt(1)", "one")
	c.Returns(M+"MonotonicSqrt", 0, "osmomath.MonotonicSqrtMut(sdkmath.LegacyDec.Clone(d))#0", "the non-mutating form works on a clone", "")
	c.Returns(M+"MonotonicSqrtBigDec", 0, "osmomath.MonotonicSqrtBigDecMut(osmomath.BigDec.Clone(d))#0", "the non-mutating form works on a clone", "")
	// magnitude
	c.FailsWhen(M+"OrderOfMagnitude", "not(sdkmath.LegacyDec.IsPositive(num))", "a negative argument is rejected", rules.GuardOpt{Context: []string{"not(sdkmath.LegacyDec.IsZero(num))"}, Conditional: true})
	c.WhenReturn(M+"OrderOfMagnitude", "sdkmath.LegacyDec.IsZero(num)", 0, "0", "the magnitude of zero is zero")
	// DivIntByU64ToBigDec
	const DV = M + "DivIntByU64ToBigDec"
	c.Let("NUM", "osmomath.BigDecFromDecMut(sdkmath.Int.ToLegacyDec(i))")
	c.FailsWhen(DV, "eq(u, 0)", "division by zero is an error", rules.GuardOpt{})
	c.WhenReturn(DV, "eq(round,1)", 0, "osmomath.BigDec.QuoRoundUp({NUM}, osmomath.NewBigDec(u))", "RoundUp divides rounding up")
	c.WhenReturn(DV, "eq(round,2)", 0, "osmomath.BigDec.QuoInt64({NUM}, u)", "RoundDown divides truncating")
	c.WhenReturn(DV, "eq(round,3)", 0, "osmomath.BigDec.Quo({NUM}, osmomath.NewBigDec(u))", "RoundBankers divides half-even")
	c.FailsWhen(DV, "ne(round,3)", "any other rounding mode is an error", rules.GuardOpt{Context: []string{"ne(round,1)", "ne(round,2)"}, Conditional: true})
	c.ConstValue("osmomath", "RoundUp", "1")
	c.ConstValue("osmomath", "RoundDown", "2")
	c.ConstValue("osmomath", "RoundBankers", "3")
	// binary searches
	for _, v := range [][2]string{{"BinarySearch", "osmomath.ErrTolerance.Compare"}, {"BinarySearchBigDec", "osmomath.ErrTolerance.CompareBigDec"}} {
		fn, cmp := v[0], v[1]
		c.FailsWhen(M+fn, "not(lt(phi(0,add(#self,1)), maxIterations))", "non-convergence within the iteration budget is reported as an error", rules.GuardOpt{Conditional: true})
		// the comparison is (expected = target, actual = f(estimate)); a negative result (output too large) lowers the
		// upper bound, a positive one raises the lower bound, zero returns the estimate: the tolerance side is kept
		c.CallArg(M+fn, cmp, 1, "targetOutput", "the tolerance comparison takes the target as the expected value")
		c.CallArg(M+fn, cmp, 2, "dyn(f,_) | dyn(f,_)#0", "…and the image of the current estimate as the actual value")
		c.Let("CMP", cmp+"(errTolerance,targetOutput,_)")
		c.VarUpdatedWhen(M+fn, "upperbound", "_", "lt({CMP},0)", "the upper bound moves to the estimate only when the image is above the target (comparison < 0)")
		c.VarUpdatedWhen(M+fn, "lowerbound", "_", "gt({CMP},0)", "the lower bound moves to the estimate only when the image is below the target (comparison > 0)")
		c.OnlyWhenReturn(M+fn, "has(sdkmath.Int.Add(_,_)) | has(osmomath.BigDec.Add(_,_))", "not(lt({CMP},0)) & not(gt({CMP},0))", "an estimate is returned only when the comparison reports the tolerance met on the requested side")
	}
	// tolerance comparisons (three siblings): the requested side is enforced before any tolerance is consulted
	for _, v := range [][2]string{{"ErrTolerance.Compare", "sdkmath.Int"}, {"ErrTolerance.CompareBigDec", "osmomath.BigDec"}, {"ErrTolerance.CompareDec", "sdkmath.LegacyDec"}} {
		fn, ty := v[0], v[1]
		if c.FnOpt(M+fn) == nil {
			continue
		}
		c.WhenReturn(M+fn, "eq(e.RoundingDir,2) & "+ty+".LT(expected,actual)", 0, "-1", "rounding down requested and the image above the target: reported as too large (never accepted)")
		c.WhenReturn(M+fn, "eq(e.RoundingDir,1) & "+ty+".GT(expected,actual)", 0, "1", "rounding up requested and the image below the target: reported as too small (never accepted)")
	}
	// tolerance comparisons: "within tolerance" (0) is reported only when both configured tolerances were consulted and
	// met — the relative error being the exact decimal quotient |expected−actual| / min(|expected|,|actual|)
	type cmpSib struct{ fn, diff, minv, gt, quo, addTol, mulTol, eq string }
	// |expected−actual| and min(|expected|,|actual|) are symmetric: either operand order is the same value
	sym := func(f, a, b string) string {
		return "alt(" + f + "(" + a + "," + b + "), " + f + "(" + b + "," + a + "))"
	}
	for _, v := range []cmpSib{
		{"ErrTolerance.Compare", "sdkmath.LegacyDec.Abs(" + sym("sdkmath.LegacyDec.Sub", "sdkmath.Int.ToLegacyDec(expected)", "sdkmath.Int.ToLegacyDec(actual)") + ")", "sdkmath.Int.ToLegacyDec(" + sym("sdkmath.MinInt", "sdkmath.Int.Abs(expected)", "sdkmath.Int.Abs(actual)") + ")", "sdkmath.LegacyDec.GT", "sdkmath.LegacyDec.Quo", "e.AdditiveTolerance", "e.MultiplicativeTolerance", "sdkmath.Int.Equal(expected,actual) | sdkmath.Int.Equal(actual,expected)"},
		{"ErrTolerance.CompareBigDec", "osmomath.BigDec.Abs(" + sym("osmomath.BigDec.Sub", "expected", "actual") + ")", sym("osmomath.MinBigDec", "osmomath.BigDec.Abs(expected)", "osmomath.BigDec.Abs(actual)"), "osmomath.BigDec.GT", "osmomath.BigDec.Quo", "osmomath.BigDecFromDec(e.AdditiveTolerance)", "osmomath.BigDecFromDec(e.MultiplicativeTolerance)", "osmomath.BigDec.Equal(expected,actual) | osmomath.BigDec.Equal(actual,expected)"},
		{"ErrTolerance.CompareDec", "sdkmath.LegacyDec.Abs(" + sym("sdkmath.LegacyDec.Sub", "expected", "actual") + ")", sym("sdkmath.MinDec", "sdkmath.LegacyDec.Abs(expected)", "sdkmath.LegacyDec.Abs(actual)") + " | " + sym("sdkmath.LegacyMinDec", "sdkmath.LegacyDec.Abs(expected)", "sdkmath.LegacyDec.Abs(actual)"), "sdkmath.LegacyDec.GT", "sdkmath.LegacyDec.Quo", "e.AdditiveTolerance", "e.MultiplicativeTolerance", "sdkmath.LegacyDec.Equal(expected,actual) | sdkmath.LegacyDec.Equal(actual,expected)"},
	} {
		if c.FnOpt(M+v.fn) == nil {
			continue
		}
		relTest := v.gt + "(" + v.quo + "(" + v.diff + ", _), " + v.mulTol + ")"
		c.BranchOn(M+v.fn, relTest, nil, "the relative error compared with the multiplicative tolerance is |expected−actual| divided (as a decimal) by a value derived from the operands")
		c.CallArg(M+v.fn, v.quo+"[0="+v.diff+"]", 1, v.minv, "…the divisor being min(|expected|,|actual|)")
		c.OnlyWhenReturn(M+v.fn, "0", v.eq+" | sdkmath.LegacyDec.IsNil(e.MultiplicativeTolerance) | sdkmath.LegacyDec.IsZero(e.MultiplicativeTolerance) | not("+relTest+")",
			"0 (within tolerance) is returned only when the operands are equal, no multiplicative tolerance is configured, or the relative error was found within it")
		c.OnlyWhenReturn(M+v.fn, "0", v.eq+" | sdkmath.LegacyDec.IsNil(e.AdditiveTolerance) | not("+v.gt+"("+v.diff+", "+v.addTol+"))",
			"0 (within tolerance) is returned only when the operands are equal, no additive tolerance is configured, or the absolute error was found within it")
	}
	spotPriceRules(c)
	// SigFigRound must not write its argument (finding F2; shared with C12's effect analysis)
	sp := c.P.SSAPkg("osmomath")
	var fns []*ssa.Function
	for _, fn := range c.P.AllFuncs() {
		if fn.Pkg == sp && fn.Parent() == nil && load.IsSubjectFile(c.P.File(fn.Pos())) {
			fns = append(fns, fn)
		}
	}
	sums := analyses.RunXMut(fns)
	for _, name := range []string{"SigFigRound", "Pow", "PowApprox", "Exp2", "MonotonicSqrt", "MonotonicSqrtBigDec", "OrderOfMagnitude"} {
		f := c.FnOpt(M + name)
		if f == nil {
			c.Undecided("X-mut", M+name, "nomutation", "function exists", "anchor does not resolve", "")
			continue
		}
		s := sums[f.Fn]
		bad := ""
		pos := c.P.Rel(f.Fn.Pos())
		if s != nil {
			for k := range s.Mutates {
				bad = s.Describe(k)
				pos = c.P.Rel(s.NotePos[k])
			}
		}
		c.Record("X-mut", ir.FuncName(f.Fn), "nomutation", "the function leaves its arguments untouched", bad == "", orStr(bad, "no write to an operand"), pos)
	}
}
