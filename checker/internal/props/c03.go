package props

import "osmolint/internal/rules"

func init() {
	register(&Prop{
		ID: "C03",
		Explanation: "Concentrated swaps: decides (a) by direction inference that each of the four next-sqrt-price functions returns a value on the documented side of the exact formula and that CalcAmount0/1Delta use only round-up operations under roundUp and only truncating ones otherwise; " +
			"(b) per swap step, in all four strategy functions, the amount charged is computed with roundUp=true and converted with DecRoundUp, the amount paid out with roundUp=false and truncated, the fee with round-up multiplication or as the exact remainder, and exact-in/exact-out and zero-for-one/one-for-zero select the matching price function; " +
			"(c) the estimate entry points run the same compute function with the same arguments on a cache context whose write-back is never called; (d) the progress / overshoot / overcharge guards precede the state updates of the swap loop; (e) totals: amount in is ceiled, amount out truncated. Round 8: every non-zero rounded-up spread fee is collected from the trader; ApplySwap replaces price, tick and liquidity on every successful path.",
		NotCovered:  []string{"the bound on the distance from the exact rational curve", "value equality of estimate and execution beyond 'same code, same arguments'", "the round-trip inequality", "18- vs 36-digit regimes"},
		Assumptions: []string{"operands of the price functions are positive and liquidity − product > 0 (direction inference)", "rounding classes of osmomath as proved by C12"},
		MinObl:      151,
		Run:         runC03,
	})
}

func runC03(c *rules.Ctx) {
	const M = "x/concentrated-liquidity/math."
	// ---- (a) math
	c.Direction(M+"GetNextSqrtPriceFromAmount0InRoundingUp", "GE", "token0 in: the next sqrt price is rounded up (never below the exact value)")
	c.Direction(M+"GetNextSqrtPriceFromAmount0OutRoundingUp", "GE", "token0 out: the next sqrt price is rounded up")
	c.Direction(M+"GetNextSqrtPriceFromAmount1InRoundingDown", "LE", "token1 in: the next sqrt price is rounded down (never above the exact value)")
	c.Direction(M+"GetNextSqrtPriceFromAmount1OutRoundingDown", "LE", "token1 out: the next sqrt price is rounded down")
	for _, fn := range []string{"CalcAmount0Delta", "CalcAmount1Delta"} {
		c.RoundRegion(M+fn, "roundUp", "UP", nil, 2, "under roundUp only round-up operations are used")
		c.RoundRegion(M+fn, "not(roundUp)", "DOWN", nil, 1, "otherwise only truncating operations are used")
		c.RoundRegion(M+fn, "", "UP,DOWN", nil, 3, "no half-even operation anywhere in the function")
	}
	// ---- (b) swap steps
	const S = "x/concentrated-liquidity/swapstrategy."
	type step struct {
		fn                  string
		inDelta, outDelta   string // which CalcAmountNDelta computes amount in / out
		priceFn             string
		inIdx, outIdx, fIdx int // result indexes of amount in, amount out, fee
	}
	steps := []step{
		{"zeroForOneStrategy.ComputeSwapWithinBucketOutGivenIn", "clmath.CalcAmount0Delta", "clmath.CalcAmount1Delta", "clmath.GetNextSqrtPriceFromAmount0InRoundingUp", 1, 2, 3},
		{"zeroForOneStrategy.ComputeSwapWithinBucketInGivenOut", "clmath.CalcAmount0Delta", "clmath.CalcAmount1Delta", "clmath.GetNextSqrtPriceFromAmount1OutRoundingDown", 2, 1, 3},
		{"oneForZeroStrategy.ComputeSwapWithinBucketOutGivenIn", "clmath.CalcAmount1Delta", "clmath.CalcAmount0Delta", "clmath.GetNextSqrtPriceFromAmount1InRoundingDown", 1, 2, 3},
		{"oneForZeroStrategy.ComputeSwapWithinBucketInGivenOut", "clmath.CalcAmount1Delta", "clmath.CalcAmount0Delta", "clmath.GetNextSqrtPriceFromAmount0OutRoundingUp", 2, 1, 3},
	}
	for _, s := range steps {
		fn := S + s.fn
		c.CallArgN(fn, s.inDelta, 3, "true", "the amount charged in a step is computed rounding up", 1, "/in")
		c.CallArgN(fn, s.outDelta, 3, "false", "the amount paid out in a step is computed truncating", 1, "/out")
		c.HasCall(fn, s.priceFn, nil, false, "the step uses the price function matching its swap kind and direction", "pricefn")
		for _, other := range []string{"clmath.GetNextSqrtPriceFromAmount0InRoundingUp", "clmath.GetNextSqrtPriceFromAmount0OutRoundingUp", "clmath.GetNextSqrtPriceFromAmount1InRoundingDown", "clmath.GetNextSqrtPriceFromAmount1OutRoundingDown"} {
			if other != s.priceFn {
				c.NoCall(fn, other, "no other price function is used in this step")
			}
		}
		c.Returns(fn, s.inIdx, "osmomath.BigDec.DecRoundUp(each("+s.inDelta+"(...)))", "amount in is the round-up delta converted rounding up", "/in")
		c.Returns(fn, s.outIdx, "osmomath.BigDec.Dec(each(alt("+s.outDelta+"(...), osmomath.BigDecFromDec(_))))", "amount out is the truncating delta (capped at the remaining amount), truncated", "/out")
		c.RoundValue(fn, "ret:"+itoa(s.inIdx), "UP", "UP", []string{s.priceFn}, "only round-up operations feed the amount charged (the price function has its own direction rule)")
		c.RoundValue(fn, "ret:"+itoa(s.outIdx), "DOWN", "DOWN", []string{s.priceFn}, "only truncating operations feed the amount paid out (the price function has its own direction rule)")
		c.RoundValue(fn, "ret:"+itoa(s.fIdx), "UP", "", []string{s.priceFn}, "the fee is rounded up (or is the exact remainder)")
	}
	c.Returns(S+"computeSpreadRewardChargeFromAmountIn", 0, "sdkmath.LegacyDec.MulRoundUp(amountIn, spreadFactorOverOneMinusSpreadFactor)", "fee = amount in × sf/(1−sf), rounded up", "")
	c.OnlyWhen(S+"computeSpreadRewardChargePerSwapStepOutGivenIn", "swapstrategy.computeSpreadRewardChargeFromAmountIn", "hasReachedTarget", "when the target is reached the fee is derived from the amount in (otherwise it is the exact remainder)")
	c.CallArg(S+"computeSpreadRewardChargePerSwapStepOutGivenIn", "sdkmath.LegacyDec.Sub", 0, "amountSpecifiedRemaining", "the remainder fee is remaining − amount in")
	c.CallArg(S+"computeSpreadRewardChargePerSwapStepOutGivenIn", "sdkmath.LegacyDec.Sub", 1, "amountIn", "the remainder fee is remaining − amount in")
	c.RoundRegion(S+"computeSpreadRewardChargePerSwapStepOutGivenIn", "", "UP", nil, 1, "only round-up operations in the fee computation")
	runC03swaps(c)
}

func runC03swaps(c *rules.Ctx) {
	const K = "x/concentrated-liquidity.Keeper."
	// ---- (c) estimate = execution
	type pair struct {
		est, exec, compute, estToken, execToken, denom string
		iPool, iToken, iDenom, iSpread, iPrice, iUpd   int
	}
	for _, p := range []pair{
		{"CalcOutAmtGivenIn", "swapOutAmtGivenIn", "cl.Keeper.computeOutAmtGivenIn", "tokenIn", "tokenIn", "tokenOutDenom", 2, 3, 4, 5, 6, 7},
		{"CalcInAmtGivenOut", "swapInAmtGivenOut", "cl.Keeper.computeInAmtGivenOut", "tokenOut", "desiredTokenOut", "tokenInDenom", 6, 2, 3, 4, 5, 7},
	} {
		c.CallArg(K+p.est, p.compute, p.iToken, p.estToken, "the estimate passes the caller's token unchanged")
		c.CallArg(K+p.exec, p.compute, p.iToken, p.execToken, "the execution passes the caller's token unchanged")
		c.CallArg(K+p.est, p.compute, p.iDenom, p.denom, "…the same other denom")
		c.CallArg(K+p.exec, p.compute, p.iDenom, p.denom, "…the same other denom")
		c.CallArg(K+p.est, p.compute, p.iSpread, "spreadFactor", "…the same spread factor")
		c.CallArg(K+p.exec, p.compute, p.iSpread, "spreadFactor", "…the same spread factor")
		c.CallArg(K+p.est, p.compute, p.iPool, "poolmanagertypes.PoolI.GetId(poolI)", "…on the same pool")
		c.CallArg(K+p.exec, p.compute, p.iPool, "cltypes.ConcentratedPoolExtension.GetId(pool)", "…on the same pool")
		c.CallArg(K+p.est, p.compute, p.iUpd, "false", "the estimate does not update accumulators")
		c.CallArg(K+p.exec, p.compute, p.iUpd, "true", "the execution updates accumulators")
		c.CallArg(K+p.est, p.compute, p.iPrice, "@cl.unboundedPriceLimit", "the estimate runs without a price limit (listed difference: execution passes GetPriceLimit, which is the unbounded limit too)")
		c.CacheCtxOnly(K+p.est, nil, true, "the estimate runs entirely on a cache context that is never written back: estimates leave state untouched")
	}
	c.CacheCtxOnly(K+"ComputeMaxInAmtGivenMaxTicksCrossed", []string{"cltypes.BankKeeper.GetBalance"}, true, "the max-in query runs on a cache context that is never written back (the pool balance is only read through the outer context)")
	// ---- (d) guards of the swap loops
	const V = "x/concentrated-liquidity.validateSwapProgressAndAmountConsumption"
	c.FailsWhen(V, "not(sdkmath.LegacyDec.IsZero(amountIn))", "no price movement with a non-zero amount in is an error", rules.GuardOpt{Context: []string{"eq(computedSqrtPrice, sqrtPriceStart)"}, Conditional: true})
	c.FailsWhen(V, "not(sdkmath.LegacyDec.IsZero(amountOut))", "no price movement with a non-zero amount out is an error", rules.GuardOpt{Context: []string{"eq(computedSqrtPrice, sqrtPriceStart)"}, Conditional: true})
	const E = "x/concentrated-liquidity.edgeCaseInequalityBasedOnSwapStrategy"
	c.WhenReturn(E, "isZeroForOne", 0, "osmomath.BigDec.GT(nextInitializedTickSqrtPrice, computedSqrtPrice)", "zero-for-one: overshoot = computed price below the next tick's price")
	c.WhenReturn(E, "not(isZeroForOne)", 0, "osmomath.BigDec.LT(nextInitializedTickSqrtPrice, computedSqrtPrice)", "one-for-zero: overshoot = computed price above the next tick's price")
	for _, l := range [][3]string{{"computeOutAmtGivenIn", "ComputeSwapWithinBucketOutGivenIn", "1"}, {"computeInAmtGivenOut", "ComputeSwapWithinBucketInGivenOut", "2"}} {
		fn := K + l[0]
		step := "swapstrategy.SwapStrategy." + l[1] + "(...)"
		c.CheckedCallOpt(fn, "cl.validateSwapProgressAndAmountConsumption", []string{step + "#0", "_", "", ""}, "each step's progress is validated and a failure aborts the swap", "", false)
		c.StoreOrder(fn, "sqrtPrice", "cl.validateSwapProgressAndAmountConsumption", nil, "the swap state's price is updated only after the step was validated")
		c.StoreField(fn, "sqrtPrice", step+"#0", "the swap state's price becomes the step's computed price")
		c.FailsWhen(fn, "cl.edgeCaseInequalityBasedOnSwapStrategy(swapstrategy.SwapStrategy.ZeroForOne(_), _, "+step+"#0)", "overshooting the next initialised tick aborts the swap", rules.GuardOpt{Conditional: true})
		c.FailsWhen(fn, "ge(_, 100) | ge(_, @cl.swapNoProgressLimit)", "a bounded number of zero-amount iterations aborts the swap", rules.GuardOpt{Conditional: true})
		c.FailsWhen(fn, "sdkmath.LegacyDec.IsNegative(_)", "consuming more than specified aborts the swap", rules.GuardOpt{})
		c.CallArg(fn, "cl.Keeper.swapCrossTickLogic", 0, "k", "tick crossing is handled by the shared helper")
		c.OnlyWhen(fn, "cl.Keeper.swapCrossTickLogic", "eq(_, "+step+"#0)", "a tick is crossed only when the computed price equals the next initialised tick's price")
	}
	// ---- (e) totals
	swapTotalRules(c)
	// ---- (f) one transition for estimate and execution; settlement of the computed amounts
	clSwapLoopRules(c)
	clSwapSettleRules(c)
	clPoolWriteRules(c)
	clOvershootBeforeTickRules(c)
}

func itoa(i int) string { return string(rune('0' + i)) }

// swapTotalRules: integer totals of a swap (shared by C01 and C03).
func swapTotalRules(c *rules.Ctx) {
	const K = "x/concentrated-liquidity.Keeper."
	// what is settled with the trader is what the swap computed (never the amounts the caller offered)
	c.Let("RES_OI", "cl.Keeper.computeOutAmtGivenIn(...)#0")
	c.Let("RES_IO", "cl.Keeper.computeInAmtGivenOut(...)#0")
	c.CallArg(K+"swapOutAmtGivenIn", "cl.Keeper.updatePoolForSwap", 3, "with:TokenOut(with:TokenIn(with:Sender(zero:SwapDetails(),sender), sdk.NewCoin(tokenIn.Denom,{RES_OI}.AmountIn)), sdk.NewCoin(tokenOutDenom,{RES_OI}.AmountOut))", "exact-in: the trader is debited the amount the swap consumed and credited the amount it produced")
	c.CallArg(K+"swapInAmtGivenOut", "cl.Keeper.updatePoolForSwap", 3, "with:TokenOut(with:TokenIn(with:Sender(zero:SwapDetails(),sender), sdk.NewCoin(tokenInDenom,{RES_IO}.AmountIn)), sdk.NewCoin(desiredTokenOut.Denom,{RES_IO}.AmountOut))", "exact-out: the trader is debited the computed input and credited the computed output")
	c.CallArg(K+"swapOutAmtGivenIn", "cl.Keeper.updatePoolForSwap", 5, "{RES_OI}.SpreadRewards", "…with the spread rewards of that computation")
	c.CallArg(K+"swapInAmtGivenOut", "cl.Keeper.updatePoolForSwap", 5, "{RES_IO}.SpreadRewards", "…with the spread rewards of that computation")
	c.Returns(K+"swapOutAmtGivenIn", 0, "sdk.NewCoin(tokenIn.Denom,{RES_OI}.AmountIn) | zero:Coin()", "…and the same consumed amount is reported", "/settled")
	c.Returns(K+"swapInAmtGivenOut", 0, "sdk.NewCoin(tokenInDenom,{RES_IO}.AmountIn) | zero:Coin()", "…and the same input is reported", "/settled")
	c.Returns(K+"computeOutAmtGivenIn", 0, "has(with:AmountIn(_, sdkmath.LegacyDec.TruncateInt(sdkmath.LegacyDec.Ceil(_))))", "exact-in total: the amount charged is the ceiling of the consumed amount", "/in")
	c.Returns(K+"computeOutAmtGivenIn", 0, "has(with:AmountOut(_, sdkmath.LegacyDec.TruncateInt(non(sdkmath.LegacyDec.Ceil(_)))))", "exact-in total: the amount paid out is truncated", "/out")
	c.Returns(K+"computeInAmtGivenOut", 0, "has(with:AmountIn(_, sdkmath.LegacyDec.TruncateInt(sdkmath.LegacyDec.Ceil(_))))", "exact-out total: the amount charged is the ceiling of the calculated amount", "/in")
	c.Returns(K+"computeInAmtGivenOut", 0, "has(with:AmountOut(_, sdkmath.LegacyDec.TruncateInt(non(sdkmath.LegacyDec.Ceil(_)))))", "exact-out total: the amount paid out is truncated", "/out")
}
