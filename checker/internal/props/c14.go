package props

import "osmolint/internal/rules"

func init() {
	register(&Prop{
		ID: "C14",
		Explanation: "Tick/price conversions, structural clauses: the declared tick bounds agree with the declared price bounds (min initialised tick −108000000 ↔ 10^-12, −270000000 ↔ 10^-30, max tick 342000000 ↔ 10^38, current-tick minima one below, 9·10^6 ticks per decade); out-of-range ticks and prices are rejected by guards against exactly those constants before any arithmetic; " +
			"the 18-digit square root is used exactly for ticks ≥ the old minimum (and prices ≥ 10^-12 are chopped to 18 digits), the 36-digit one otherwise; rounding a tick to its spacing subtracts the Euclidean remainder (never moves up); the ±1 correction of sqrt-price→tick compares with the neighbouring ticks' sqrt prices using ≥ / ≥ / <.",
		NotCovered:  []string{"monotonicity and exactness of the tick→price formula over the 4.5·10^8 ticks", "inverse property sqrt-price→tick→sqrt-price (numeric enumeration)"},
		Assumptions: []string{"osmomath monotone square roots (C13)"},
		MinObl:      48,
		Run:         runC14,
	})
}

func runC14(c *rules.Ctx) {
	const T = "x/concentrated-liquidity/types"
	const M = "x/concentrated-liquidity/math."
	// ---- constants
	c.ConstValueOrInit(T, "MinInitializedTick", "-108000000")
	c.ConstValueOrInit(T, "MaxTick", "342000000")
	c.ConstValueOrInit(T, "MinCurrentTick", "-108000001")
	c.ConstValueOrInit(T, "MinInitializedTickV2", "-270000000")
	c.ConstValueOrInit(T, "MinCurrentTickV2", "-270000001")
	c.ConstValueOrInit(T, "ExponentAtPriceOne", "-6")
	c.InitStore(T, "MaxSpotPrice", "sdkmath.LegacyMustNewDecFromStr(\"100000000000000000000000000000000000000\")", "max spot price 10^38 ↔ max tick 342000000 = 9·10^6·38")
	c.InitStore(T, "MinSpotPrice", "sdkmath.LegacyMustNewDecFromStr(\"0.000000000001\")", "min spot price 10^-12 ↔ min initialised tick −108000000 = −9·10^6·12")
	c.InitStore(T, "MinSpotPriceV2", "osmomath.NewBigDecWithPrec(1, 30)", "extended min spot price 10^-30 ↔ −270000000 = −9·10^6·30")
	c.InitStore(T, "MaxSqrtPrice", "osmomath.MustMonotonicSqrt(@cltypes.MaxSpotPrice)", "max sqrt price is the sqrt of the max spot price")
	c.InitStore(T, "MinSqrtPrice", "osmomath.MustMonotonicSqrt(@cltypes.MinSpotPrice)", "min sqrt price is the sqrt of the min spot price")
	c.InitStore("x/concentrated-liquidity/math", "geometricExponentIncrementDistanceInTicks", "mul(9, sdkmath.LegacyDec.TruncateInt64(sdkmath.LegacyDec.PowerMut(sdkmath.LegacyNewDec(10), 6)))", "9·10^(−ExponentAtPriceOne) ticks per decade")
	// ---- guards
	const AG = M + "TickToAdditiveGeometricIndices"
	c.FailsWhen(AG, "lt(tickIndex, -270000001)", "ticks below the extended minimum are rejected (the exact special ticks 0 and the minimum return early)", rules.GuardOpt{Conditional: true})
	c.FailsWhen(AG, "gt(tickIndex, 342000000)", "ticks above the maximum are rejected", rules.GuardOpt{Conditional: true})
	c.OnlyWhenReturn(AG, "sub(tickIndex, _)", "not(lt(tickIndex, -270000001)) & not(gt(tickIndex, 342000000))", "the general formula is reached only for in-range ticks")
	c.Returns(AG, 1, "0 | -30 | quo(tickIndex, @clmath.geometricExponentIncrementDistanceInTicks)", "geometric exponent = tick / ticks-per-decade", "/exp")
	c.Returns(AG, 0, "0 | sub(tickIndex, mul(quo(tickIndex, @clmath.geometricExponentIncrementDistanceInTicks), @clmath.geometricExponentIncrementDistanceInTicks))", "additive ticks = remainder within the decade", "/add")
	const PT = M + "CalculatePriceToTick"
	c.FailsWhen(PT, "osmomath.BigDec.IsNegative(price)", "negative prices are rejected", rules.GuardOpt{})
	c.FailsWhen(PT, "gt(price, @cltypes.MaxSpotPriceBigDec)", "prices above the maximum are rejected — judged on the price as given, before the 18-digit chop", rules.GuardOpt{Before: "osmomath.BigDec.ChopPrecisionMut"})
	c.FailsWhen(PT, "lt(price, @cltypes.MinSpotPriceV2)", "prices below the extended minimum are rejected — judged on the price as given, before the 18-digit chop", rules.GuardOpt{Before: "osmomath.BigDec.ChopPrecisionMut"})
	c.OnlyWhen(PT, "osmomath.BigDec.ChopPrecisionMut", "ge(price, @cltypes.MinSpotPriceBigDec)", "prices in the 18-digit regime are chopped to 18 digits, others keep 36")
	c.CallArg(PT, "osmomath.BigDec.ChopPrecisionMut", 1, "18", "to exactly 18 digits")
	const ST = M + "CalculateSqrtPriceToTick"
	c.FailsWhen(ST, "lt(clmath.CalculatePriceToTick(_)#0, -108000001)", "a tick below the minimum current tick is rejected", rules.GuardOpt{})
	c.CallArg(ST, "clmath.CalculatePriceToTick", 0, "osmomath.BigDec.Mul(sqrtPrice, sqrtPrice)", "price = sqrt price squared")
	c.BranchOn(ST, "ge(sqrtPrice, clmath.TickToSqrtPrice(add(_,1))#0)", nil, "the bucket above is selected with ≥ (lower edge inclusive)")
	c.BranchOn(ST, "ge(sqrtPrice, clmath.TickToSqrtPrice(non(alt(add(_,_), sub(_,_))))#0)", nil, "the candidate bucket is kept with ≥")
	c.BranchOn(ST, "lt(sqrtPrice, clmath.TickToSqrtPrice(sub(_,1))#0)", nil, "falling below the bucket underneath is an error (<)")
	const RD = M + "RoundDownTickToSpacing"
	c.BranchOn(RD, "lt(rem(tickIndex,tickSpacing), 0)", nil, "a negative remainder is made Euclidean (so the tick never moves up)")
	c.FailsWhen(RD, "gt(has(sub(tickIndex,_)), 342000000)", "the *rounded* tick (tick minus remainder) above the maximum is rejected", rules.GuardOpt{})
	c.FailsWhen(RD, "lt(has(sub(tickIndex,_)), -270000000)", "the *rounded* tick (tick minus remainder) below the minimum is rejected", rules.GuardOpt{})
	c.Returns(RD, 0, "each(alt(tickIndex, sub(tickIndex, _)))", "the result is the tick itself or the tick minus its (non-negative) remainder", "")
	const TS = M + "TickToSqrtPrice"
	c.OnlyWhen(TS, "osmomath.MonotonicSqrtMut", "ge(tickIndex, -108000000)", "18-digit square root exactly for ticks in the original range")
	c.OnlyWhen(TS, "osmomath.MonotonicSqrtBigDec", "lt(tickIndex, -108000000)", "36-digit square root for the extended range")
	c.CallArg(TS, "osmomath.MonotonicSqrtMut", 0, "osmomath.BigDec.Dec(clmath.TickToPrice(tickIndex)#0)", "of the tick's price, truncated to 18 digits")
	c.CallArg(TS, "osmomath.MonotonicSqrtBigDec", 0, "clmath.TickToPrice(tickIndex)#0", "of the tick's 36-digit price")
	c.FailsWhen(M+"TicksToSqrtPrice", "ge(lowerTick, upperTick)", "a range must have lower < upper", rules.GuardOpt{})
	const AS = "x/concentrated-liquidity/model.Pool.ApplySwap"
	c.FailsWhen(AS, "lt(newCurrentTick, -108000001)", "a swap cannot move the tick below the minimum", rules.GuardOpt{})
	c.FailsWhen(AS, "gt(newCurrentTick, 342000000)", "a swap cannot move the tick above the maximum", rules.GuardOpt{})
	spotPriceRules(c)
	// ---- price → sqrt-price conversion for swap limits: the supported price range is closed at both ends
	const GL = "x/concentrated-liquidity/swapstrategy.GetSqrtPriceLimit"
	c.BranchOn(GL, "lt(priceLimit, @cltypes.MinSpotPriceV2)", []string{"le(priceLimit, @cltypes.MinSpotPriceV2)"}, "a price limit is rejected only when strictly below the minimum spot price (the minimum itself converts)")
	c.BranchOn(GL, "gt(priceLimit, @cltypes.MaxSpotPriceBigDec)", []string{"ge(priceLimit, @cltypes.MaxSpotPriceBigDec)"}, "…or strictly above the maximum spot price (the maximum itself converts)")
	c.BranchOn(GL, "ge(priceLimit, @cltypes.MinSpotPriceBigDec)", []string{"gt(priceLimit, @cltypes.MinSpotPriceBigDec)"}, "the 18-decimal regime starts at (and includes) the old minimum spot price, as in the tick conversion")
	c.PathCase(GL, "osmomath.BigDec.GTE(priceLimit,@cltypes.MinSpotPriceBigDec)", 0, "osmomath.BigDecFromDecMut(osmomath.MonotonicSqrtMut(osmomath.BigDec.Dec(priceLimit))#0) | nil | zero:BigDec()", "prices of the 18-decimal regime use the 18-decimal monotonic square root")
	c.PathCase(GL, "not(osmomath.BigDec.GTE(priceLimit,@cltypes.MinSpotPriceBigDec))", 0, "osmomath.MonotonicSqrtBigDec(priceLimit)#0 | nil | zero:BigDec()", "smaller prices use the 36-decimal monotonic square root")

}
