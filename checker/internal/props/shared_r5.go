package props

import "osmolint/internal/rules"

// Rules added after mutation round 5 (changes in supporting code around the anchored functions). They are shared
// between the properties whose behaviour depends on the same construct.

// clSwapLoopRules (C03, C05): the per-step transition of the concentrated swap loops is the same on the estimate
// path (updateAccumulators=false) and the execution path: the running totals, the liquidity after a tick crossing
// and the tick do not depend on the mode flag, and each total is fed by the step results it stands for.
func clSwapLoopRules(c *rules.Ctx) {
	const K = "x/concentrated-liquidity.Keeper."
	const OI = K + "computeOutAmtGivenIn"
	const IO = K + "computeInAmtGivenOut"
	stepOI := "swapstrategy.SwapStrategy.ComputeSwapWithinBucketOutGivenIn(...)"
	stepIO := "swapstrategy.SwapStrategy.ComputeSwapWithinBucketInGivenOut(...)"
	// exact in: remaining −= amountIn + fee ; calculated += amountOut
	c.CallArg(OI, "sdkmath.LegacyDec.SubMut[0=each(_.amountSpecifiedRemaining)]", 1, "sdkmath.LegacyDec.Add("+stepOI+"#1, "+stepOI+"#3)", "exact-in step: the remaining input shrinks by amount in plus the step's spread charge")
	c.CallArg(OI, "sdkmath.LegacyDec.AddMut[0=each(_.amountCalculated)]", 1, stepOI+"#2", "exact-in step: the calculated output grows by the step's amount out")
	// exact out: remaining −= amountOut ; calculated += amountIn + fee
	c.CallArg(IO, "sdkmath.LegacyDec.SubMut[0=each(_.amountSpecifiedRemaining)]", 1, stepIO+"#1", "exact-out step: the remaining output shrinks by the step's amount out")
	c.CallArg(IO, "sdkmath.LegacyDec.AddMut[0=each(_.amountCalculated)]", 1, "sdkmath.LegacyDec.Add("+stepIO+"#2, "+stepIO+"#3)", "exact-out step: the calculated input grows by amount in plus the step's spread charge")
	for _, fn := range []string{OI, IO} {
		c.NotUnder(fn, "sdkmath.LegacyDec.SubMut[0=each(_.amountSpecifiedRemaining)]", "updateAccumulators", "the remaining amount is updated identically for estimates and executions")
		c.NotUnder(fn, "sdkmath.LegacyDec.AddMut[0=each(_.amountCalculated)]", "updateAccumulators", "the calculated amount is updated identically for estimates and executions")
		c.NotUnder(fn, "cl.Keeper.swapCrossTickLogic", "updateAccumulators", "ticks are crossed identically for estimates and executions")
	}
	const X = K + "swapCrossTickLogic"
	c.HasCall(X, "sdkmath.LegacyDec.AddMut", []string{"swapState.liquidity", "swapstrategy.SwapStrategy.SetLiquidityDeltaSign(swapState.swapStrategy, cl.ParseTickFromBz(cosmos-db.Iterator.Value(nextTickIter))#0.LiquidityNet)"}, true,
		"crossing a tick adds the tick's signed net liquidity to the swap state on every successful path (estimate and execution alike)", "liq")
	c.NotUnder(X, "sdkmath.LegacyDec.AddMut[0=swapState.liquidity]", "updateAccumulators", "the liquidity update does not depend on the mode flag")
	c.HasCall(X, "cosmos-db.Iterator.Next", []string{"nextTickIter"}, true, "the tick iterator advances on every successful crossing", "next")
	c.NotUnder(X, "cosmos-db.Iterator.Next", "updateAccumulators", "the iterator advance does not depend on the mode flag")
	c.Returns(X, 0, "with:tick(swapState, swapstrategy.SwapStrategy.UpdateTickAfterCrossing(strategy,nextInitializedTick)) | swapState", "the tick after a crossing is the strategy's tick for the crossed tick", "/tick")
	// the caller's spread factor reaches the loop unchanged
	c.CallArg(K+"SwapExactAmountIn", "cl.Keeper.swapOutAmtGivenIn", 6, "spreadFactor", "execution walks the curve with the spread factor it was given (the one the estimate and the hooks see)")
	c.CallArg(K+"SwapExactAmountOut", "cl.Keeper.swapInAmtGivenOut", 6, "spreadFactor", "execution walks the curve with the spread factor it was given")
	c.CallArg(K+"SwapExactAmountIn", "cl.Keeper.swapOutAmtGivenIn", 4, "tokenIn", "…for the caller's token in")
	c.CallArg(K+"SwapExactAmountIn", "cl.Keeper.swapOutAmtGivenIn", 5, "tokenOutDenom", "…and out denom")
	c.CallArg(K+"SwapExactAmountOut", "cl.Keeper.swapInAmtGivenOut", 4, "tokenOut", "…for the caller's token out")
	c.CallArg(K+"SwapExactAmountOut", "cl.Keeper.swapInAmtGivenOut", 5, "tokenInDenom", "…and in denom")
}

// clSwapSettleRules (C01, C03): the three transfers of a concentrated swap and the pool-state write.
func clSwapSettleRules(c *rules.Ctx) {
	const US = "x/concentrated-liquidity.Keeper.updatePoolForSwap"
	c.Let("FEE", "sdk.NewCoin(swapDetails.TokenIn.Denom, sdkmath.LegacyDec.TruncateInt(sdkmath.LegacyDec.Ceil(totalSpreadFactors)))")
	c.StoreField(US, "Amount", "sdkmath.Int.Sub(swapDetails.TokenIn.Amount, {FEE}.Amount)", "the amount sent to the pool is token-in less the (ceiled) spread fee")
	c.CheckedCallOpt(US, "cltypes.BankKeeper.SendCoins[3=cltypes.ConcentratedPoolExtension.GetSpreadRewardsAddress(_)]", []string{"k.bankKeeper", "ctx", "swapDetails.Sender", "_", "list({FEE})"}, "the spread fee (rounded up) goes from the trader to the spread-reward account", "/fee", false)
	c.ReachedWhenAny(US, "cltypes.BankKeeper.SendCoins[3=cltypes.ConcentratedPoolExtension.GetSpreadRewardsAddress(_)]", []string{"not(sdk.Coin.IsZero({FEE}))", "sdk.Coin.IsPositive({FEE})", "sdkmath.Int.IsPositive({FEE}.Amount)", "not(sdkmath.Int.IsZero({FEE}.Amount))"}, "every non-zero (rounded-up) spread fee is collected from the trader — it was already deducted from what the pool receives")
	c.CheckedCall(US, "cltypes.BankKeeper.SendCoins[2=swapDetails.Sender][3=cltypes.ConcentratedPoolExtension.GetAddress(_)]", nil, "token-in (less fee) goes from the trader to the pool account", "/in")
	c.CheckedCall(US, "cltypes.BankKeeper.SendCoins[2=cltypes.ConcentratedPoolExtension.GetAddress(_)]", []string{"k.bankKeeper", "ctx", "_", "swapDetails.Sender", "list(swapDetails.TokenOut)"}, "exactly token-out goes from the pool account to the trader", "/out")
	c.CheckedCall(US, "cltypes.ConcentratedPoolExtension.ApplySwap", []string{"_", "poolUpdates.NewLiquidity", "poolUpdates.NewCurrentTick", "poolUpdates.NewSqrtPrice"}, "the pool state of the computed swap is applied", "")
}

// clUptimePositionRules (C01, C08): a position's record in uptime accumulator i is (re-)based on the growth inside
// its range of the same uptime i.
func clUptimePositionRules(c *rules.Ctx) {
	const IU = "x/concentrated-liquidity.Keeper.initOrUpdatePositionUptimeAccumulators"
	c.Let("UACC", "elem(cl.Keeper.GetUptimeAccumulators(k,ctx,poolId)#0)")
	c.Let("UIN", "elem(cl.Keeper.GetUptimeGrowthInsideRange(k,ctx,poolId,lowerTick,upperTick)#0)")
	c.Let("UOUT", "elem(cl.Keeper.GetUptimeGrowthOutsideRange(k,ctx,poolId,lowerTick,upperTick)#0)")
	c.CallArg(IU, "accum.AccumulatorObject.NewPositionIntervalAccumulation", 0, "{UACC}", "a new position is recorded in each of the pool's uptime accumulators")
	c.CallArg(IU, "accum.AccumulatorObject.NewPositionIntervalAccumulation", 3, "{UIN}", "…with the growth inside its range of the same uptime")
	c.CallArg(IU, "accum.AccumulatorObject.NewPositionIntervalAccumulation", 2, "liquidity", "…for the position's liquidity")
	c.CallArg(IU, "accum.AccumulatorObject.UpdatePositionIntervalAccumulation", 0, "{UACC}", "an existing position is updated in each of the pool's uptime accumulators")
	c.CallArg(IU, "accum.AccumulatorObject.UpdatePositionIntervalAccumulation", 3, "{UIN}", "…against the growth inside its range of the same uptime (a checkpoint of another uptime lets rewards be claimed twice)")
	c.CallArg(IU, "accum.AccumulatorObject.UpdatePositionIntervalAccumulation", 2, "liquidityDelta", "…by the liquidity delta")
	c.CallArg(IU, "cl.updatePositionToInitValuePlusGrowthOutside", 0, "{UACC}", "the re-base to init value + growth outside uses the same accumulator")
	c.CallArg(IU, "cl.updatePositionToInitValuePlusGrowthOutside", 2, "{UOUT}", "…and the growth outside of the same uptime")
	for _, cal := range []string{"accum.AccumulatorObject.NewPositionIntervalAccumulation", "accum.AccumulatorObject.UpdatePositionIntervalAccumulation", "cl.updatePositionToInitValuePlusGrowthOutside"} {
		c.CallArg(IU, cal, 1, "cltypes.KeyPositionId(positionId)", "…under the position's own key")
	}
}

// gammSwapSettleRules (C02, C05): a classic-pool swap persists the pool and moves exactly token-in and token-out;
// a failed transfer fails the swap (and with it the whole route).
func gammSwapSettleRules(c *rules.Ctx) {
	const US = "x/gamm/keeper.Keeper.updatePoolForSwap"
	c.CheckedCall(US, "gammkeeper.Keeper.setPool", []string{"k", "ctx", "pool"}, "the updated pool record is persisted", "")
	c.CheckedCall(US, "gammtypes.BankKeeper.SendCoins", []string{"_", "ctx", "sender", "poolmanagertypes.PoolI.GetAddress(pool)", "list(tokenIn)"}, "exactly token-in moves from the trader to the pool account", "/in")
	c.CheckedCall(US, "gammtypes.BankKeeper.SendCoins", []string{"_", "ctx", "poolmanagertypes.PoolI.GetAddress(pool)", "sender", "list(tokenOut)"}, "exactly token-out moves from the pool account to the trader", "/out")
}

// gammStateChangeCheckedRules (C02, C04): every join / exit entry point fails when the state change (transfer,
// share mint/burn, pool write) fails — the pool model's result is never reported for a state change that did not happen.
func gammStateChangeCheckedRules(c *rules.Ctx) {
	const K = "x/gamm/keeper.Keeper."
	for _, fn := range []string{"JoinPoolNoSwap", "JoinSwapExactAmountIn", "JoinSwapShareAmountOut"} {
		c.CheckedCall(K+fn, "gammkeeper.Keeper.applyJoinPoolStateChange", nil, "a failed join state change fails the join", "")
	}
	for _, fn := range []string{"ExitPool", "ExitSwapExactAmountOut"} {
		c.CheckedCall(K+fn, "gammkeeper.Keeper.applyExitPoolStateChange", nil, "a failed exit state change fails the exit", "")
	}
	c.CheckedCall(K+"ExitSwapShareAmountIn", "gammkeeper.Keeper.ExitPool", nil, "single-asset exit by shares: a failed exit fails the message", "")
}

// twapKeyLayoutRules (C10): every builder of the historical (pool, denom pair, time) index and of the most-recent
// index produces the same component sequence, and each variable-length component (pool id, denom) is closed by the
// separator before the next one starts — so a range or prefix scan for one (pool, pair) never selects the records
// of a pair whose denom merely starts with the same characters.
func twapKeyLayoutRules(c *rules.Ctx) {
	const T = "x/twap/types."
	const H = "<@twaptypes.HistoricalTWAPPoolIndexPrefix><poolId>|<denom1>|<denom2>|"
	c.KeyLayout(T+"FormatHistoricalPoolIndexDenomPairTWAPKey", H, "pair prefix of the historical index: prefix, pool id, denom1, denom2, each closed by the separator")
	c.KeyLayout(T+"FormatHistoricalPoolIndexTimePrefix", H, "start key of a pair's time range: the same closed pair prefix")
	c.KeyLayout(T+"FormatHistoricalPoolIndexTWAPKeyFromStrTime", H+"<accumulatorWriteTimeString>", "record key: closed pair prefix followed by the time string")
	c.KeyLayout(T+"FormatHistoricalPoolIndexTimeSuffix", H+"<osmoutils.FormatTimeString(accumulatorWriteTime)>.", "end key of a time range: closed pair prefix, time string, '.'")
	c.KeyLayout(T+"FormatMostRecentTWAPKey", "<@twaptypes.mostRecentTWAPsPrefix><osmoutils.FormatFixedLengthU64(poolId)>|<denom1>|<denom2>", "most-recent key: fixed-width pool id and the two denoms, separated")
	c.Returns(T+"FormatHistoricalPoolIndexTWAPKey", 0, "twaptypes.FormatHistoricalPoolIndexTWAPKeyFromStrTime(poolId, denom1, denom2, osmoutils.FormatTimeString(accumulatorWriteTime))", "the time-typed builder delegates with the canonical time string", "")
	c.ConstValue("x/twap/types", "KeySeparator", "\"|\"")
}

// lockupGenesisAccumulationRules (C06, C11, C19): the accumulation rebuilt on genesis import sums every lock of one
// (denom, duration) — a second lock of the same key is added to the first, never dropped or overwriting it.
func lockupGenesisAccumulationRules(c *rules.Ctx) {
	const K = "x/lockup/keeper.Keeper."
	c.MapAccumulate(K+"InitializeAllLocks", "elem(elem(locks).Coins).Amount", 1, "import: locks sharing denom and duration are summed into one accumulation entry")
	c.MapAccumulate(K+"InitializeAllSyntheticLocks", "lockuptypes.PeriodLock.SingleCoin(lockupkeeper.Keeper.GetLockByID(k,ctx,elem(syntheticLocks).UnderlyingLockId)#0)#0.Amount", 1, "import: synthetic locks sharing synthetic denom and duration are summed into one accumulation entry")
	c.CallArg(K+"InitializeAllLocks", "lockupkeeper.Keeper.writeDurationValuesToAccumTree", 2, "elem(phi(list(),append(#self,list(elem(elem(locks).Coins).Denom))))", "each collected denom's entries are written to that denom's accumulation store")
	c.CallArg(K+"InitializeAllLocks", "lockupkeeper.Keeper.writeDurationValuesToAccumTree", 3, "lookup(_, elem(phi(list(),append(#self,list(elem(elem(locks).Coins).Denom)))))", "…from the map collected for that same denom")
}

// poolmanagerQueryRules (C05, round 6): the Estimate* queries — the place the property is observed through — hand the
// request's routes and coin to the taker-fee-including estimator of the matching direction and report its result.
func poolmanagerQueryRules(c *rules.Ctx) {
	const Q = "x/poolmanager/client.Querier."
	const EI = "poolmanager.Keeper.MultihopEstimateOutGivenExactAmountIn"
	const EO = "poolmanager.Keeper.MultihopEstimateInGivenExactAmountOut"
	type q struct{ fn, est, routes, coin, field string }
	for _, v := range []q{
		{"EstimateSwapExactAmountIn", EI, "req.Routes", "sdk.ParseCoinNormalized(req.TokenIn)#0", "TokenOutAmount"},
		{"EstimateSwapExactAmountInWithPrimitiveTypes", EI, "phi(nil,append(#self,list(with:TokenOutDenom(with:PoolId(zero:SwapAmountInRoute(),elem(req.RoutesPoolId)),elem(req.RoutesTokenOutDenom)))))", "sdk.ParseCoinNormalized(req.TokenIn)#0", "TokenOutAmount"},
		{"EstimateSwapExactAmountOut", EO, "req.Routes", "sdk.ParseCoinNormalized(req.TokenOut)#0", "TokenInAmount"},
		{"EstimateSwapExactAmountOutWithPrimitiveTypes", EO, "phi(nil,append(#self,list(with:TokenInDenom(with:PoolId(zero:SwapAmountOutRoute(),elem(req.RoutesPoolId)),elem(req.RoutesTokenInDenom)))))", "sdk.ParseCoinNormalized(req.TokenOut)#0", "TokenInAmount"},
	} {
		c.CallArg(Q+v.fn, v.est, 2, v.routes, "the estimate runs over the routes of the request (every (pool id, denom) pair, in order)")
		c.CallArg(Q+v.fn, v.est, 3, v.coin, "…for the request's coin")
		c.Returns(Q+v.fn, 0, "has(with:"+v.field+"(_, "+v.est+"(...)#0)) | nil", "the response carries the estimator's amount", "")
	}
	c.CallArg("x/poolmanager.Keeper.MultihopEstimateOutGivenExactAmountIn", "poolmanager.Keeper.multihopEstimateOutGivenExactAmountInInternal", 4, "true", "the public exact-in estimator deducts the taker fee, as the execution does")
	c.CallArg("x/poolmanager.Keeper.MultihopEstimateOutGivenExactAmountInNoTakerFee", "poolmanager.Keeper.multihopEstimateOutGivenExactAmountInInternal", 4, "false", "only the explicitly fee-less variant skips it")
	c.WhoMayCall("x/poolmanager.Keeper.MultihopEstimateOutGivenExactAmountInNoTakerFee", []string{"poolmanagerclient.Querier.EstimateTradeBasedOnPriceImpact", "protorevkeeper.Keeper.EstimateMultihopProfit", "protorevkeeper.Keeper.FindMaxProfitForRoute"}, "the fee-less estimator is not used by the swap-estimate queries")
}

// twapQueryRules (C10, round 6): the queries hand the request's interval to the keeper, and the two-denom record
// lookup used by the end-block update orders the denoms like the writer of the most-recent index.
func twapQueryRules(c *rules.Ctx) {
	const Q = "x/twap/client.Querier."
	for _, v := range [][2]string{{"ArithmeticTwap", "twap.Keeper.GetArithmeticTwap"}, {"GeometricTwap", "twap.Keeper.GetGeometricTwap"}} {
		c.CallArg(Q+v[0], v[1], 6, "phi(req.EndTime, addr:complit()) | req.EndTime", "the end of the interval is the request's end time (block time only when none was given)")
		c.CallArg(Q+v[0], v[1], 5, "req.StartTime", "the start of the interval is the request's")
		c.CallArg(Q+v[0], v[1], 2, "req.PoolId", "for the requested pool")
		c.CallArg(Q+v[0], v[1], 3, "req.BaseAsset", "base asset as requested")
		c.CallArg(Q+v[0], v[1], 4, "req.QuoteAsset", "quote asset as requested")
	}
	for _, v := range [][2]string{{"ArithmeticTwapToNow", "twap.Keeper.GetArithmeticTwapToNow"}, {"GeometricTwapToNow", "twap.Keeper.GetGeometricTwapToNow"}} {
		c.CallArg(Q+v[0], v[1], 5, "req.StartTime", "to-now queries start at the request's start time")
		c.CallArg(Q+v[0], v[1], 3, "req.BaseAsset", "base asset as requested")
		c.CallArg(Q+v[0], v[1], 4, "req.QuoteAsset", "quote asset as requested")
	}
	const GA = "x/twap.Keeper.GetAllMostRecentRecordsForPoolWithDenoms"
	c.Let("ORD", "twaptypes.LexicographicalOrderDenoms(idx(denoms,0),idx(denoms,1))")
	c.CallArg(GA, "twaptypes.GetMostRecentTwapForPool", 2, "{ORD}#0", "the direct lookup of a two-asset pool's record uses the denoms in the canonical (sorted) order the record was stored under")
	c.CallArg(GA, "twaptypes.GetMostRecentTwapForPool", 3, "{ORD}#1", "…both of them")
	c.CallArg(GA, "twaptypes.GetMostRecentTwapForPool", 1, "poolId", "…of the requested pool")
}

// lockupKeyRules (C06, round 6): the duration component of every reference key is the full-resolution duration.
func lockupKeyRules(c *rules.Ctx) {
	c.Returns("x/lockup/keeper.getDurationKey", 0, "lockupkeeper.combineKeys(@lockuptypes.KeyPrefixDuration, sdk.Uint64ToBigEndian(phi(duration,0)))", "the duration key encodes the duration itself in nanoseconds (negative clamped to 0) — no coarser unit, so distinct durations never share index entries", "")
}

// clScalingMigrationRules (C01, C08, C15; round 6): the one-off migrations multiply the accumulator value, every
// position snapshot and every tick tracker by the same per-unit-of-liquidity factor, and persist the objects they scaled.
func clScalingMigrationRules(c *rules.Ctx) {
	const K = "x/concentrated-liquidity.Keeper."
	for _, fn := range []string{"MigrateSpreadFactorAccumulatorToScalingFactor", "MigrateIncentivesAccumulatorToScalingFactor"} {
		c.CallArgN(K+fn, "sdk.DecCoins.MulDecTruncate", 1, "@cl.perUnitLiqScalingFactor", "accumulator value, position snapshots and tick trackers are all scaled by the same per-unit-of-liquidity factor", 3, "")
		c.CallArg(K+fn, "accum.AccumulatorObject.SetPositionIntervalAccumulation", 2, "sdk.DecCoins.MulDecTruncate(accum.AccumulatorObject.GetPosition(...)#0.AccumValuePerShare, @cl.perUnitLiqScalingFactor)", "a position's snapshot becomes its old snapshot × the factor (a late joiner keeps owning only later growth)")
		c.CallArg(K+fn, "accum.OverwriteAccumulatorUnsafe", 2, "sdk.DecCoins.MulDecTruncate(accum.AccumulatorObject.GetValue(_), @cl.perUnitLiqScalingFactor)", "the accumulator value becomes its old value × the factor")
	}
	c.StoredObjectIsPassed(K+"MigrateSpreadFactorAccumulatorToScalingFactor", "SpreadRewardGrowthOppositeDirectionOfLastTraversal", "cl.Keeper.SetTickInfo", 4, "the tick info written back is the one whose spread-reward tracker was scaled")
}

// cfmmUsedAmountRules (C02, C04): the amount an exact-ratio join uses of each non-limiting asset is rounded UP — the
// same rounding the keeper applies to the amounts it transfers, so the pool records what it receives.
func cfmmUsedAmountRules(c *rules.Ctx) {
	c.HasCall("x/gamm/pool-models/internal/cfmm_common.MaximalExactRatioJoin", "sdkmath.Int.Sub", []string{"elem(tokensIn).Amount", "sdkmath.LegacyDec.TruncateInt(sdkmath.LegacyDec.Ceil(_))"}, false, "proportional join: the amount used of each coin is ceiled (the remainder returned is rounded down)", "")
}

// balancerShareBookRules (C02, round 6): the pool record's share total follows every exit / join of the model.
func balancerShareBookRules(c *rules.Ctx) {
	const B = "x/gamm/pool-models/balancer.Pool."
	c.MustStore(B+"exitPool", "TotalShares", "sdk.NewCoin(p.TotalShares.Denom, sdkmath.Int.Sub(balancer.Pool.GetTotalShares(p), exitingShares))", "every successful exit lowers the recorded share total by the exiting shares (also when the payout truncates to nothing — the keeper burns the shares regardless)")
	c.CheckedCall(B+"exitPool", "balancer.Pool.UpdatePoolAssetBalances", []string{"p", "sdk.Coins.Sub(balancer.Pool.GetTotalPoolLiquidity(p,ctx), exitingCoins)"}, "…and the recorded reserves by the exiting coins", "")
	c.CheckedCall(B+"ExitPool", "balancer.Pool.exitPool", []string{"p", "ctx", "_", "exitingShares"}, "ExitPool books the exit it calculated", "")
}

// clCrossTickRules (C01, C07, C08; round 6): whenever accumulators are being updated, crossing a tick flips that
// tick's trackers — whatever the tick's net liquidity (a tick shared by two equal positions has net 0 and gross > 0).
func clCrossTickRules(c *rules.Ctx) {
	const X = "x/concentrated-liquidity.Keeper.swapCrossTickLogic"
	c.ReachedWhen(X, "cl.Keeper.crossTick", "updateAccumulators", "the trackers of every crossed tick are flipped when accumulators are being updated (no shortcut on the tick's net liquidity)")
	c.ReachedWhen(X, "cl.Keeper.updateGivenPoolUptimeAccumulatorsToNow", "updateAccumulators", "…after the uptime accumulators were brought up to now")
}

// clPoolWriteRules (C03; round 6): the pool record takes over exactly the state the swap computed.
func clPoolWriteRules(c *rules.Ctx) {
	const A = "x/concentrated-liquidity/model.Pool.ApplySwap"
	c.StoreField(A, "CurrentSqrtPrice", "newCurrentSqrtPrice", "the stored sqrt price is the computed one at full (36-decimal) precision")
	c.StoreField(A, "CurrentTick", "newCurrentTick", "the stored tick is the computed one")
	c.StoreField(A, "CurrentTickLiquidity", "newLiquidity", "the stored liquidity is the computed one")
	for _, fv := range [][2]string{{"CurrentSqrtPrice", "newCurrentSqrtPrice"}, {"CurrentTick", "newCurrentTick"}, {"CurrentTickLiquidity", "newLiquidity"}} {
		c.MustStore(A, fv[0], fv[1], "price, tick and liquidity are replaced together on every successful swap (no 'nothing changed' shortcut: a swap inside one bucket moves price and tick with the liquidity unchanged)")
	}
}

// spotPriceRules (C13, C14; round 6): the spot-price entry points chop to the 18-decimal grid before rounding to
// significant figures, and bound the result by the 18-decimal spot-price range.
func spotPriceRules(c *rules.Ctx) {
	const G = "x/gamm/keeper.Keeper.CalculateSpotPrice"
	c.CallArg(G, "osmomath.BigDec.ChopPrecisionMut", 1, "18", "the raw spot price is chopped to 18 decimals (the Dec grid), not to the significant-figure exponent")
	c.CallArg(G, "osmomath.SigFigRound", 1, "@gammtypes.SpotPriceSigFigs", "…and then rounded to the spot-price significant figures")
	const K = "x/concentrated-liquidity.Keeper.CalculateSpotPrice"
	c.Let("CLSP", "cltypes.ConcentratedPoolExtension.SpotPrice(cl.Keeper.getPoolById(k,ctx,poolId)#0,ctx,quoteAssetDenom,baseAssetDenom)#0")
	c.FailsWhen(K, "lt({CLSP}, @cltypes.MinSpotPriceBigDec)", "a spot price below the 18-decimal minimum (10^-12) is an error, also when the pool itself supports lower prices", rules.GuardOpt{})
	c.FailsWhen(K, "gt({CLSP}, @cltypes.MaxSpotPriceBigDec)", "a spot price above the maximum is an error", rules.GuardOpt{})
	c.BranchOn(K, "lt({CLSP}, @cltypes.MinSpotPriceBigDec)", []string{"lt({CLSP}, @cltypes.MinSpotPriceV2)", "le({CLSP}, @cltypes.MinSpotPriceV2)"}, "the lower bound compared is the 18-decimal minimum")
}

// epochsHookContainmentRules (C17, C18; round 6): inside the panic-catching wrapper the subscriber receives the
// wrapper's cache context — a failing mint epoch is rolled back as a whole.
func epochsHookContainmentRules(c *rules.Ctx) {
	const PC = "x/epochs/types.panicCatchingEpochHook"
	c.HasCall(PC, "osmoutils.ApplyFuncIfNoError", []string{"ctx", "closure:epochstypes.panicCatchingEpochHook$1(hookFn,epochIdentifier,epochNumber)"}, true, "each subscriber call is wrapped by the cache-context helper", "")
	c.ApplyFuncClosures("x/epochs/types", 1, "inside the wrapper the subscriber receives the wrapper's (cache) context, not a captured one")
}

// round-7 additions ------------------------------------------------------------------------------------------------

// clOvershootBeforeTickRules (C03, C07): in both swap loops the tick is recomputed from the price only after the
// overshoot test rejected the step — a price beyond the next initialised tick never sets the tick without crossing.
func clOvershootBeforeTickRules(c *rules.Ctx) {
	const K = "x/concentrated-liquidity.Keeper."
	for _, l := range [][2]string{{"computeOutAmtGivenIn", "ComputeSwapWithinBucketOutGivenIn"}, {"computeInAmtGivenOut", "ComputeSwapWithinBucketInGivenOut"}} {
		step := "swapstrategy.SwapStrategy." + l[1] + "(...)"
		c.OnlyWhen(K+l[0], "clmath.CalculateSqrtPriceToTick", "not(cl.edgeCaseInequalityBasedOnSwapStrategy(swapstrategy.SwapStrategy.ZeroForOne(_), _, "+step+"#0))", "the tick is derived from the computed price only when that price did not overshoot the next initialised tick")
		c.CallArg(K+l[0], "clmath.CalculateSqrtPriceToTick", 0, step+"#0", "…and from the step's computed price")
	}
	const PH = K + "PoolHasPosition"
	c.BranchOn(PH, "osmomath.BigDec.IsZero(cltypes.ConcentratedPoolExtension.GetCurrentSqrtPrice(pool))", nil, "a pool counts as uninitialised by its price (zero sqrt price and tick 0), not by its active liquidity")
	c.NoCall(PH, "cltypes.ConcentratedPoolExtension.GetLiquidity", "active liquidity (zero whenever the price is outside every range) does not decide whether positions exist")
}

// lockupForceUnlockRules (C06, C11): force-unlock removes the synthetic lock of any lock that has one — unlocking or not.
func lockupForceUnlockRules(c *rules.Ctx) {
	const F = "x/lockup/keeper.Keeper.ForceUnlock"
	c.NotUnder(F, "lockupkeeper.Keeper.DeleteSyntheticLockup", "lockuptypes.PeriodLock.IsUnlocking(lock)", "the synthetic lock is deleted whether or not the underlying lock is already unlocking")
	c.ReachedWhen(F, "lockupkeeper.Keeper.DeleteSyntheticLockup", "not(lockuptypes.SyntheticLock.IsNil(lockupkeeper.Keeper.GetSyntheticLockupByUnderlyingLockId(k,ctx,lock.ID)#0))", "every existing synthetic lock of the force-unlocked lock is deleted")
	c.CallArg("x/lockup/keeper.accumulationKey", "binary.bigEndian.PutUint64", 2, "duration", "the accumulation key encodes the duration in nanoseconds (durations in the same second keep separate leaves)")
}

// poolModuleCacheRules (C19, C05; round 7): side conditions of the pool-module cache — a hit costs exactly the gas of
// the read it replaces, the cache is filled only in finalize mode and invalidated whenever a route is (re)written, so
// a pool id reused after a reverted creation is never routed to the previous module.
func poolModuleCacheRules(c *rules.Ctx) {
	const PM = "x/poolmanager.Keeper."
	c.Let("CV", "assert:poolModuleCacheValue(sync.Map.Load(k.cachedPoolModules,poolId)#0)#0")
	for _, fn := range []string{"GetPoolType", "GetPoolModule"} {
		c.HasCall(PM+fn, "osmoutils.ChargeMockReadGas|poolmanager.Keeper.getPoolRouteRaw|osmoutils.TrackGasUsedInGet", nil, true, "every successful lookup either reads the route from the store or charges the recorded gas of that read (a node with a warm cache and one with a cold cache consume the same gas)", "gas")
		c.CallArg(PM+fn, "osmoutils.ChargeMockReadGas", 1, "{CV}.gasFlat", "the gas charged on a hit is the recorded flat cost")
		c.CallArg(PM+fn, "osmoutils.ChargeMockReadGas", 2, "{CV}.gasKey", "…the recorded key cost")
		c.CallArg(PM+fn, "osmoutils.ChargeMockReadGas", 3, "{CV}.gasValue", "…and the recorded value cost")
	}
	c.CallArgN("osmoutils.ChargeMockReadGas", "storetypes.GasMeter.ConsumeGas", 1, "gasFlat | gasKey | gasVal", "the mock read charges the three recorded amounts unmodified (no second per-byte scaling)", 3, "")
	for _, g := range []string{"gasFlat", "gasKey", "gasVal"} {
		c.HasCall("osmoutils.ChargeMockReadGas", "storetypes.GasMeter.ConsumeGas", []string{"_", g}, true, "each recorded amount is charged", g)
	}
	c.Let("TRK", "osmoutils.TrackGasUsedInGet(sdk.Context.KVStore(ctx,k.storeKey),poolmanagertypes.FormatModuleRouteKey(poolId),_)")
	c.StoreField(PM+"GetPoolModule", "gasFlat", "{TRK}#1", "the cache records the flat gas of the store read it replaces")
	c.StoreField(PM+"GetPoolModule", "gasKey", "{TRK}#2", "…its key gas")
	c.StoreField(PM+"GetPoolModule", "gasValue", "{TRK}#3", "…and its value gas")
	c.OnlyWhen(PM+"GetPoolModule", "sync.Map.Store", "eq(sdk.Context.ExecMode(ctx),7)", "the cache is filled only while finalising a block")
	c.HasCall(PM+"SetPoolRoute", "sync.Map.Delete", []string{"k.cachedPoolModules", "poolId"}, true, "rewriting a route invalidates its cache entry", "")
	c.WhoMayCall("x/poolmanager/types.FormatModuleRouteKey", []string{"poolmanager.Keeper.getPoolRouteRaw", "poolmanager.Keeper.SetPoolRoute", "poolmanager.Keeper.GetPoolModule"}, "the route key is touched only by the cached reader, the raw reader and the invalidating writer")
}

// takerFeeArithmeticRules (C02, C05): the two taker-fee formulas.
func takerFeeArithmeticRules(c *rules.Ctx) {
	const PM = "x/poolmanager."
	c.Returns(PM+"CalcTakerFeeExactIn", 1, "with:Amount(_, sdkmath.Int.Sub(tokenIn.Amount, sdkmath.LegacyDec.TruncateInt(_)))", "exact-in: fee = amount paid − amount after fee (exact difference)", "/fee")
	c.Returns(PM+"CalcTakerFeeExactIn", 0, "with:Amount(_, sdkmath.LegacyDec.TruncateInt(sdkmath.LegacyDec.MulIntMut(sdkmath.LegacyDec.SubMut(sdkmath.LegacyOneDec(), takerFee), tokenIn.Amount)))", "exact-in: amount after fee = trunc((1 − fee) × amount)", "/after")
	c.Returns(PM+"CalcTakerFeeExactOut", 1, "with:Amount(_, sdkmath.Int.Sub(sdkmath.LegacyDec.TruncateInt(sdkmath.LegacyDec.Ceil(_)), tokenIn.Amount))", "exact-out: fee = amount charged − pool amount (exact difference)", "/fee")
	c.Returns(PM+"CalcTakerFeeExactOut", 0, "with:Amount(_, sdkmath.LegacyDec.TruncateInt(sdkmath.LegacyDec.Ceil(sdkmath.LegacyDec.Quo(sdkmath.Int.ToLegacyDec(tokenIn.Amount), sdkmath.LegacyDec.SubMut(sdkmath.LegacyOneDec(), takerFee)))))", "exact-out: amount charged = ceil(pool amount / (1 − fee))", "/after")
	c.SameSubterm(PM+"CalcTakerFeeExactIn", "the fee is computed from the same after-fee amount that is returned")
}
