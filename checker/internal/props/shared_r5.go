package props

import "osmolint/internal/rules"

// Rules added after mutation round 5 (changes in supporting code around the anchored functions). They are shared
// between the properties whose behaviour depends on the same construct.

// clSwapLoopRules (C03, C05): the per-step transition of the concentrated swap loops is the same on the estimate
// path (updateAccumulators=false) and the execution path: the running totals, the liquidity after a tick crossing
// and the tick do not depend on the mode flag, and each total is fed by the step results it stands for.
func clSwapLoopRules(c *rules.Ctx) {
	const K = "x/concentrated-liquidity.Keeper."
	const OI = K + "computeOutAmtGivenIn"
	const IO = K + "computeInAmtGivenOut"
	stepOI := "swapstrategy.SwapStrategy.ComputeSwapWithinBucketOutGivenIn(...)"
	stepIO := "swapstrategy.SwapStrategy.ComputeSwapWithinBucketInGivenOut(...)"
	// exact in: remaining −= amountIn + fee ; calculated += amountOut
	c.CallArg(OI, "sdkmath.LegacyDec.SubMut[0=each(_.amountSpecifiedRemaining)]", 1, "sdkmath.LegacyDec.Add("+stepOI+"#1, "+stepOI+"#3)", "exact-in step: the remaining input shrinks by amount in plus the step's spread charge")
	c.CallArg(OI, "sdkmath.LegacyDec.AddMut[0=each(_.amountCalculated)]", 1, stepOI+"#2", "exact-in step: the calculated output grows by the step's amount out")
	// exact out: remaining −= amountOut ; calculated += amountIn + fee
	c.CallArg(IO, "sdkmath.LegacyDec.SubMut[0=each(_.amountSpecifiedRemaining)]", 1, stepIO+"#1", "exact-out step: the remaining output shrinks by the step's amount out")
	c.CallArg(IO, "sdkmath.LegacyDec.AddMut[0=each(_.amountCalculated)]", 1, "sdkmath.LegacyDec.Add("+stepIO+"#2, "+stepIO+"#3)", "exact-out step: the calculated input grows by amount in plus the step's spread charge")
	for _, fn := range []string{OI, IO} {
		c.NotUnder(fn, "sdkmath.LegacyDec.SubMut[0=each(_.amountSpecifiedRemaining)]", "updateAccumulators", "the remaining amount is updated identically for estimates and executions")
		c.NotUnder(fn, "sdkmath.LegacyDec.AddMut[0=each(_.amountCalculated)]", "updateAccumulators", "the calculated amount is updated identically for estimates and executions")
		c.NotUnder(fn, "cl.Keeper.swapCrossTickLogic", "updateAccumulators", "ticks are crossed identically for estimates and executions")
	}
	const X = K + "swapCrossTickLogic"
	c.HasCall(X, "sdkmath.LegacyDec.AddMut", []string{"swapState.liquidity", "swapstrategy.SwapStrategy.SetLiquidityDeltaSign(swapState.swapStrategy, cl.ParseTickFromBz(cosmos-db.Iterator.Value(nextTickIter))#0.LiquidityNet)"}, true,
		"crossing a tick adds the tick's signed net liquidity to the swap state on every successful path (estimate and execution alike)", "liq")
	c.NotUnder(X, "sdkmath.LegacyDec.AddMut[0=swapState.liquidity]", "updateAccumulators", "the liquidity update does not depend on the mode flag")
	c.HasCall(X, "cosmos-db.Iterator.Next", []string{"nextTickIter"}, true, "the tick iterator advances on every successful crossing", "next")
	c.NotUnder(X, "cosmos-db.Iterator.Next", "updateAccumulators", "the iterator advance does not depend on the mode flag")
	c.Returns(X, 0, "with:tick(swapState, swapstrategy.SwapStrategy.UpdateTickAfterCrossing(strategy,nextInitializedTick)) | swapState", "the tick after a crossing is the strategy's tick for the crossed tick", "/tick")
	// the caller's spread factor reaches the loop unchanged
	c.CallArg(K+"SwapExactAmountIn", "cl.Keeper.swapOutAmtGivenIn", 6, "spreadFactor", "execution walks the curve with the spread factor it was given (the one the estimate and the hooks see)")
	c.CallArg(K+"SwapExactAmountOut", "cl.Keeper.swapInAmtGivenOut", 6, "spreadFactor", "execution walks the curve with the spread factor it was given")
	c.CallArg(K+"SwapExactAmountIn", "cl.Keeper.swapOutAmtGivenIn", 4, "tokenIn", "…for the caller's token in")
	c.CallArg(K+"SwapExactAmountIn", "cl.Keeper.swapOutAmtGivenIn", 5, "tokenOutDenom", "…and out denom")
	c.CallArg(K+"SwapExactAmountOut", "cl.Keeper.swapInAmtGivenOut", 4, "tokenOut", "…for the caller's token out")
	c.CallArg(K+"SwapExactAmountOut", "cl.Keeper.swapInAmtGivenOut", 5, "tokenInDenom", "…and in denom")
}

// clSwapSettleRules (C01, C03): the three transfers of a concentrated swap and the pool-state write.
func clSwapSettleRules(c *rules.Ctx) {
	const US = "x/concentrated-liquidity.Keeper.updatePoolForSwap"
	c.Let("FEE", "sdk.NewCoin(swapDetails.TokenIn.Denom, sdkmath.LegacyDec.TruncateInt(sdkmath.LegacyDec.Ceil(totalSpreadFactors)))")
	c.StoreField(US, "Amount", "sdkmath.Int.Sub(swapDetails.TokenIn.Amount, {FEE}.Amount)", "the amount sent to the pool is token-in less the (ceiled) spread fee")
	c.CheckedCallOpt(US, "cltypes.BankKeeper.SendCoins[3=cltypes.ConcentratedPoolExtension.GetSpreadRewardsAddress(_)]", []string{"k.bankKeeper", "ctx", "swapDetails.Sender", "_", "list({FEE})"}, "the spread fee (rounded up) goes from the trader to the spread-reward account", "/fee", false)
	c.CheckedCall(US, "cltypes.BankKeeper.SendCoins[2=swapDetails.Sender][3=cltypes.ConcentratedPoolExtension.GetAddress(_)]", nil, "token-in (less fee) goes from the trader to the pool account", "/in")
	c.CheckedCall(US, "cltypes.BankKeeper.SendCoins[2=cltypes.ConcentratedPoolExtension.GetAddress(_)]", []string{"k.bankKeeper", "ctx", "_", "swapDetails.Sender", "list(swapDetails.TokenOut)"}, "exactly token-out goes from the pool account to the trader", "/out")
	c.CheckedCall(US, "cltypes.ConcentratedPoolExtension.ApplySwap", []string{"_", "poolUpdates.NewLiquidity", "poolUpdates.NewCurrentTick", "poolUpdates.NewSqrtPrice"}, "the pool state of the computed swap is applied", "")
}

// clUptimePositionRules (C01, C08): a position's record in uptime accumulator i is (re-)based on the growth inside
// its range of the same uptime i.
func clUptimePositionRules(c *rules.Ctx) {
	const IU = "x/concentrated-liquidity.Keeper.initOrUpdatePositionUptimeAccumulators"
	c.Let("UACC", "elem(cl.Keeper.GetUptimeAccumulators(k,ctx,poolId)#0)")
	c.Let("UIN", "elem(cl.Keeper.GetUptimeGrowthInsideRange(k,ctx,poolId,lowerTick,upperTick)#0)")
	c.Let("UOUT", "elem(cl.Keeper.GetUptimeGrowthOutsideRange(k,ctx,poolId,lowerTick,upperTick)#0)")
	c.CallArg(IU, "accum.AccumulatorObject.NewPositionIntervalAccumulation", 0, "{UACC}", "a new position is recorded in each of the pool's uptime accumulators")
	c.CallArg(IU, "accum.AccumulatorObject.NewPositionIntervalAccumulation", 3, "{UIN}", "…with the growth inside its range of the same uptime")
	c.CallArg(IU, "accum.AccumulatorObject.NewPositionIntervalAccumulation", 2, "liquidity", "…for the position's liquidity")
	c.CallArg(IU, "accum.AccumulatorObject.UpdatePositionIntervalAccumulation", 0, "{UACC}", "an existing position is updated in each of the pool's uptime accumulators")
	c.CallArg(IU, "accum.AccumulatorObject.UpdatePositionIntervalAccumulation", 3, "{UIN}", "…against the growth inside its range of the same uptime (a checkpoint of another uptime lets rewards be claimed twice)")
	c.CallArg(IU, "accum.AccumulatorObject.UpdatePositionIntervalAccumulation", 2, "liquidityDelta", "…by the liquidity delta")
	c.CallArg(IU, "cl.updatePositionToInitValuePlusGrowthOutside", 0, "{UACC}", "the re-base to init value + growth outside uses the same accumulator")
	c.CallArg(IU, "cl.updatePositionToInitValuePlusGrowthOutside", 2, "{UOUT}", "…and the growth outside of the same uptime")
	for _, cal := range []string{"accum.AccumulatorObject.NewPositionIntervalAccumulation", "accum.AccumulatorObject.UpdatePositionIntervalAccumulation", "cl.updatePositionToInitValuePlusGrowthOutside"} {
		c.CallArg(IU, cal, 1, "cltypes.KeyPositionId(positionId)", "…under the position's own key")
	}
}

// gammSwapSettleRules (C02, C05): a classic-pool swap persists the pool and moves exactly token-in and token-out;
// a failed transfer fails the swap (and with it the whole route).
func gammSwapSettleRules(c *rules.Ctx) {
	const US = "x/gamm/keeper.Keeper.updatePoolForSwap"
	c.CheckedCall(US, "gammkeeper.Keeper.setPool", []string{"k", "ctx", "pool"}, "the updated pool record is persisted", "")
	c.CheckedCall(US, "gammtypes.BankKeeper.SendCoins", []string{"_", "ctx", "sender", "poolmanagertypes.PoolI.GetAddress(pool)", "list(tokenIn)"}, "exactly token-in moves from the trader to the pool account", "/in")
	c.CheckedCall(US, "gammtypes.BankKeeper.SendCoins", []string{"_", "ctx", "poolmanagertypes.PoolI.GetAddress(pool)", "sender", "list(tokenOut)"}, "exactly token-out moves from the pool account to the trader", "/out")
}

// gammStateChangeCheckedRules (C02, C04): every join / exit entry point fails when the state change (transfer,
// share mint/burn, pool write) fails — the pool model's result is never reported for a state change that did not happen.
func gammStateChangeCheckedRules(c *rules.Ctx) {
	const K = "x/gamm/keeper.Keeper."
	for _, fn := range []string{"JoinPoolNoSwap", "JoinSwapExactAmountIn", "JoinSwapShareAmountOut"} {
		c.CheckedCall(K+fn, "gammkeeper.Keeper.applyJoinPoolStateChange", nil, "a failed join state change fails the join", "")
	}
	for _, fn := range []string{"ExitPool", "ExitSwapExactAmountOut"} {
		c.CheckedCall(K+fn, "gammkeeper.Keeper.applyExitPoolStateChange", nil, "a failed exit state change fails the exit", "")
	}
	c.CheckedCall(K+"ExitSwapShareAmountIn", "gammkeeper.Keeper.ExitPool", nil, "single-asset exit by shares: a failed exit fails the message", "")
}

// twapKeyLayoutRules (C10): every builder of the historical (pool, denom pair, time) index and of the most-recent
// index produces the same component sequence, and each variable-length component (pool id, denom) is closed by the
// separator before the next one starts — so a range or prefix scan for one (pool, pair) never selects the records
// of a pair whose denom merely starts with the same characters.
func twapKeyLayoutRules(c *rules.Ctx) {
	const T = "x/twap/types."
	const H = "<@twaptypes.HistoricalTWAPPoolIndexPrefix><poolId>|<denom1>|<denom2>|"
	c.KeyLayout(T+"FormatHistoricalPoolIndexDenomPairTWAPKey", H, "pair prefix of the historical index: prefix, pool id, denom1, denom2, each closed by the separator")
	c.KeyLayout(T+"FormatHistoricalPoolIndexTimePrefix", H, "start key of a pair's time range: the same closed pair prefix")
	c.KeyLayout(T+"FormatHistoricalPoolIndexTWAPKeyFromStrTime", H+"<accumulatorWriteTimeString>", "record key: closed pair prefix followed by the time string")
	c.KeyLayout(T+"FormatHistoricalPoolIndexTimeSuffix", H+"<osmoutils.FormatTimeString(accumulatorWriteTime)>.", "end key of a time range: closed pair prefix, time string, '.'")
	c.KeyLayout(T+"FormatMostRecentTWAPKey", "<@twaptypes.mostRecentTWAPsPrefix><osmoutils.FormatFixedLengthU64(poolId)>|<denom1>|<denom2>", "most-recent key: fixed-width pool id and the two denoms, separated")
	c.Returns(T+"FormatHistoricalPoolIndexTWAPKey", 0, "twaptypes.FormatHistoricalPoolIndexTWAPKeyFromStrTime(poolId, denom1, denom2, osmoutils.FormatTimeString(accumulatorWriteTime))", "the time-typed builder delegates with the canonical time string", "")
	c.ConstValue("x/twap/types", "KeySeparator", "\"|\"")
}

// lockupGenesisAccumulationRules (C06, C11, C19): the accumulation rebuilt on genesis import sums every lock of one
// (denom, duration) — a second lock of the same key is added to the first, never dropped or overwriting it.
func lockupGenesisAccumulationRules(c *rules.Ctx) {
	const K = "x/lockup/keeper.Keeper."
	c.MapAccumulate(K+"InitializeAllLocks", "elem(elem(locks).Coins).Amount", 1, "import: locks sharing denom and duration are summed into one accumulation entry")
	c.MapAccumulate(K+"InitializeAllSyntheticLocks", "lockuptypes.PeriodLock.SingleCoin(lockupkeeper.Keeper.GetLockByID(k,ctx,elem(syntheticLocks).UnderlyingLockId)#0)#0.Amount", 1, "import: synthetic locks sharing synthetic denom and duration are summed into one accumulation entry")
	c.CallArg(K+"InitializeAllLocks", "lockupkeeper.Keeper.writeDurationValuesToAccumTree", 2, "elem(phi(list(),append(#self,list(elem(elem(locks).Coins).Denom))))", "each collected denom's entries are written to that denom's accumulation store")
	c.CallArg(K+"InitializeAllLocks", "lockupkeeper.Keeper.writeDurationValuesToAccumTree", 3, "lookup(_, elem(phi(list(),append(#self,list(elem(elem(locks).Coins).Denom)))))", "…from the map collected for that same denom")
}
