package props

import "osmolint/internal/rules"

func init() {
	register(&Prop{
		ID: "C04",
		Explanation: "Balancer / stableswap math never gives value away, structural clauses: at the pool boundary the amount paid out is truncated and the amount charged is ceiled (both pool types, swaps, joins, exits); the stableswap solver scales reserves and the input down, the requested output up and divides rounding up for the amount charged; the rounding-mode dispatch maps each mode to the matching division; the solver's domain guards and the exit/swap reserve guards exist; " +
			"each pool model's state-mutating swap returns exactly what its pure calculation returned for the same arguments and applies exactly those coins to the reserves (sibling agreement). Round 8: both pool models range-check exit fee and swap fee field by field; an LBP poke after the end of the weight change goes through updateAllWeights (total weight kept in step).",
		NotCovered:  []string{"agreement with the constant-weighted-product formula to powPrecision", "monotonicity of the stableswap invariant", "value conservation over sequences (iterative series and binary search)"},
		Assumptions: []string{"osmomath.Pow / binary search accuracy (C13)"},
		MinObl:      62,
		Run:         runC04,
	})
}

func runC04(c *rules.Ctx) {
	balancerPokeRules(c)
	poolParamsValidateRules(c)
	const B = "x/gamm/pool-models/balancer.Pool."
	const S = "x/gamm/pool-models/stableswap.Pool."
	const CF = "x/gamm/pool-models/internal/cfmm_common."
	// ---- boundary conversions
	c.Returns(B+"CalcOutAmtGivenIn", 0, "sdk.NewCoin(tokenOutDenom, sdkmath.LegacyDec.TruncateInt(non(sdkmath.LegacyDec.Ceil(_))))", "balancer: amount out is truncated", "")
	c.Returns(B+"CalcInAmtGivenOut", 0, "sdk.NewCoin(tokenInDenom, sdkmath.LegacyDec.TruncateInt(sdkmath.LegacyDec.Ceil(_)))", "balancer: amount in is ceiled", "")
	c.Returns(S+"CalcOutAmtGivenIn", 0, "sdk.NewCoin(tokenOutDenom, sdkmath.LegacyDec.TruncateInt(non(sdkmath.LegacyDec.Ceil(_))))", "stableswap: amount out is truncated", "")
	c.Returns(S+"CalcInAmtGivenOut", 0, "sdk.NewCoin(tokenInDenom, sdkmath.LegacyDec.TruncateInt(sdkmath.LegacyDec.Ceil(_)))", "stableswap: amount in is ceiled", "")
	c.FailsWhen(B+"CalcOutAmtGivenIn", "not(sdkmath.Int.IsPositive(_))", "a non-positive output is an error", rules.GuardOpt{})
	c.FailsWhen(B+"CalcInAmtGivenOut", "not(sdkmath.Int.IsPositive(_))", "a non-positive input is an error", rules.GuardOpt{})
	// balancer fee direction: in-amount reduced by (1−sf) before the curve; required in-amount divided by (1−sf) after it
	c.HasCall(B+"CalcOutAmtGivenIn", "sdkmath.LegacyDec.MulMut", []string{"sdkmath.Int.ToLegacyDec(_.Amount)", "sdkmath.LegacyDec.Sub(@balancer.oneDec, spreadFactor)"}, true, "balancer: the spread factor is taken off the amount in before the curve", "")
	c.HasCall(B+"CalcInAmtGivenOut", "sdkmath.LegacyDec.Quo", []string{"_", "sdkmath.LegacyDec.Sub(sdkmath.LegacyOneDec(), spreadFactor)"}, true, "balancer: the required amount in is grossed up by 1/(1−sf)", "")
	// ---- joins / exits
	c.RoundRegion(CF+"CalcExitPool", "", "DOWN,NEAREST", []string{"sdkmath.LegacyDec.MulInt", "sdkmath.LegacyDec.MulIntMut"}, 2, "exit amounts are truncated (no rounding up)")
	c.FailsWhen(CF+"CalcExitPool", "ge(exitingShares, gammtypes.CFMMPoolI.GetTotalShares(pool))", "exiting all (or more than all) shares is an error", rules.GuardOpt{})
	c.FailsWhen(CF+"CalcExitPool", "ge(sdkmath.LegacyDec.TruncateInt(_), elem(_).Amount)", "an exit amount reaching the whole reserve is an error", rules.GuardOpt{Conditional: true})
	c.Returns(CF+"MaximalExactRatioJoin", 0, "each(alt(zero:Int(), local:numShares(), sdkmath.LegacyDec.TruncateInt(sdkmath.LegacyDec.MulInt(_, gammtypes.CFMMPoolI.GetTotalShares(p)))))", "proportional join: shares are truncated", "")
	c.RoundRegion(CF+"MaximalExactRatioJoin", "", "DOWN,UP", nil, 2, "proportional join: the share ratio is a floor division and the shares are truncated; only the used amounts are rounded up — no half-even operation")
	c.CallArg(CF+"MaximalExactRatioJoin", "sdkmath.LegacyDec.QuoInt", 1, "sdk.Coins.AmountOfNoDenomValidation(gammtypes.CFMMPoolI.GetTotalPoolLiquidity(p,ctx), elem(tokensIn).Denom)", "the share ratio of a coin is its amount floor-divided by the pool's reserve of the same denom")
	cfmmUsedAmountRules(c)
	// ---- stableswap solver directions
	const A = "x/gamm/pool-models/stableswap.Pool."
	c.CallArg(A+"calcOutAmtGivenIn", "stableswap.Pool.scaledSortedPoolReserves", 3, "2", "out-given-in: reserves are scaled rounding down")
	c.CallArg(A+"calcOutAmtGivenIn", "stableswap.Pool.scaleCoin", 2, "2", "out-given-in: the input is scaled rounding down")
	c.CallArg(A+"calcInAmtGivenOut", "stableswap.Pool.scaledSortedPoolReserves", 3, "2", "in-given-out: reserves are scaled rounding down")
	c.CallArg(A+"calcInAmtGivenOut", "stableswap.Pool.scaleCoin", 2, "1", "in-given-out: the requested output is scaled rounding up")
	c.HasCall(A+"calcInAmtGivenOut", "osmomath.BigDec.QuoRoundUpMut", []string{"_", "stableswap.oneMinus(spreadFactor)"}, true, "in-given-out: the division by (1−sf) rounds up", "")
	c.ConstValue("osmomath", "RoundUp", "1")
	c.ConstValue("osmomath", "RoundDown", "2")
	// ---- sibling agreement: Swap* = Calc* + apply
	for _, p := range []string{B, S} {
		pk := "balancer"
		if p == S {
			pk = "stableswap"
		}
		c.Returns(p+"SwapOutAmtGivenIn", 0, pk+".Pool.CalcOutAmtGivenIn(p, ctx, $in, tokenOutDenom, spreadFactor)#0", "the swap returns exactly what the pure calculation returned for the same arguments", "")
		c.Returns(p+"SwapInAmtGivenOut", 0, pk+".Pool.CalcInAmtGivenOut(p, ctx, $out, tokenInDenom, spreadFactor)#0", "the swap returns exactly what the pure calculation returned for the same arguments", "")
	}
	c.CheckedCall(B+"SwapOutAmtGivenIn", "balancer.Pool.applySwap", []string{"p", "ctx", "tokensIn", "list(balancer.Pool.CalcOutAmtGivenIn(p,ctx,tokensIn,tokenOutDenom,spreadFactor)#0)"}, "balancer: the reserves change by exactly (caller's in, calculated out)", "")
	c.CheckedCall(B+"SwapInAmtGivenOut", "balancer.Pool.applySwap", []string{"p", "ctx", "list(balancer.Pool.CalcInAmtGivenOut(p,ctx,tokensOut,tokenInDenom,spreadFactor)#0)", "tokensOut"}, "balancer: the reserves change by exactly (calculated in, caller's out)", "")
	c.StoreFieldN(B+"applySwap", "Amount", []string{"sdkmath.Int.Add(_.Token.Amount, idx(tokensIn,0).Amount)", "sdkmath.Int.Sub(_.Token.Amount, idx(tokensOut,0).Amount)"}, "balancer: reserve in += in, reserve out −= out")
	c.HasCall(S+"SwapOutAmtGivenIn", "stableswap.Pool.updatePoolLiquidityForSwap", []string{"p", "tokenIn", "sdk.NewCoins(stableswap.Pool.CalcOutAmtGivenIn(p,ctx,tokenIn,tokenOutDenom,spreadFactor)#0)"}, true, "stableswap: the reserves change by exactly (caller's in, calculated out)", "")
	c.HasCall(S+"SwapInAmtGivenOut", "stableswap.Pool.updatePoolLiquidityForSwap", []string{"p", "sdk.NewCoins(stableswap.Pool.CalcInAmtGivenOut(p,ctx,tokenOut,tokenInDenom,spreadFactor)#0)", "tokenOut"}, true, "stableswap: the reserves change by exactly (calculated in, caller's out)", "")
	c.StoreField(S+"updatePoolLiquidityForSwap", "PoolLiquidity", "sdk.Coins.Sub(sdk.Coins.Add(p.PoolLiquidity, tokensIn), tokensOut)", "stableswap: reserves = reserves + in − out")
	// ---- balancer single-asset join/exit formulas: the spread factor always works for the pool
	const BF = "x/gamm/pool-models/balancer."
	c.Let("FR_IN", "balancer.feeRatio(normalizedTokenWeightIn,spreadFactor)")
	c.Let("FR_OUT", "balancer.feeRatio(normalizedTokenWeightOut,spreadFactor)")
	c.Returns(BF+"feeRatio", 0, "sdkmath.LegacyDec.Sub(sdkmath.LegacyOneDec(), sdkmath.LegacyDec.Mul(sdkmath.LegacyDec.Sub(sdkmath.LegacyOneDec(), normalizedWeight), spreadFactor))", "fee ratio = 1 − (1 − normalized weight)·spread factor (≤ 1)", "")
	c.Returns(BF+"calcPoolSharesOutGivenSingleAssetIn", 0, "sdkmath.LegacyDec.Neg(balancer.solveConstantFunctionInvariant(sdkmath.LegacyDec.Add(tokenBalanceIn, sdkmath.LegacyDec.Mul(tokenAmountIn, {FR_IN})), tokenBalanceIn, normalizedTokenWeightIn, poolShares, sdkmath.LegacyOneDec()))", "shares for a single-asset deposit: the deposit is *reduced* by the fee ratio before the invariant is solved", "")
	c.Returns(BF+"calcSingleAssetInGivenPoolSharesOut", 0, "sdkmath.LegacyDec.Quo(sdkmath.LegacyDec.Neg(balancer.solveConstantFunctionInvariant(sdkmath.LegacyDec.Add(totalPoolSharesSupply, sharesAmountOut), totalPoolSharesSupply, sdkmath.LegacyOneDec(), tokenBalanceIn, normalizedTokenWeightIn)), {FR_IN})", "deposit needed for exact shares: the fee-free amount is *grossed up* by the fee ratio", "")
	c.Returns(BF+"calcPoolSharesInGivenSingleAssetOut", 0, "sdkmath.LegacyDec.Quo(balancer.solveConstantFunctionInvariant(sdkmath.LegacyDec.Sub(tokenBalanceOut, sdkmath.LegacyDec.Quo(tokenAmountOut, {FR_OUT})), tokenBalanceOut, normalizedTokenWeightOut, totalPoolSharesSupply, sdkmath.LegacyOneDec()), sdkmath.LegacyDec.Sub(sdkmath.LegacyOneDec(), exitFee))", "shares burned for an exact single-asset withdrawal: the withdrawal is *grossed up* by the fee ratio and the shares by 1/(1−exit fee)", "")
	// ---- the single-asset leg of a join is priced against the caller's (interim) reserve and share total
	const SJ = B + "calcSingleAssetJoin"
	c.CallArg(SJ, "balancer.calcPoolSharesOutGivenSingleAssetIn", 0, "sdkmath.Int.ToLegacyDec(tokenInPoolAsset.Token.Amount)", "priced against the reserve handed in by the caller (already updated by the proportional leg of a multi-asset join)")
	c.CallArg(SJ, "balancer.calcPoolSharesOutGivenSingleAssetIn", 1, "sdkmath.LegacyDec.Quo(sdkmath.Int.ToLegacyDec(tokenInPoolAsset.Weight), sdkmath.Int.ToLegacyDec(balancer.Pool.GetTotalWeight(p)))", "with that asset's normalized weight")
	c.CallArg(SJ, "balancer.calcPoolSharesOutGivenSingleAssetIn", 2, "sdkmath.Int.ToLegacyDec(totalShares)", "and the share total handed in by the caller")
	c.CallArg(SJ, "balancer.calcPoolSharesOutGivenSingleAssetIn", 3, "sdkmath.Int.ToLegacyDec(tokenIn.Amount)", "for the deposited amount")
	c.Returns(SJ, 0, "sdkmath.LegacyDec.TruncateInt(balancer.calcPoolSharesOutGivenSingleAssetIn(...)) | sdkmath.ZeroInt()", "shares minted for a single-asset join are truncated", "")
	// ---- keeper side of the all-asset join (shared with C02): what is minted is what the pool model credited
	c.PairedArgN("x/gamm/keeper.Keeper.JoinPoolNoSwap", "gammtypes.CFMMPoolI.JoinPoolNoSwap", "gammkeeper.Keeper.applyJoinPoolStateChange", "all-asset join: shares minted = shares the pool model returned; coins moved = coins given to it")
	gammStateChangeCheckedRules(c)
	// ---- creation-time validation covers every asset
	const VA = "x/gamm/pool-models/balancer.validateUserSpecifiedPoolAssets"
	c.ForEach(VA, "balancer.ValidateUserSpecifiedWeight", "assets", "the weight bound is checked for every asset of a new pool (first to last)", false)
	c.CallArg(VA, "balancer.ValidateUserSpecifiedWeight", 0, "elem(assets).Weight", "…on that asset's own weight")
	c.LoopOnlyFailExits(VA, "the validation loop is left early only by failing")
	// ---- stableswap joins: one asset or all assets, nothing in between
	const SJ2 = S + "joinPoolSharesInternal"
	c.FailsWhen(SJ2, "ne(len(tokensIn), stableswap.Pool.NumAssets(p))", "a multi-asset stableswap join must supply every pool asset (a proper subset would be credited proportional shares for assets it never provided)", rules.GuardOpt{Conditional: true, Before: "cfmm_common.MaximalExactRatioJoin"})
	c.FailsWhen(SJ2, "not(sdk.Coins.DenomsSubsetOf(tokensIn, stableswap.Pool.GetTotalPoolLiquidity(p,ctx)))", "only pool assets can be joined", rules.GuardOpt{})
	c.OnlyWhen(SJ2, "stableswap.Pool.calcSingleAssetJoinShares", "eq(len(tokensIn),1)", "the single-asset path is taken only for exactly one coin")
}
