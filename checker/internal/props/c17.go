package props

import "osmolint/internal/rules"

func init() {
	register(&Prop{
		ID: "C17",
		Explanation: "Epoch timers and hook containment: decides that the per-timer callback of the epochs BeginBlocker ticks only when block time is after the current epoch's end (or counting has not started), never before the start time, at most once per block (loop-free callback), " +
			"advances the epoch start by exactly one duration from the previous start (never from block time), signals end-of-epoch n before incrementing, persists, then signals start-of-epoch n+1; that every subscriber is run through the cache-context wrapper with the cache context, " +
			"whose write-back happens only on the no-error edge, whose recover handler re-panics exactly for out-of-gas errors and otherwise converts the panic into an error; and that the subscriber loop visits every subscriber. Round 8: genesis import hands every epoch to AddEpochInfo unmodified, and the start time is defaulted only when it is the zero time.",
		NotCovered:  []string{"'exactly once' over block-time sequences as a trace property", "grid start + n*duration as a number over histories"},
		Assumptions: []string{"sdk.Context.CacheContext isolates writes until write() is called (SDK)"},
		MinObl:      60,
		Run:         runC17,
	})
}

func runC17(c *rules.Ctx) {
	epochGenesisRules(c)
	// ---- applyFunc: cache-context containment ------------------------------------------------------
	const AF = "osmoutils.applyFunc"
	c.CallArgN(AF, "dyn[0=f]", 1, "sdk.Context.CacheContext(ctx)#0", "the subscriber function runs on the cache context, never on the outer context", 1, "")
	c.OnlyWhen(AF, "dyn[0=sdk.Context.CacheContext(ctx)#1]", "eq(dyn(f,sdk.Context.CacheContext(ctx)#0), nil)", "the cache is written back only when the function returned no error")
	c.HasCall(AF, "dyn[0=sdk.Context.CacheContext(ctx)#1]", nil, false, "the cache is written back on success", "write")
	c.Order(AF, "dyn[0=f]", "dyn[0=sdk.Context.CacheContext(ctx)#1]", "write-back happens after the function ran")
	c.HasCall(AF, "sdk.Context.CacheContext", []string{"ctx"}, true, "a cache context is created from the caller's context", "")
	c.Returns(AF, 0, "has(dyn(f,sdk.Context.CacheContext(ctx)#0)) | local:err()", "the function's error is reported to the caller", "")
	c.HasDefer(AF, "osmoutils.applyFunc$1", "a recover handler is installed before the function runs")
	const H = "osmoutils.applyFunc$1"
	c.PanicsWhen(H, "osmoutils.IsOutOfGasError(recover())#0", "recover()", "an out-of-gas panic is propagated (re-panicked) — and only that")
	c.StoreVarWhen(H, "err", "errors.New(_)", "not(osmoutils.IsOutOfGasError(recover())#0)", "any other panic is converted into an error result (state of the cache context is discarded)")
	c.OnlyWhen(H, "osmoutils.IsOutOfGasError", "ne(recover(), nil)", "the handler acts only when a panic was recovered")
	c.NoCall(H, "dyn", "the recover handler never writes the cache back")
	const OG = "osmoutils.IsOutOfGasError"
	c.WhenReturn(OG, "assert:ErrorOutOfGas(err)#1", 0, "true", "ErrorOutOfGas is recognised as out-of-gas")
	c.WhenReturn(OG, "assert:ErrorGasOverflow(err)#1", 0, "true", "ErrorGasOverflow is recognised as out-of-gas")
	c.OnlyWhenReturn(OG, "true", "assert:ErrorOutOfGas(err)#1 | assert:ErrorGasOverflow(err)#1", "nothing else is treated as out-of-gas")
	c.Returns("osmoutils.ApplyFuncIfNoError", 0, "osmoutils.applyFunc(ctx, f, _)", "the exported wrapper delegates with the same context and function", "")

	// ---- subscribers are run through the wrapper ---------------------------------------------------
	epochsHookContainmentRules(c)
	const PC = "x/epochs/types.panicCatchingEpochHook"
	// timers are decoded one by one into a fresh, reset message; the query reports the epoch counter
	c.HasCall("x/epochs/keeper.Keeper.IterateEpochInfo", "proto.Unmarshal", []string{"cosmos-db.Iterator.Value(_)", "_"}, false, "each stored timer is decoded with proto.Unmarshal, which resets the target (a zero-valued field never inherits the previous timer's value)", "")
	c.NoCall("x/epochs/keeper.Keeper.IterateEpochInfo", "epochstypes.EpochInfo.Unmarshal", "the non-resetting generated Unmarshal is not used for iteration")
	c.Returns("x/epochs/keeper.Querier.CurrentEpoch", 0, "with:CurrentEpoch(zero:QueryCurrentEpochResponse(), epochskeeper.Keeper.GetEpochInfo(q.Keeper,_,req.Identifier).CurrentEpoch) | nil", "the current-epoch query reports the timer's epoch counter", "")
	c.CallArgN(PC+"$1", "dyn[0=^hookFn]", 2, "^epochIdentifier", "with the signalled identifier", 1, "")
	c.CallArgN(PC+"$1", "dyn[0=^hookFn]", 3, "^epochNumber", "and the signalled epoch number", 1, "")
	c.NoPanicOrErrorExit(PC, "a failing subscriber does not stop the block: the helper returns normally whatever the subscriber did")
	for _, m := range []string{"AfterEpochEnd", "BeforeEpochStart"} {
		fn := "x/epochs/types.MultiEpochHooks." + m
		c.CallArg(fn, "epochstypes.panicCatchingEpochHook", 1, "closure:epochstypes."+m+"$bound(elem(h))", "the wrapped function is the "+m+" method of the loop's subscriber")
		c.CallArg(fn, "epochstypes.panicCatchingEpochHook", 0, "ctx", "with the caller's context")
		c.CallArg(fn, "epochstypes.panicCatchingEpochHook", 2, "epochIdentifier", "the signalled identifier")
		c.CallArg(fn, "epochstypes.panicCatchingEpochHook", 3, "epochNumber", "the signalled number")
		c.LoopNoEarlyExit(fn, "every subscriber is visited: the loop has no early exit")
		c.Returns(fn, 0, "nil", "the multi-hook never reports an error upwards", "")
		c.NoCall(fn, "epochstypes.EpochHooks."+m, "subscribers are never invoked outside the wrapper")
	}
	c.HasCall("x/epochs/keeper.Keeper.AfterEpochEnd", "epochstypes.EpochHooks.AfterEpochEnd", []string{"k.hooks", "ctx", "identifier", "epochNumber"}, true, "the keeper signals its registered hooks", "")
	c.HasCall("x/epochs/keeper.Keeper.BeforeEpochStart", "epochstypes.EpochHooks.BeforeEpochStart", []string{"k.hooks", "ctx", "identifier", "epochNumber"}, true, "the keeper signals its registered hooks", "")
	c.HasCall("app/keepers.AppKeepers.SetupHooks", "epochskeeper.Keeper.SetHooks", []string{"_", "epochstypes.NewMultiEpochHooks(...)"}, true, "the app wires the epochs keeper with the containing multi-hook", "")

	// ---- BeginBlocker callback ---------------------------------------------------------------------------
	const CB = "x/epochs/keeper.Keeper.BeginBlocker$1"
	const EFFECTS = "epochskeeper.Keeper.setEpochInfo|epochskeeper.Keeper.AfterEpochEnd|epochskeeper.Keeper.BeforeEpochStart"
	c.LoopFree(CB, "a timer advances by at most one epoch per block: the per-timer callback has no loop")
	c.OnlyWhen(CB, EFFECTS, "not(lt(sdk.Context.BlockTime(^ctx), epochInfo.StartTime))", "nothing happens before the timer's start time")
	c.OnlyWhen(CB, EFFECTS, "gt(sdk.Context.BlockTime(^ctx), time.Time.Add(epochInfo.CurrentEpochStartTime, epochInfo.Duration)) | not(epochInfo.EpochCountingStarted)",
		"a tick happens only when block time has passed the current epoch's end (strictly), or counting has not started yet")
	c.OnlyWhen(CB, "epochskeeper.Keeper.AfterEpochEnd", "epochInfo.EpochCountingStarted", "end-of-epoch is signalled only for a running epoch")
	c.CallArg(CB, "epochskeeper.Keeper.AfterEpochEnd", 3, "epochInfo.CurrentEpoch", "end-of-epoch carries the number of the epoch that is ending (before the increment)")
	c.CallArg(CB, "epochskeeper.Keeper.BeforeEpochStart", 3, "phi(1, add(epochInfo.CurrentEpoch,1))", "start-of-epoch carries n+1 (or 1 on the first tick)")
	c.CallArg(CB, "epochskeeper.Keeper.AfterEpochEnd", 2, "epochInfo.Identifier", "for this timer")
	c.CallArg(CB, "epochskeeper.Keeper.BeforeEpochStart", 2, "epochInfo.Identifier", "for this timer")
	c.StoreField(CB, "CurrentEpochStartTime", "epochInfo.StartTime | time.Time.Add(epochInfo.CurrentEpochStartTime, epochInfo.Duration)", "epoch starts stay on the grid start + n·duration: the new start is the start time or previous start + duration, never derived from block time")
	c.StoreField(CB, "CurrentEpoch", "1 | add(epochInfo.CurrentEpoch,1)", "the epoch number starts at 1 and grows by exactly one")
	c.StoreVarUnder(CB, "CurrentEpochStartTime", "epochInfo.StartTime", "not(epochInfo.EpochCountingStarted)", "the start time is used only for the first tick")
	c.Order(CB, "epochskeeper.Keeper.setEpochInfo", "epochskeeper.Keeper.BeforeEpochStart", "the new epoch is persisted before start-of-epoch is signalled")
	c.NeverAfter(CB, "epochskeeper.Keeper.setEpochInfo", "epochskeeper.Keeper.AfterEpochEnd", "end-of-epoch n is signalled strictly before epoch n+1 is persisted and started")
	c.NeverAfter(CB, "epochskeeper.Keeper.BeforeEpochStart", "epochskeeper.Keeper.AfterEpochEnd", "…and before start-of-epoch n+1")
	c.HasCall(CB, "epochskeeper.Keeper.setEpochInfo", []string{"^k", "^ctx", "epochInfo"}, false, "the advanced timer is persisted", "")
	c.WhenReturn(CB, "lt(sdk.Context.BlockTime(^ctx), epochInfo.StartTime)", 0, "false", "a timer that has not started does not stop the iteration over the other timers")
	c.Returns(CB, 0, "false", "the callback never stops the iteration: every timer is considered each block", "")
	c.HasCall("x/epochs/keeper.Keeper.BeginBlocker", "epochskeeper.Keeper.IterateEpochInfo", []string{"k", "ctx", "closure:epochskeeper.Keeper.BeginBlocker$1(k,ctx)"}, true, "BeginBlocker runs the callback for every stored timer", "")
}
