package props

import "osmolint/internal/rules"

func init() {
	register(&Prop{
		ID: "C18",
		Explanation: "Minting: decides that the coin minted and the coin distributed are the same value (the truncated epoch provision), that the community pool receives minted − staking − pool incentives − developer share where the three are the amounts the distribute functions actually moved, that each share is a truncated proportion (ratio > 1 rejected), " +
			"that the provision is reduced exactly under epoch ≥ reduction period + last reduction epoch together with storing the minter and the new last-reduction epoch, that nothing is minted before the start epoch, and that developer rewards are burned from the mint account, paid from the vesting account under a supply-offset bracket.",
		NotCovered:  []string{"mint account empty / supply grows by exactly the provision as numbers", "long-run schedule over epochs"},
		Assumptions: []string{"bank keeper semantics", "epoch hook is invoked once per epoch (C17)"},
		MinObl:      43,
		Run:         runC18,
	})
}

func runC18(c *rules.Ctx) {
	mintStoreRules(c)
	const K = "x/mint/keeper.Keeper."
	const H = K + "AfterEpochEnd"
	c.Let("PARAMS", "mintkeeper.Keeper.GetParams(k,ctx)")
	c.Let("MINTER", "mintkeeper.Keeper.GetMinter(k,ctx)")
	// the epochs module sees the keeper's verdict: a mint epoch that aborted half way is reported (and rolled back)
	c.CheckedCall("x/mint/keeper.Hooks.AfterEpochEnd", "mintkeeper.Keeper.AfterEpochEnd", []string{"h.k", "ctx", "epochIdentifier", "epochNumber"}, "the hook wrapper runs the keeper's epoch step for the same epoch and fails when it fails", "")
	epochsHookContainmentRules(c)
	// genesis: the imported provision is kept unless it is nil or exactly zero as a decimal (a sub-unit provision is still a provision)
	c.BranchOn(K+"InitGenesis", "sdkmath.LegacyDec.IsZero(data.Minter.EpochProvisions)", []string{"sdk.Coin.IsZero(minttypes.Minter.EpochProvision(...))", "sdkmath.Int.IsZero(minttypes.Minter.EpochProvision(...).Amount)", "sdkmath.Int.IsZero(sdkmath.LegacyDec.TruncateInt(_))"}, "the reset-to-genesis test looks at the decimal provisions, never at the truncated coin")
	// schedule
	c.OnlyWhen(H, "mintkeeper.Keeper.mintCoins|mintkeeper.Keeper.DistributeMintedCoin|mintkeeper.Keeper.SetMinter", "eq(epochIdentifier, {PARAMS}.EpochIdentifier)", "only the configured mint epoch mints")
	c.OnlyWhen(H, "mintkeeper.Keeper.mintCoins|mintkeeper.Keeper.DistributeMintedCoin", "not(lt(epochNumber, {PARAMS}.MintingRewardsDistributionStartEpoch))", "nothing is minted before the start epoch")
	c.OnlyWhen(H, "mintkeeper.Keeper.SetMinter", "ge(epochNumber, add({PARAMS}.ReductionPeriodInEpochs, mintkeeper.Keeper.getLastReductionEpochNum(k,ctx)))", "the provision is reduced exactly when a full reduction period has elapsed since the last reduction")
	c.HasCall(H, "mintkeeper.Keeper.SetMinter", []string{"k", "ctx", "with:EpochProvisions(_, minttypes.Minter.NextEpochProvisions({MINTER}, {PARAMS}))"}, false, "the stored minter carries the reduced provision", "")
	c.CallWhere(H, "mintkeeper.Keeper.setLastReductionEpochNum", 2, "epochNumber", 2, "epochNumber", "the last-reduction epoch is set to the current epoch", "epoch")
	c.NeverAfter(H, "mintkeeper.Keeper.mintCoins", "mintkeeper.Keeper.SetMinter", "the reduction (if due) happens before this epoch's coins are minted, never after")
	c.Returns("x/mint/types.Minter.NextEpochProvisions", 0, "sdkmath.LegacyDec.Mul(m.EpochProvisions, params.ReductionFactor)", "next provision = current × reduction factor", "")
	c.Returns("x/mint/types.Minter.EpochProvision", 0, "sdk.NewCoin(params.MintDenom, sdkmath.LegacyDec.TruncateInt(m.EpochProvisions))", "the coin put into circulation is the integer part of the provision", "")
	// minted == distributed
	c.Let("COIN", "minttypes.Minter.EpochProvision(_, {PARAMS})")
	c.CheckedCallOpt(H, "mintkeeper.Keeper.mintCoins", []string{"k", "ctx", "sdk.NewCoins({COIN})"}, "exactly the epoch provision coin is minted", "", false)
	c.CheckedCallOpt(H, "mintkeeper.Keeper.DistributeMintedCoin", []string{"k", "ctx", "{COIN}"}, "and exactly that coin is distributed", "", false)
	c.Order(H, "mintkeeper.Keeper.mintCoins", "mintkeeper.Keeper.DistributeMintedCoin", "mint precedes distribution")
	// conservation
	const D = K + "DistributeMintedCoin"
	c.Let("P", "mintkeeper.Keeper.GetParams(k,ctx)")
	c.Let("STK", "mintkeeper.Keeper.distributeToModule(k,ctx,k.feeCollectorName,mintedCoin,{P}.DistributionProportions.Staking)#0")
	c.Let("PI", "mintkeeper.Keeper.distributeToModule(k,ctx,\"poolincentives\",mintedCoin,{P}.DistributionProportions.PoolIncentives)#0")
	c.Let("DEV", "mintkeeper.Keeper.distributeDeveloperRewards(k,ctx,mintedCoin,{P}.DistributionProportions.DeveloperRewards,{P}.WeightedDeveloperRewardsReceivers)#0")
	c.CheckedCall(D, "minttypes.CommunityPoolKeeper.FundCommunityPool", []string{"_", "ctx", "sdk.NewCoins(sdk.NewCoin({P}.MintDenom, sdkmath.Int.Sub(sdkmath.Int.Sub(sdkmath.Int.Sub(mintedCoin.Amount,{STK}),{PI}),{DEV})))", "minttypes.AccountKeeper.GetModuleAddress(_, \"mint\")"},
		"the community pool takes the remainder: minted − staking − pool incentives − developer share, each being what the distribute call actually moved, funded from the mint account", "")
	const DM = K + "distributeToModule"
	c.Returns(DM, 0, "mintkeeper.getProportions(mintedCoin,proportion)#0.Amount", "a module's share as reported = the proportion that was sent", "")
	c.CheckedCall(DM, "minttypes.BankKeeper.SendCoinsFromModuleToModule", []string{"_", "ctx", "\"mint\"", "recipientModule", "sdk.NewCoins(mintkeeper.getProportions(mintedCoin,proportion)#0)"}, "exactly the proportion is sent from the mint account to the recipient module", "")
	const GP = "x/mint/keeper.getProportions"
	c.FailsWhen(GP, "gt(ratio, sdkmath.LegacyOneDec())", "a ratio above one is rejected", rules.GuardOpt{})
	c.Returns(GP, 0, "sdk.NewCoin(mintedCoin.Denom, sdkmath.LegacyDec.TruncateInt(sdkmath.LegacyDec.Mul(sdkmath.Int.ToLegacyDec(mintedCoin.Amount), ratio)))", "share = trunc(amount × ratio) in the same denom", "")
	c.RoundValue(GP, "ret:0", "DOWN,NEAREST", "DOWN", nil, "the share is truncated (never rounded up)")
	// developer rewards
	const DV = K + "distributeDeveloperRewards"
	c.Let("DEVCOIN", "mintkeeper.getProportions(totalMintedCoin,developerRewardsProportion)#0")
	c.CheckedCall(DV, "minttypes.BankKeeper.BurnCoins", []string{"_", "ctx", "\"mint\"", "sdk.NewCoins({DEVCOIN})"}, "the developer share is burned from the mint account (it is paid from the pre-minted vesting account instead)", "")
	c.Returns(DV, 0, "{DEVCOIN}.Amount", "the developer share reported = the amount burned", "")
	c.FailsWhen(DV, "lt(minttypes.BankKeeper.GetBalance(...).Amount, {DEVCOIN}.Amount)", "an insufficient vesting balance fails the distribution", rules.GuardOpt{Before: "minttypes.BankKeeper.BurnCoins"})
	c.CallArg(DV, "minttypes.BankKeeper.SendCoinsFromModuleToAccount", 2, "\"developer_vesting_unvested\"", "receivers are paid from the developer vesting account")
	c.CallArg(DV, "minttypes.BankKeeper.SendCoinsFromModuleToAccount", 4, "sdk.NewCoins(mintkeeper.getProportions({DEVCOIN}, elem(developerRewardsReceivers).Weight)#0)", "each receiver gets its weight's truncated proportion of the developer share")
	c.CallArg(DV, "minttypes.BankKeeper.SendCoinsFromModuleToAccount", 3, "sdk.AccAddressFromBech32(elem(developerRewardsReceivers).Address)#0", "at its own address")
	c.OnlyWhen(DV, "minttypes.BankKeeper.SendCoinsFromModuleToAccount", "not(eq(elem(developerRewardsReceivers).Address, \"\"))", "an empty receiver address is not paid directly (its share goes to the community pool)")
	c.HasCall(DV, "minttypes.BankKeeper.AddSupplyOffset", []string{"_", "ctx", "totalMintedCoin.Denom", "minttypes.BankKeeper.GetBalance(...).Amount"}, true, "supply offset +vesting balance before the pay-outs", "plus")
	c.HasCall(DV, "minttypes.BankKeeper.AddSupplyOffset", []string{"_", "ctx", "totalMintedCoin.Denom", "sdkmath.Int.Neg(minttypes.BankKeeper.GetBalance(...).Amount)"}, true, "supply offset −vesting balance after the pay-outs", "minus")
	c.NeverAfter(DV, "minttypes.BankKeeper.AddSupplyOffset[3=sdkmath.Int.Neg(_)]", "minttypes.BankKeeper.SendCoinsFromModuleToAccount", "no pay-out after the closing supply offset")
	// community-pool branches of the developer share: whole share when no receiver is configured, the weighted portion for
	// an empty-address receiver
	c.Let("PORTION", "mintkeeper.getProportions({DEVCOIN}, elem(developerRewardsReceivers).Weight)#0")
	c.CallWhere(DV, "minttypes.CommunityPoolKeeper.FundCommunityPool", 2, "sdk.NewCoins({PORTION})", 2, "sdk.NewCoins({PORTION})", "an empty-address receiver sends exactly its weighted portion to the community pool", "portion")
	c.OnlyWhen(DV, "minttypes.CommunityPoolKeeper.FundCommunityPool[2=sdk.NewCoins({PORTION})]", "eq(elem(developerRewardsReceivers).Address, \"\")", "…and only for an empty address")
	c.OnlyWhen(DV, "minttypes.CommunityPoolKeeper.FundCommunityPool[2=sdk.NewCoins({DEVCOIN})]", "eq(len(developerRewardsReceivers),0)", "the whole developer share goes to the community pool only when no receiver is configured")
	c.CallArg(DV, "minttypes.CommunityPoolKeeper.FundCommunityPool", 3, "minttypes.AccountKeeper.GetModuleAddress(k.accountKeeper,\"developer_vesting_unvested\")", "community-pool funding of developer rewards comes from the vesting account")
	// the reduction clock starts at the start epoch, whatever genesis said
	c.ReachedWhen(H, "mintkeeper.Keeper.setLastReductionEpochNum", "eq(epochIdentifier, {PARAMS}.EpochIdentifier) & eq(epochNumber, {PARAMS}.MintingRewardsDistributionStartEpoch) & le({PARAMS}.MintingRewardsDistributionStartEpoch, epochNumber)", "at the start epoch the last-reduction epoch is always (re)set to it, so the first reduction comes one full period later")
}
