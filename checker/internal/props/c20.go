package props

import (
	"fmt"
	"sort"
	"strings"

	"osmolint/internal/rules"
)

func init() {
	register(&Prop{
		ID: "C20",
		Explanation: "Authorisation (rule GI): for every message handler of concentrated-liquidity, lockup, superfluid, tokenfactory and valset-pref, every call-graph path (bounded depth, static + class-hierarchy callees) from the handler to a privileged sink carries, in some frame and before the next call of the path, a branch that compares a value derived from the message's signer field with an owner/admin value of a stored object and fails on mismatch (directly, through a checked guard helper, or inside the sink on every success path). " +
			"Exempt (entry, sink) pairs are listed one by one with the reason. Module-account protection of tokenfactory mint/burn/force-transfer is checked as ordinary guards.",
		NotCovered:  []string{"'leaving all balances and records unchanged' on failure (SDK transaction atomicity is trusted)", "reachability of objects over histories", "wasm hooks"},
		Assumptions: []string{"message signer = the field parsed by GetSigners (cross-checked structurally)", "call depth <= 7 frames inside osmosis packages"},
		MinObl:      96,
		Run:         runC20,
	})
}

var c20Sinks = []string{
	// lockup: operations on an existing lock
	"lockupkeeper.Keeper.BeginUnlock", "lockupkeeper.Keeper.ExtendLockup", "lockupkeeper.Keeper.SetLockRewardReceiverAddress", "lockupkeeper.Keeper.AddTokensToLockByID",
	"lockupkeeper.Keeper.PartialForceUnlock", "lockupkeeper.Keeper.ForceUnlock", "lockupkeeper.Keeper.BeginForceUnlock",
	"lockupkeeper.Keeper.CreateSyntheticLockup", "lockupkeeper.Keeper.DeleteSyntheticLockup",
	// concentrated liquidity: operations on an existing position
	"cl.Keeper.UpdatePosition", "cl.Keeper.deletePosition", "cl.Keeper.SetPosition", "cl.Keeper.prepareClaimableSpreadRewards", "cl.Keeper.prepareClaimAllIncentivesForPosition", "cl.Keeper.updatePositionToInitValuePlusGrowthOutside",
	// tokenfactory: operations on an existing denom
	"tokenfactorykeeper.Keeper.mintTo", "tokenfactorykeeper.Keeper.burnFrom", "tokenfactorykeeper.Keeper.forceTransfer", "tokenfactorykeeper.Keeper.setAdmin", "tokenfactorykeeper.Keeper.setBeforeSendHook",
	"tokenfactorytypes.BankKeeper.SetDenomMetaData",
}

// c20Exempt: (entry, sink) pairs that legitimately carry no owner comparison, with the reason.
var c20Exempt = map[string]string{
	"cl.msgServer.CreatePosition -> cl.Keeper.UpdatePosition":                                             "creates a new position for the signer (CreatePosition passes the signer as the owner of the fresh position id); no pre-existing object is touched",
	"superfluidkeeper.msgServer.CreateFullRangePositionAndSuperfluidDelegate -> cl.Keeper.UpdatePosition": "creates a new full-range position for the signer; no pre-existing object is touched",
	"lockupkeeper.msgServer.BeginUnlockingAll -> lockupkeeper.Keeper.BeginUnlock":                         "the locks are enumerated from the signer's own account index (checked separately: the iterator is built from the signer's address)",
}

func runC20(c *rules.Ctx) {
	var entries []rules.AuthEntry
	for _, e := range [][2]string{{"x/lockup/keeper", "msgServer"}, {"x/concentrated-liquidity", "msgServer"}, {"x/superfluid/keeper", "msgServer"}, {"x/tokenfactory/keeper", "msgServer"}, {"x/valset-pref", "msgServer"}} {
		es := c.MsgServerEntries(e[0], e[1])
		if len(es) == 0 {
			c.Undecided("GI", e[0]+"."+e[1], "entries", "message server has handlers", "no handlers found", "")
		}
		entries = append(entries, es...)
	}
	for _, e := range entries {
		c.Record("GI", e.Name, "signer", "the handler's message declares its signer through GetSigners", e.Signer != "", "signer field: "+e.Signer, c.P.Rel(e.Fn.Pos()))
	}
	depth := 7
	if c.Tier == "thorough" {
		depth = 11 // deeper call paths from the handlers to the sinks
	}
	paths := c.AuthPaths(entries, c20Sinks, depth)
	c.R.Extra["auth_path_depth"] = depth
	type agg struct {
		n, bad   int
		firstBad string
		guard    string
		pos      string
	}
	pairs := map[string]*agg{}
	for _, p := range paths {
		k := p.Entry + " -> " + p.Sink
		a := pairs[k]
		if a == nil {
			a = &agg{}
			pairs[k] = a
		}
		a.n++
		if p.Guarded {
			if a.guard == "" {
				a.guard = p.GuardAt
			}
		} else {
			a.bad++
			if a.firstBad == "" {
				a.firstBad = strings.Join(p.Frames, " > ") + " > " + p.Sink
				a.pos = p.Pos
			}
		}
		if a.pos == "" {
			a.pos = p.Pos
		}
	}
	var keys []string
	for k := range pairs {
		keys = append(keys, k)
	}
	sort.Strings(keys)
	for _, k := range keys {
		a := pairs[k]
		desc := "every path from the handler to the privileged sink compares the signer with the object's owner/admin and fails on mismatch"
		if why, ok := c20Exempt[k]; ok {
			c.Record("GI", k, "path", "exempt: "+why, true, fmt.Sprintf("%d path(s), exempt", a.n), a.pos)
			continue
		}
		c.Record("GI", k, "path", desc, a.bad == 0, orStr(map[bool]string{true: fmt.Sprintf("%d path(s); guard: %s", a.n, a.guard), false: fmt.Sprintf("%d of %d path(s) unguarded, e.g. %s", a.bad, a.n, a.firstBad)}[a.bad == 0], ""), a.pos)
	}
	// side conditions of the exemptions
	c.CallArg("x/concentrated-liquidity.msgServer.CreatePosition", "cl.Keeper.CreatePosition", 3, "sdk.AccAddressFromBech32(msg.Sender)#0", "the new position is owned by the signer")
	c.CallArg("x/lockup/keeper.msgServer.BeginUnlockingAll", "lockupkeeper.Keeper.BeginUnlockAllNotUnlockings", 2, "sdk.AccAddressFromBech32(msg.Owner)#0", "begin-unlock-all enumerates the signer's locks")
	c.CallArg("x/lockup/keeper.Keeper.BeginUnlockAllNotUnlockings", "lockupkeeper.Keeper.AccountLockIterator", 3, "account", "…through the account-keyed index of that address")
	c.CallArg("x/lockup/keeper.Keeper.BeginUnlockAllNotUnlockings", "lockupkeeper.Keeper.beginUnlockFromIterator", 2, "lockupkeeper.Keeper.AccountLockIterator(k,ctx,false,account)", "…and only those locks are unlocked")
	// protected module accounts: mint/burn/force-transfer never touch them
	tf := "x/tokenfactory/keeper.Keeper."
	c.FailsWhen(tf+"mintTo", "tokenfactorykeeper.Keeper.IsModuleAcc(k,ctx,sdk.AccAddressFromBech32(mintTo)#0)", "minting to a protected module account fails", rules.GuardOpt{Before: "tokenfactorytypes.BankKeeper.MintCoins|tokenfactorytypes.BankKeeper.SendCoinsFromModuleToAccount"})
	c.CallArg(tf+"mintTo", "tokenfactorytypes.BankKeeper.SendCoinsFromModuleToAccount", 3, "sdk.AccAddressFromBech32(mintTo)#0", "…and the checked address is the one credited")
	c.FailsWhen(tf+"burnFrom", "tokenfactorykeeper.Keeper.IsModuleAcc(k,ctx,sdk.AccAddressFromBech32(burnFrom)#0)", "burning from a protected module account fails", rules.GuardOpt{Before: "tokenfactorytypes.BankKeeper.SendCoinsFromAccountToModule|tokenfactorytypes.BankKeeper.BurnCoins"})
	c.CallArg(tf+"burnFrom", "tokenfactorytypes.BankKeeper.SendCoinsFromAccountToModule", 2, "sdk.AccAddressFromBech32(burnFrom)#0", "…and the checked address is the one debited")
	c.Returns(tf+"IsModuleAcc", 0, "lookup(k.permAddrMap,sdk.AccAddress.String(addr))", "IsModuleAcc looks the address up in the protected-address set", "")
	c.MapFieldFilled("x/tokenfactory/keeper.NewKeeper", "permAddrMap", "sdk.AccAddress.String(authtypes.PermissionsForAddress.GetAddress(authtypes.NewPermissionsForAddress(next(range(maccPerms))#1,_)))", "true", "the protected-address set holds the address of every module account handed to the keeper")
	c.MapFieldFilled("x/tokenfactory/keeper.NewKeeper", "permAddrs", "next(range(maccPerms))#1", "authtypes.NewPermissionsForAddress(next(range(maccPerms))#1,_)", "the protected-module table holds every module account handed to the keeper")
	// the wasm binding's mint: the final recipient (not the contract) is the address checked against the protected set
	c.FailsWhen("wasmbinding.PerformMint", "tokenfactorykeeper.Keeper.IsModuleAcc(f,ctx,wasmbinding.parseAddress(mint.MintToAddress)#0)", "a contract cannot mint into a protected module account through the binding", rules.GuardOpt{Before: "bankkeeper.BaseSendKeeper.SendCoins"})
	c.CallArg("wasmbinding.PerformMint", "bankkeeper.BaseSendKeeper.SendCoins", 3, "wasmbinding.parseAddress(mint.MintToAddress)#0", "…and the checked address is the one credited")
	c.Let("FROM", "sdk.AccAddressFromBech32(fromAddr)#0")
	c.Let("TO", "sdk.AccAddressFromBech32(toAddr)#0")
	c.Let("MODADDR", "sdk.ModuleAccountI.GetAddress(tokenfactorytypes.AccountKeeper.GetModuleAccount(k.accountKeeper,ctx,elem(has(next(range(k.permAddrs))#1))))")
	c.FailsWhen(tf+"forceTransfer", "sdk.AccAddress.Equals({MODADDR},{FROM}) | sdk.AccAddress.Equals({FROM},{MODADDR})", "force-transfer out of a protected module account fails (checked for every protected module)", rules.GuardOpt{EveryIter: true})
	c.FailsWhen(tf+"forceTransfer", "sdk.AccAddress.Equals({MODADDR},{TO}) | sdk.AccAddress.Equals({TO},{MODADDR})", "force-transfer into a protected module account fails (checked for every protected module)", rules.GuardOpt{EveryIter: true})
	c.LoopOnlyFailExits(tf+"forceTransfer", "the scan over protected modules is left early only by failing")
	c.Let("PERMLIST", "phi(make:slice(),append(#self,list(next(range(k.permAddrs))#1)))")
	c.ForEach(tf+"forceTransfer", "tokenfactorytypes.AccountKeeper.GetModuleAccount", "{PERMLIST}", "the scan visits every protected module account (first to last — none is left unchecked)", false)
	c.ForEach(tf+"forceTransfer", "append", "k.permAddrs", "…of the keeper's whole protected-module table", false)
	// genesis import restores each denom's authority record as exported — a renounced admin stays renounced
	const TG = "x/tokenfactory/keeper.Keeper.InitGenesis"
	c.ForEach(TG, "tokenfactorykeeper.Keeper.setAuthorityMetadata", "genState.FactoryDenoms", "every imported denom gets its exported authority record written (also an empty admin)", false)
	c.CallArg(TG, "tokenfactorykeeper.Keeper.setAuthorityMetadata", 2, "elem(genState.FactoryDenoms).Denom", "…under its own denom")
	c.CallArg(TG, "tokenfactorykeeper.Keeper.setAuthorityMetadata", 3, "elem(genState.FactoryDenoms).AuthorityMetadata", "…with the exported metadata")
	c.Order(TG, "tokenfactorykeeper.Keeper.createDenomAfterValidation", "tokenfactorykeeper.Keeper.setAuthorityMetadata", "the exported record is written after (and so overrides) the creator-as-admin default of denom creation")
	c.CallArg(tf+"forceTransfer", "tokenfactorytypes.BankKeeper.SendCoins", 2, "{FROM}", "the checked source is the one debited")
	c.CallArg(tf+"forceTransfer", "tokenfactorytypes.BankKeeper.SendCoins", 3, "{TO}", "the checked destination is the one credited")
	// a denom cannot be created twice: existence is decided by the bank's denom metadata (which survives a renounced admin)
	const VC = "x/tokenfactory/keeper.Keeper.validateCreateDenom"
	c.FailsWhen(VC, "tokenfactorytypes.BankKeeper.GetDenomMetaData(k.bankKeeper,ctx,tokenfactorytypes.GetTokenDenom(creatorAddr,subdenom)#0)#1", "creating a denom that already exists fails — whoever its admin is now, renounced included (re-creation would hand the powers back to the creator)", rules.GuardOpt{})
	c.FailsWhen(VC, "tokenfactorytypes.BankKeeper.HasSupply(k.bankKeeper,ctx,subdenom)", "a sub-denom that shadows an existing native denom is refused", rules.GuardOpt{})
	c.CheckedCall("x/tokenfactory/keeper.Keeper.CreateDenom", "tokenfactorykeeper.Keeper.validateCreateDenom", []string{"k", "ctx", "creatorAddr", "subdenom"}, "creation goes through the validation, for the signer's own namespace", "")
	c.R.Extra["auth_entries"] = len(entries)
	c.R.Extra["auth_paths"] = len(paths)
}
