package props

import (
	"fmt"
	"sort"
	"strings"

	"golang.org/x/tools/go/ssa"

	"osmolint/internal/ir"
	"osmolint/internal/rules"
)

func init() {
	register(&Prop{
		ID: "C06",
		Explanation: "Lockup: decides that coin movements into/out of the lockup module account, the lock record, the reference indexes and the accumulation store are updated together with the same keys and amounts; " +
			"that the unlock end time is block time + duration; that matured-unlock is guarded by the unlocking flag and the end-time comparison against block time and pays the lock owner; that owner guards precede every mutation.",
		NotCovered:  []string{"index = primary records for every query shape over histories", "sum-tree internals (C16)", "conservation of owner balance + locked as a number"},
		Assumptions: []string{"bank keeper and KV store are the effect primitives", "an error exit of a message reverts its store branch (SDK)"},
		MinObl:      128,
		Run:         runC06,
	})
}

func runC06(c *rules.Ctx) {
	const K = "x/lockup/keeper.Keeper."
	c.Let("LOCKBYID", "lockupkeeper.Keeper.GetLockByID(k,ctx,lockID)#0")
	c.Let("ACC", "lockupkeeper.Keeper.accumulationStore")
	c.Let("AKEY", "lockupkeeper.accumulationKey")

	// ---- lock(): record + accumulation per coin ------------------------------------------------
	c.CheckedCall(K+"lock", "lockupkeeper.Keeper.setLock", []string{"k", "ctx", "lock"}, "lock() persists the lock record it was given", "")
	c.CallArg(K+"lock", "sumtree.Tree.Increase", 0, "{ACC}(k,ctx,elem(tokensToLock).Denom)", "accumulation store is the one of the locked coin's denom")
	c.CallArg(K+"lock", "sumtree.Tree.Increase", 1, "{AKEY}(lock.Duration)", "accumulation key is the lock's duration")
	c.CallArg(K+"lock", "sumtree.Tree.Increase", 2, "elem(tokensToLock).Amount", "accumulation grows by exactly the locked amount")
	c.NoCall(K+"lock", "sumtree.Tree.Decrease", "locking never decreases an accumulation")
	c.ForEach(K+"lock", "sumtree.Tree.Increase", "tokensToLock", "every locked coin is added to the accumulation", false)

	// ---- CreateLock / CreateLockNoSend / AddTokensToLockByID: coins sent == coins recorded ------
	c.CheckedCall(K+"CreateLock", "lockuptypes.BankKeeper.SendCoinsFromAccountToModule", []string{"k.bk", "ctx", "owner", "@lockuptypes.ModuleName", "coins"}, "CreateLock moves exactly `coins` from the owner into the module account", "")
	c.CheckedCall(K+"CreateLock", "lockupkeeper.Keeper.CreateLockNoSend", []string{"k", "ctx", "owner", "coins", "duration"}, "CreateLock records a lock for the same owner, coins and duration it collected", "")
	c.Order(K+"CreateLock", "lockuptypes.BankKeeper.SendCoinsFromAccountToModule", "lockupkeeper.Keeper.CreateLockNoSend", "funds are collected before the lock is recorded")
	c.Let("NEWLOCK", "lockuptypes.NewPeriodLock(add(lockupkeeper.Keeper.GetLastLockID(k,ctx),1),owner,\"\",duration,_,coins)")
	c.CheckedCall(K+"CreateLockNoSend", "lockupkeeper.Keeper.lock", []string{"k", "ctx", "{NEWLOCK}", "{NEWLOCK}.Coins"}, "new lock is for (owner, duration, coins) with the next id, and all of its coins are accumulated", "")
	c.CheckedCall(K+"CreateLockNoSend", "lockupkeeper.Keeper.addLockRefs", []string{"k", "ctx", "{NEWLOCK}"}, "new lock is indexed", "")
	c.HasCall(K+"CreateLockNoSend", "lockupkeeper.Keeper.SetLastLockID", []string{"k", "ctx", "{NEWLOCK}.ID"}, true, "last lock id advances to the new lock's id", "")

	c.FailsWhen(K+"AddTokensToLockByID", "ne({LOCKBYID}.Owner, sdk.AccAddress.String(owner))", "only the owner may add to a lock", rules.GuardOpt{Before: "lockuptypes.BankKeeper.SendCoinsFromAccountToModule|lockupkeeper.Keeper.lock"})
	c.StoreField(K+"AddTokensToLockByID", "Coins", "sdk.Coins.Add({LOCKBYID}.Coins, tokensToAdd)", "lock's coins grow by exactly the added coin")
	c.CheckedCall(K+"AddTokensToLockByID", "lockuptypes.BankKeeper.SendCoinsFromAccountToModule", []string{"k.bk", "ctx", "owner", "@lockuptypes.ModuleName", "sdk.NewCoins(tokensToAdd)"}, "exactly the added coin is moved from the owner into the module account", "")
	c.CheckedCall(K+"AddTokensToLockByID", "lockupkeeper.Keeper.lock", []string{"k", "ctx", "{LOCKBYID}", "sdk.NewCoins(tokensToAdd)"}, "the updated lock is stored and the accumulation grows by the added coin only", "")

	// ---- beginUnlock ------------------------------------------------------------------------------
	c.FailsWhen(K+"beginUnlock", "not(sdk.Coins.IsAllLTE(coins, lock.Coins))", "cannot begin unlocking more than is locked", rules.GuardOpt{Before: "lockupkeeper.Keeper.setLock|lockupkeeper.Keeper.SplitLock"})
	c.FailsWhen(K+"beginUnlock", "lockuptypes.PeriodLock.IsUnlocking(lock)", "a lock that is already unlocking cannot begin unlocking again", rules.GuardOpt{Before: "lockupkeeper.Keeper.setLock|lockupkeeper.Keeper.SplitLock"})
	c.Let("CURLOCK", "each(alt(lock, lockupkeeper.Keeper.SplitLock(k,ctx,lock,coins,false)#0))")
	c.StoreField(K+"beginUnlock", "EndTime", "time.Time.Add(sdk.Context.BlockTime(ctx), each(alt(lock.Duration, lockupkeeper.Keeper.SplitLock(k,ctx,lock,coins,false)#0.Duration)))", "unlock end time = block time at begin-unlock + the lock's duration")
	c.StoreOrder(K+"beginUnlock", "EndTime", "lockupkeeper.Keeper.deleteLockRefs", []string{"lockupkeeper.Keeper.setLock", "lockupkeeper.Keeper.addLockRefs"}, "old index entries are removed before the end time changes; record and new index entries are written after")
	c.CheckedCall(K+"beginUnlock", "lockupkeeper.Keeper.deleteLockRefs", []string{"k", "ctx", "@lockuptypes.KeyPrefixNotUnlocking", "{CURLOCK}"}, "the not-unlocking index entries of the (possibly split) lock are removed", "")
	c.CheckedCall(K+"beginUnlock", "lockupkeeper.Keeper.setLock", []string{"k", "ctx", "{CURLOCK}"}, "record is stored", "")
	c.CheckedCall(K+"beginUnlock", "lockupkeeper.Keeper.addLockRefs", []string{"k", "ctx", "{CURLOCK}"}, "unlocking index entries are added", "")
	c.OnlyWhen(K+"beginUnlock", "lockupkeeper.Keeper.SplitLock", "not(sdk.Coins.Equal(coins, lock.Coins))", "a lock is split only for a partial unlock")
	c.FailsWhen(K+"BeginUnlock", "lockupkeeper.Keeper.HasAnySyntheticLockups(k,ctx,{LOCKBYID}.ID)", "a lock with a synthetic (superfluid) lock cannot start unlocking", rules.GuardOpt{Before: "lockupkeeper.Keeper.beginUnlock"})
	c.CallArg(K+"BeginUnlock", "lockupkeeper.Keeper.beginUnlock", 2, "{LOCKBYID}", "begin-unlock acts on the lock that was checked")
	c.CallArg(K+"BeginForceUnlock", "lockupkeeper.Keeper.beginUnlock", 2, "{LOCKBYID}", "force begin-unlock acts on the lock with the requested id")

	// beginForceUnlockWithEndTime
	const BF = K + "beginForceUnlockWithEndTime"
	c.StoreOrder(BF, "EndTime", "lockupkeeper.Keeper.deleteLockRefs", []string{"lockupkeeper.Keeper.setLock", "lockupkeeper.Keeper.addLockRefs"}, "index entries are swapped around the end-time change")
	c.CheckedCall(BF, "lockupkeeper.Keeper.deleteLockRefs", []string{"k", "ctx", "@lockuptypes.KeyPrefixNotUnlocking", "lock"}, "old index entries removed", "")

	// ---- UnlockMaturedLock -----------------------------------------------------------------------
	const UM = K + "UnlockMaturedLock"
	c.FailsWhen(UM, "not(lockuptypes.PeriodLock.IsUnlocking({LOCKBYID}))", "only a lock that started unlocking can be unlocked", rules.GuardOpt{Before: "lockupkeeper.Keeper.unlockMaturedLockInternalLogic"})
	c.FailsWhen(UM, "lt(sdk.Context.BlockTime(ctx), {LOCKBYID}.EndTime)", "coins never return before unlock start + duration (end time), compared with block time", rules.GuardOpt{Before: "lockupkeeper.Keeper.unlockMaturedLockInternalLogic"})
	c.CallArg(UM, "lockupkeeper.Keeper.unlockMaturedLockInternalLogic", 2, "{LOCKBYID}", "the lock that is paid out is the one that was checked")

	// ---- unlockMaturedLockInternalLogic ------------------------------------------------------------
	const UI = K + "unlockMaturedLockInternalLogic"
	c.CallArg(UI, "lockuptypes.BankKeeper.SendCoinsFromModuleToAccount", 3, "sdk.AccAddressFromBech32(lock.Owner)#0", "coins return to the lock's owner only")
	c.CallArg(UI, "lockuptypes.BankKeeper.SendCoinsFromModuleToAccount", 2, "@lockuptypes.ModuleName", "coins come from the lockup module account")
	c.CallArg(UI, "lockuptypes.BankKeeper.SendCoinsFromModuleToAccount", 4, "phi(sdk.NewCoins(), sdk.Coins.Add(#self, elem(lock.Coins)))", "exactly the lock's (non-CL-share) coins are returned")
	c.CallArg(UI, "lockuptypes.BankKeeper.BurnCoins", 3, "sdk.NewCoins(elem(lock.Coins))", "burned coins are coins of the lock")
	c.OnlyWhen(UI, "lockuptypes.BankKeeper.BurnCoins", "strings.HasPrefix(elem(lock.Coins).Denom, \"cl/pool\")", "only concentrated-liquidity share coins are burned instead of returned")
	c.HasCall(UI, "lockupkeeper.Keeper.deleteLock", []string{"k", "ctx", "lock.ID"}, true, "the lock record disappears", "")
	c.CheckedCall(UI, "lockupkeeper.Keeper.deleteLockRefs", []string{"k", "ctx", "@lockuptypes.KeyPrefixUnlocking", "lock"}, "the unlocking index entries disappear", "")
	c.CallArg(UI, "sumtree.Tree.Decrease", 0, "{ACC}(k,ctx,elem(lock.Coins).Denom)", "accumulation store of the coin's denom")
	c.CallArg(UI, "sumtree.Tree.Decrease", 1, "{AKEY}(lock.Duration)", "accumulation key is the lock's duration")
	c.CallArg(UI, "sumtree.Tree.Decrease", 2, "elem(lock.Coins).Amount", "accumulation shrinks by exactly the unlocked amount")
	c.NoCall(UI, "sumtree.Tree.Increase", "unlocking never increases an accumulation")
	c.HasCall(UI, "sumtree.Tree.Decrease", nil, false, "accumulation is decreased", "exists")
	c.ForEach(UI, "sumtree.Tree.Decrease", "lock.Coins", "every coin of the unlocked lock (returned or burned) leaves the accumulation", false)

	// ---- ForceUnlock -------------------------------------------------------------------------------
	const FU = K + "ForceUnlock"
	c.CallArg(FU, "lockupkeeper.Keeper.unlockMaturedLockInternalLogic", 2, "lockupkeeper.Keeper.GetLockByID(k,ctx,lock.ID)#0", "force unlock pays out the stored lock with the given id")
	c.FreshRead(FU, "lockupkeeper.Keeper.GetLockByID", "lockupkeeper.Keeper.BeginUnlock|lockupkeeper.Keeper.beginUnlock|lockupkeeper.Keeper.BeginForceUnlock|lockupkeeper.Keeper.setLock", "lockupkeeper.Keeper.unlockMaturedLockInternalLogic", 2, "the lock paid out is re-read after begin-unlock changed its end time (index entries are deleted under the stored end time)")
	c.CallArg(FU, "lockupkeeper.Keeper.BeginUnlock", 2, "lock.ID | lockupkeeper.Keeper.GetLockByID(k,ctx,lock.ID)#0.ID", "the lock moved to unlocking is the one being force-unlocked")
	c.OnlyWhen(FU, "lockupkeeper.Keeper.BeginUnlock", "not(lockuptypes.PeriodLock.IsUnlocking(lock)) | not(lockuptypes.PeriodLock.IsUnlocking(lockupkeeper.Keeper.GetLockByID(k,ctx,lock.ID)#0))", "begin-unlock runs only for a lock that is not yet unlocking")

	// ---- ExtendLockup ----------------------------------------------------------------------------------
	const EX = K + "ExtendLockup"
	c.FailsWhen(EX, "ne({LOCKBYID}.Owner, sdk.AccAddress.String(owner))", "only the owner may extend", rules.GuardOpt{Before: "lockupkeeper.Keeper.deleteLockRefs|lockupkeeper.Keeper.setLock"})
	c.FailsWhen(EX, "lockuptypes.PeriodLock.IsUnlocking({LOCKBYID})", "an unlocking lock cannot be extended", rules.GuardOpt{Before: "lockupkeeper.Keeper.deleteLockRefs|lockupkeeper.Keeper.setLock"})
	c.FailsWhen(EX, "lockupkeeper.Keeper.HasAnySyntheticLockups(k,ctx,{LOCKBYID}.ID)", "a lock with synthetic locks cannot be extended", rules.GuardOpt{Before: "lockupkeeper.Keeper.deleteLockRefs|lockupkeeper.Keeper.setLock"})
	c.FailsWhen(EX, "le(newDuration, {LOCKBYID}.Duration)", "a lock can only be extended to a strictly longer duration", rules.GuardOpt{Conditional: true, Before: "sumtree.Tree.Decrease|sumtree.Tree.Increase"})
	c.CallArg(EX, "sumtree.Tree.Decrease", 1, "{AKEY}({LOCKBYID}.Duration)", "old duration bucket shrinks")
	c.CallArg(EX, "sumtree.Tree.Decrease", 2, "elem({LOCKBYID}.Coins).Amount", "by the lock's amount")
	c.CallArg(EX, "sumtree.Tree.Decrease", 0, "{ACC}(k,ctx,elem({LOCKBYID}.Coins).Denom)", "in the coin's denom store")
	c.CallArg(EX, "sumtree.Tree.Increase", 1, "{AKEY}(newDuration)", "new duration bucket grows")
	c.CallArg(EX, "sumtree.Tree.Increase", 2, "elem({LOCKBYID}.Coins).Amount", "by the same amount")
	c.CallArg(EX, "sumtree.Tree.Increase", 0, "{ACC}(k,ctx,elem({LOCKBYID}.Coins).Denom)", "in the same denom store")
	c.ForEach(EX, "sumtree.Tree.Decrease", "{LOCKBYID}.Coins", "every coin of the extended lock leaves the old duration bucket", true)
	c.ForEach(EX, "sumtree.Tree.Increase", "{LOCKBYID}.Coins", "every coin of the extended lock enters the new duration bucket", true)
	c.StoreField(EX, "Duration", "newDuration", "the record takes the new duration")
	c.StoreOrder(EX, "Duration", "lockupkeeper.Keeper.deleteLockRefs", []string{"lockupkeeper.Keeper.addLockRefs", "lockupkeeper.Keeper.setLock"}, "index entries for the old duration are removed before, entries for the new one and the record are written after the change")
	c.Order(EX, "sumtree.Tree.Decrease", "sumtree.Tree.Increase", "decrease(old) precedes increase(new)")

	// ---- removeTokensFromLock (slash) ---------------------------------------------------------------------
	const RM = K + "removeTokensFromLock"
	c.StoreField(RM, "Coins", "sdk.Coins.Sub(lock.Coins, coins)", "the record loses exactly the slashed coins")
	c.CallWhere(RM, "sumtree.Tree.Decrease", 1, "{AKEY}(lock.Duration)", 2, "elem(coins).Amount", "accumulation of the lock's duration shrinks by the slashed amount", "native")
	c.CallWhere(RM, "sumtree.Tree.Decrease", 1, "{AKEY}(lock.Duration)", 0, "{ACC}(k,ctx,elem(coins).Denom)", "in the slashed coin's denom store", "native-store")
	c.ForEach(RM, "sumtree.Tree.Decrease", "coins", "every slashed coin leaves the accumulation", false)
	c.CheckedCall(RM, "lockupkeeper.Keeper.setLock", []string{"k", "ctx", "lock"}, "the reduced record is stored", "")

	// ---- SplitLock -------------------------------------------------------------------------------------------
	const SP = K + "SplitLock"
	c.StoreField(SP, "Coins", "sdk.Coins.Sub(lock.Coins, coins)", "the original lock keeps the remainder")
	c.HasCall(SP, "lockuptypes.NewPeriodLock", []string{"add(lockupkeeper.Keeper.GetLastLockID(k,ctx),1)", "lockuptypes.PeriodLock.OwnerAddress(lock)", "lock.RewardReceiverAddress", "lock.Duration", "lock.EndTime", "coins"}, true, "the split-off lock has a fresh id, the same owner, receiver, duration and end time, and exactly the split coins", "")
	c.FailsWhen(SP, "lockuptypes.PeriodLock.IsUnlocking(lock)", "an unlocking lock is split only by force-unlock", rules.GuardOpt{Context: []string{"not(forceUnlock)"}, Conditional: true})
	c.HasCall(SP, "lockupkeeper.Keeper.SetLastLockID", []string{"k", "ctx", "add(lockupkeeper.Keeper.GetLastLockID(k,ctx),1)"}, true, "the id counter advances", "")

	// ---- index key symmetry -------------------------------------------------------------------------------------
	const R = "x/lockup/keeper."
	c.CallArg(K+"deleteLockRefs", "lockupkeeper.Keeper.deleteLockRefByKey", 2, "lockupkeeper.combineKeys(lockRefPrefix, elem(lockupkeeper.lockRefKeys(lock)#0))", "every reference key of the lock is deleted under the given prefix")
	c.CallArg(K+"deleteLockRefs", "lockupkeeper.Keeper.deleteLockRefByKey", 3, "lock.ID", "the entry deleted is this lock's id")
	c.CallArg(K+"addLockRefs", "lockupkeeper.Keeper.addLockRefByKey", 2, "lockupkeeper.combineKeys(lockupkeeper.unlockingPrefix(lockuptypes.PeriodLock.IsUnlocking(lock)), elem(phi(lockupkeeper.durationLockRefKeys(lock)#0, lockupkeeper.lockRefKeys(lock)#0)))", "reference keys are added under the prefix matching the lock's unlocking state; unlocking locks also get time keys")
	c.CallArg(K+"addLockRefs", "lockupkeeper.Keeper.addLockRefByKey", 3, "lock.ID", "the entry added is this lock's id")
	c.OnlyWhen(K+"addLockRefs", "lockupkeeper.lockRefKeys", "lockuptypes.PeriodLock.IsUnlocking(lock)", "time-indexed keys are added exactly for unlocking locks")
	c.HasCall(R+"lockRefKeys", "lockupkeeper.durationLockRefKeys", []string{"lock"}, true, "time keys extend the duration keys (delete ⊇ add)", "")
	c.Returns(R+"lockRefKeys", 0, "has(lockupkeeper.durationLockRefKeys(lock)#0)", "the returned key set contains the duration keys", "")
	c.Returns(R+"unlockingPrefix", 0, "@lockuptypes.KeyPrefixUnlocking | @lockuptypes.KeyPrefixNotUnlocking", "prefix is one of the two index prefixes", "")
	c.OnlyWhenReturn(R+"unlockingPrefix", "@lockuptypes.KeyPrefixUnlocking", "isUnlocking", "unlocking prefix only if the lock is unlocking")
	c.OnlyWhenReturn(R+"unlockingPrefix", "@lockuptypes.KeyPrefixNotUnlocking", "not(isUnlocking)", "not-unlocking prefix only if the lock is not unlocking")

	// ---- who may write ---------------------------------------------------------------------------------------------
	c.WhoMayCall(K+"unlockMaturedLockInternalLogic", []string{"lockupkeeper.Keeper.UnlockMaturedLock", "lockupkeeper.Keeper.ForceUnlock"}, "coins leave a lock only through the matured-unlock check or force unlock")
	c.WhoMayCall(K+"beginUnlock", []string{"lockupkeeper.Keeper.BeginUnlock", "lockupkeeper.Keeper.BeginForceUnlock"}, "begin-unlock internals are reached only through the two entry points")
	c.WhoMayCall(K+"deleteLock", []string{"lockupkeeper.Keeper.unlockMaturedLockInternalLogic", "lockupkeeper.AdminKeeper.BreakLock", "lockupkeeper.MergeLockupsForSimilarDurations"}, "lock records are deleted only by unlock, admin break and the migration")
	c.WhoMayCall(K+"deleteLockRefByKey", []string{"lockupkeeper.Keeper.deleteLockRefs", "lockupkeeper.Keeper.deleteSyntheticLockRefs", "lockupkeeper.AdminKeeper.BreakLock"}, "index entries are deleted only by the ref helpers")
	c.WhoMayCall(K+"addLockRefByKey", []string{"lockupkeeper.Keeper.addLockRefs", "lockupkeeper.Keeper.addSyntheticLockRefs"}, "index entries are added only by the ref helpers")
	c.WhoMayCall(K+"ForceUnlock", []string{"lockupkeeper.Keeper.PartialForceUnlock", "superfluidkeeper.Keeper.UnpoolAllowedPools", "superfluidkeeper.Keeper.addToConcentratedLiquiditySuperfluidPosition",
		"superfluidkeeper.Keeper.forceUnlockAndExitBalancerPool", "valsetpref.Keeper.ForceUnlockBondedOsmo"}, "force unlock (bypasses the time lock) is reachable only from the listed privileged flows")
	c.WhoMayCall(K+"BeginForceUnlock", []string{"cl.Keeper.CreateFullRangePositionUnlocking", "superfluidkeeper.Keeper.UnpoolAllowedPools", "superfluidkeeper.Keeper.unbondLock"}, "forced begin-unlock (bypasses the synthetic-lock check) only from the listed flows")
	c.WhoMayCall(K+"PartialForceUnlock", []string{"lockupkeeper.msgServer.ForceUnlock"}, "partial force unlock only from the allow-listed message")

	// ---- msg server: actor is the message's owner ----------------------------------------------------------------------
	const MS = "x/lockup/keeper.msgServer."
	c.CallArg(MS+"BeginUnlocking", "lockupkeeper.Keeper.GetLockByID", 2, "msg.ID", "the message's lock is fetched")
	c.FailsWhen(MS+"BeginUnlocking", "ne(msg.Owner, lockupkeeper.Keeper.GetLockByID(server.keeper,sdk.UnwrapSDKContext(goCtx),msg.ID)#0.Owner)", "only the owner can begin unlocking", rules.GuardOpt{Before: "lockupkeeper.Keeper.BeginUnlock"})
	c.CallArg(MS+"ExtendLockup", "lockupkeeper.Keeper.ExtendLockup", 3, "sdk.AccAddressFromBech32(msg.Owner)#0", "the actor passed to ExtendLockup is the message's signer")
	c.CallArg(MS+"ExtendLockup", "lockupkeeper.Keeper.ExtendLockup", 2, "msg.ID", "on the message's lock")
	c.CallArg(MS+"SetRewardReceiverAddress", "lockupkeeper.Keeper.SetLockRewardReceiverAddress", 3, "sdk.AccAddressFromBech32(msg.Owner)#0", "the actor passed is the message's signer")
	c.FailsWhen(K+"SetLockRewardReceiverAddress", "ne({LOCKBYID}.Owner, sdk.AccAddress.String(owner))", "only the owner may redirect rewards", rules.GuardOpt{Before: "lockupkeeper.Keeper.setLock"})
	lockupForceUnlockRules(c)
	lockupKeyRules(c)
	lockupGenesisAccumulationRules(c)
	// ---- readers and writers of the reference indexes agree on the key layout ------------------------------------
	lockIndexAgreement(c)
	c.WhoMayCall(K+"LockIteratorDenom", []string{}, "the prefix-only denom iterator (no separator after the denom: gamm/pool/1 would also match gamm/pool/10) has no caller")
	c.WhoMayCall(K+"AccountLockIteratorDenom", []string{}, "the prefix-only account+denom iterator has no caller")
	c.Returns(K+"iteratorLongerDuration", 0, "storetypes.KVStore.Iterator(sdk.Context.KVStore(ctx,k.storeKey), lockupkeeper.combineKeys(prefix, lockupkeeper.getDurationKey(duration)), storetypes.PrefixEndBytes(prefix))", "longer-than-duration scan: from prefix|sep|duration to the end of the prefix (the separator after the last component excludes longer denoms)", "")
	c.Returns(K+"iteratorDuration", 0, "storetypes.KVStorePrefixIterator(sdk.Context.KVStore(ctx,k.storeKey), lockupkeeper.combineKeys(prefix, lockupkeeper.getDurationKey(duration)))", "exact-duration scan: prefix|sep|duration", "")
	c.Returns(K+"iteratorShorterDuration", 0, "storetypes.KVStore.Iterator(sdk.Context.KVStore(ctx,k.storeKey), prefix, lockupkeeper.combineKeys(prefix, lockupkeeper.getDurationKey(duration)))", "shorter-than-duration scan: from the prefix up to prefix|sep|duration", "")
	c.Returns(K+"iteratorAfterTime", 0, "storetypes.KVStore.Iterator(sdk.Context.KVStore(ctx,k.storeKey), storetypes.PrefixEndBytes(lockupkeeper.combineKeys(prefix, lockupkeeper.getTimeKey(time))), storetypes.PrefixEndBytes(prefix))", "after-time scan: strictly after prefix|sep|time", "")
	c.Returns(K+"iteratorBeforeTime", 0, "storetypes.KVStore.Iterator(sdk.Context.KVStore(ctx,k.storeKey), prefix, storetypes.PrefixEndBytes(lockupkeeper.combineKeys(prefix, lockupkeeper.getTimeKey(maxTime))))", "before-time scan: up to and including prefix|sep|time", "")
}

// lockIndexAgreement: every index iterator of iterator.go scans a key layout (index prefix, components in order, final
// duration-or-time key) that one of the reference-key writers (durationLockRefKeys, lockRefKeys, syntheticLockRefKeys)
// produces; the unlocking/not-unlocking prefix comes first on both sides.
func lockIndexAgreement(c *rules.Ctx) {
	classify := func(t *ir.Term) string {
		s := t.String()
		switch {
		case strings.Contains(s, "getDurationKey"):
			return "dur"
		case strings.Contains(s, "getTimeKey"):
			return "time"
		case strings.Contains(s, "AccAddressFromBech32") || s == "addr":
			return "addr"
		case strings.HasSuffix(s, "Denom") || s == "denom":
			return "denom"
		case strings.HasPrefix(s, "@lockuptypes.KeyPrefix"):
			return strings.TrimPrefix(s, "@lockuptypes.")
		case strings.HasPrefix(s, "lockupkeeper.unlockingPrefix("):
			return "unlocking"
		}
		return "?" + s
	}
	writers := map[string]bool{}
	for _, w := range []string{"durationLockRefKeys", "lockRefKeys", "syntheticLockRefKeys"} {
		f := c.Fn("x/lockup/keeper." + w)
		if f == nil {
			continue
		}
		for _, call := range f.CallsTo("lockupkeeper.combineKeys") {
			var parts []string
			for _, a := range f.CallArgs(call) {
				parts = append(parts, classify(a))
			}
			writers[strings.Join(parts, "|")] = true
		}
	}
	var ws []string
	for w := range writers {
		ws = append(ws, w)
	}
	sort.Strings(ws)
	c.Record("S", "x/lockup/keeper.lockRefKeys", "layouts", "the reference-key writers produce the eight index layouts", len(ws) == 8, strings.Join(ws, " ; "), "")
	final := map[string]string{"lockupkeeper.Keeper.iteratorAfterTime": "time", "lockupkeeper.Keeper.iteratorBeforeTime": "time", "lockupkeeper.Keeper.iteratorDuration": "dur",
		"lockupkeeper.Keeper.iteratorLongerDuration": "dur", "lockupkeeper.Keeper.iteratorShorterDuration": "dur"}
	n := 0
	for _, fn := range c.P.AllFuncs() {
		name := ir.FuncName(fn)
		if !strings.HasPrefix(name, "lockupkeeper.Keeper.") || !strings.Contains(name, "LockIterator") || fn.Parent() != nil || !strings.HasSuffix(c.P.File(fn.Pos()), "x/lockup/keeper/iterator.go") {
			continue
		}
		f := c.Wrap(fn)
		for _, b := range fn.Blocks {
			ret, ok := b.Instrs[len(b.Instrs)-1].(*ssa.Return)
			if !ok || len(ret.Results) == 0 {
				continue
			}
			call, ok := ret.Results[0].(*ssa.Call)
			if !ok {
				continue
			}
			kind, known := final[f.CalleeName(call)]
			if !known {
				continue // prefix-only iterators are covered by the who-may-call rules
			}
			n++
			args := f.CallArgs(call)
			okLayout, detail := false, "prefix argument is not a combineKeys call"
			if len(args) >= 3 && args[2].Op == "call" && args[2].Name == "lockupkeeper.combineKeys" {
				var parts []string
				for _, a := range args[2].Args {
					parts = append(parts, classify(a))
				}
				detail = strings.Join(parts, "|") + "|" + kind
				if len(parts) >= 2 && parts[0] == "unlocking" {
					okLayout = writers[strings.Join(parts[1:], "|")+"|"+kind]
				}
			}
			c.Record("S", name, "layout", "the iterator scans a key layout that the reference-key writers produce (same index prefix, same component order, duration or time key last, unlocking prefix first)", okLayout, detail, c.P.Rel(fn.Pos()))
		}
	}
	c.Record("S", "x/lockup/keeper/iterator.go", "count", "index iterators found", n >= 14, fmt.Sprintf("%d iterators checked against %d writer layouts", n, len(ws)), "")
}
