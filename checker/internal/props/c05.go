package props

import "osmolint/internal/rules"

func init() {
	register(&Prop{
		ID: "C05",
		Explanation: "Router: decides that (a) the execution hop and the estimate hop apply the taker-fee function of the same direction to the same (in-denom, out-denom) pair, take the spread factor from the pool, and chain each hop's output coin into the next hop; " +
			"(b) every swap entry that takes a caller limit (minimum out / maximum in) returns only values that were compared with that limit on a failing branch, or that come unmodified from a callee that received the limit (rule L); the inner hops get the neutral limit and only the last hop the caller's; " +
			"(c) split routes pass a neutral per-leg limit, sum their legs and compare the sum; (d) the amount charged by the taker-fee step depends only on quantities the estimate also has (bypass agreement).",
		NotCovered:  []string{"'exactly the result of performing the hops one after another' as a value statement across pool types", "estimates leave state untouched for cosmwasm pools", "routes visiting a pool twice"},
		Assumptions: []string{"pool modules implement PoolModuleI as specified (checked for gamm and concentrated-liquidity entries here)", "SDK transaction atomicity"},
		MinObl:      126,
		Run:         runC05,
	})
}

func runC05(c *rules.Ctx) {
	const K = "x/poolmanager.Keeper."
	c.Let("MP", "poolmanager.Keeper.GetPoolModuleAndPool(k,ctx,poolId)")
	c.Let("CHARGE_IN", "poolmanager.Keeper.chargeTakerFee(k,ctx,tokenIn,tokenOutDenom,sender,true)")

	// ---- single hop execution (exact in) -------------------------------------------------------------
	const SI = K + "SwapExactAmountIn"
	c.FailsWhen(SI, "not(poolmanagertypes.PoolI.IsActive({MP}#1, ctx))", "inactive pools cannot be swapped against", rules.GuardOpt{Before: "poolmanager.Keeper.chargeTakerFee|poolmanagertypes.PoolModuleI.SwapExactAmountIn"})
	c.CheckedCall(SI, "poolmanager.Keeper.chargeTakerFee", []string{"k", "ctx", "tokenIn", "tokenOutDenom", "sender", "true"}, "the taker fee is charged on the caller's token-in for the pair (in denom, out denom), exact-in direction", "")
	c.CallArg(SI, "poolmanagertypes.PoolModuleI.SwapExactAmountIn", 4, "{CHARGE_IN}#0", "the pool receives token-in after the taker fee, never the original amount")
	c.CallArg(SI, "poolmanagertypes.PoolModuleI.SwapExactAmountIn", 0, "{MP}#0", "the swap runs on the module that owns the pool")
	c.CallArg(SI, "poolmanagertypes.PoolModuleI.SwapExactAmountIn", 3, "{MP}#1", "on the pool with the requested id")
	c.CallArg(SI, "poolmanagertypes.PoolModuleI.SwapExactAmountIn", 5, "tokenOutDenom", "for the requested out denom")
	c.CallArg(SI, "poolmanagertypes.PoolModuleI.SwapExactAmountIn", 6, "tokenOutMinAmount", "with the caller's minimum")
	c.CallArg(SI, "poolmanagertypes.PoolModuleI.SwapExactAmountIn", 7, "poolmanagertypes.PoolI.GetSpreadFactor({MP}#1, ctx)", "with the pool's own spread factor")
	c.Returns(SI, 0, "poolmanagertypes.PoolModuleI.SwapExactAmountIn(...)#0", "the hop returns exactly what the pool returned", "/out")
	c.Returns(SI, 1, "{CHARGE_IN}#1", "and the taker fee that was charged", "/fee")
	c.LimitChecked(SI, 0, "tokenOutMinAmount", "min", "", "the single-hop result is produced by the pool module that received the caller's minimum")

	// ---- multi-hop execution (exact in) ----------------------------------------------------------------
	const RI = K + "RouteExactAmountIn"
	c.Let("HOP_IN", "poolmanager.Keeper.SwapExactAmountIn(k,ctx,sender,elem(route).PoolId,_,elem(route).TokenOutDenom,_)")
	c.CallArg(RI, "poolmanager.Keeper.SwapExactAmountIn", 4, "phi(tokenIn, sdk.NewCoin(elem(route).TokenOutDenom, poolmanager.Keeper.SwapExactAmountIn(k,ctx,sender,elem(route).PoolId,#self,elem(route).TokenOutDenom,_)#0))",
		"the first hop swaps the caller's token-in, every later hop swaps exactly (out denom, out amount) of the previous hop")
	c.CallArg(RI, "poolmanager.Keeper.SwapExactAmountIn", 5, "elem(route).TokenOutDenom", "each hop targets the step's out denom")
	c.CallArg(RI, "poolmanager.Keeper.SwapExactAmountIn", 3, "elem(route).PoolId", "on the step's pool")
	c.CallArg(RI, "poolmanager.Keeper.SwapExactAmountIn", 6, "phi(sdkmath.NewInt(1), tokenOutMinAmount)", "inner hops get the neutral minimum 1, the caller's minimum is used otherwise")
	c.CallArgCase(RI, "poolmanager.Keeper.SwapExactAmountIn", 6, "eq(sub(len(route),1), add(phi(-1,add(#self,1)),1))", "tokenOutMinAmount", true, "the caller's minimum is applied on the last hop and only there")
	c.LimitChecked(RI, 0, "tokenOutMinAmount", "min", "nil", "the routed result is the last hop's result, which received the caller's minimum")
	c.CheckedCall(RI, "poolmanager.Keeper.TakerFeeSkim", nil, "collected taker fees are processed; failure fails the swap", "")
	c.CheckedCall(RI, "poolmanagertypes.SwapAmountInRoutes.Validate", []string{"route"}, "routes are validated first", "")

	// ---- estimate (exact in) ------------------------------------------------------------------------------
	const EI = K + "multihopEstimateOutGivenExactAmountInInternal"
	c.Let("EPOOL", "poolmanager.Keeper.GetPoolModuleAndPool(k,ctx,elem(route).PoolId)")
	c.CallArg(EI, "poolmanagertypes.PoolModuleI.CalcOutAmtGivenIn", 5, "poolmanagertypes.PoolI.GetSpreadFactor({EPOOL}#1, ctx)", "the estimate uses the pool's own spread factor, like the execution")
	c.CallArg(EI, "poolmanagertypes.PoolModuleI.CalcOutAmtGivenIn", 4, "elem(route).TokenOutDenom", "for the step's out denom")
	c.CallArg(EI, "poolmanagertypes.PoolModuleI.CalcOutAmtGivenIn", 0, "{EPOOL}#0", "on the owning module")
	c.CallArg(EI, "poolmanagertypes.PoolModuleI.CalcOutAmtGivenIn", 2, "{EPOOL}#1", "and pool")
	c.OnlyWhen(EI, "poolmanager.CalcTakerFeeExactIn", "applyTakerFee", "the estimate deducts the taker fee exactly when asked to")
	c.CallArg(EI, "poolmanager.CalcTakerFeeExactIn", 1, "poolmanager.Keeper.GetTradingPairTakerFee(k,ctx,_,elem(route).TokenOutDenom)#0", "with the trading-pair fee for (current in denom, step out denom) — the same pair the execution charges")
	c.CallArg(EI, "poolmanager.Keeper.GetTradingPairTakerFee", 2, "phi(tokenIn.Denom, elem(route).TokenOutDenom)", "in denom = the caller's for the first hop, the previous step's out denom afterwards")
	c.CallArg(EI, "poolmanagertypes.PoolModuleI.CalcOutAmtGivenIn", 3, "has(poolmanager.CalcTakerFeeExactIn(_, poolmanager.Keeper.GetTradingPairTakerFee(...)#0)#0)", "the pool calculation is fed the amount after the taker fee")

	// ---- exact out ------------------------------------------------------------------------------------------
	const RO = K + "RouteExactAmountOut"
	const CM = K + "createMultihopExpectedSwapOuts"
	c.Let("OPOOL", "poolmanager.Keeper.GetPoolModuleAndPool(k,ctx,elem(route).PoolId)")
	c.CheckedCall(RO, "poolmanager.Keeper.createMultihopExpectedSwapOuts", []string{"k", "ctx", "route", "tokenOut"}, "execution pre-computes the per-hop inputs with the shared estimator", "")
	c.Returns(K+"MultihopEstimateInGivenExactAmountOut", 0, "idx(poolmanager.Keeper.createMultihopExpectedSwapOuts(k,ctx,route,tokenOut)#0,0) | nil | zero:Int()", "the estimate is the first element computed by the same shared estimator (estimate = execution by construction)", "")
	c.CallArg(CM, "poolmanager.Keeper.GetTradingPairTakerFee", 2, "elem(route).TokenInDenom", "the estimator's fee pair is (step in denom, current out denom)")
	c.CallArg(CM, "poolmanagertypes.PoolModuleI.CalcInAmtGivenOut", 5, "poolmanagertypes.PoolI.GetSpreadFactor({OPOOL}#1, ctx)", "with the pool's own spread factor")
	c.CallArg(CM, "poolmanagertypes.PoolModuleI.CalcInAmtGivenOut", 4, "elem(route).TokenInDenom", "for the step's in denom")
	c.CallArg(CM, "poolmanager.CalcTakerFeeExactOut", 1, "poolmanager.Keeper.GetTradingPairTakerFee(...)#0", "the exact-out fee formula is used with the pair's fee")
	c.CallArg(CM, "poolmanager.CalcTakerFeeExactOut", 0, "poolmanagertypes.PoolModuleI.CalcInAmtGivenOut(...)#0", "on the pool's required input")
	c.NoCall(CM, "poolmanager.CalcTakerFeeExactIn", "the exact-out estimator never uses the exact-in fee formula")
	c.CallArg(CM, "poolmanagertypes.PoolModuleI.CalcInAmtGivenOut", 3, "phi(tokenOut, poolmanager.CalcTakerFeeExactOut(_,_)#0)", "backward chaining: the previous hop must deliver this hop's input *including* its taker fee (the after-fee amount is what gets chained)")
	c.CallArg(RO, "poolmanager.Keeper.chargeTakerFee", 5, "false", "execution charges the exact-out direction")
	c.CallArg(RO, "poolmanager.Keeper.chargeTakerFee", 2, "sdk.NewCoin(elem(route).TokenInDenom, poolmanagertypes.PoolModuleI.SwapExactAmountOut(...)#0)", "on the amount the pool actually required")
	c.CallArg(RO, "poolmanagertypes.PoolModuleI.SwapExactAmountOut", 4, "elem(route).TokenInDenom", "each hop pays in the step's in denom")
	c.CallArg(RO, "poolmanagertypes.PoolModuleI.SwapExactAmountOut", 5, "elem(poolmanager.Keeper.createMultihopExpectedSwapOuts(k,ctx,route,tokenOut)#0)", "bounded by the pre-computed input (the caller's maximum for the first hop)")
	c.FailsWhen(RO, "not(poolmanagertypes.PoolI.IsActive({OPOOL}#1, ctx))", "inactive pools cannot be swapped against", rules.GuardOpt{Conditional: true, Before: "poolmanagertypes.PoolModuleI.SwapExactAmountOut"})
	c.LimitChecked(RO, 0, "tokenInMaxAmount", "max", "nil | local:tokenInAmount() | zero:Int()", "the amount actually charged (taker fee included) is compared with the caller's maximum")
	c.CheckedCallOpt(RO, "poolmanager.Keeper.TakerFeeSkim", nil, "collected taker fees are processed; failure fails the swap", "", false)

	// ---- split routes ---------------------------------------------------------------------------------------------
	const SPI = K + "SplitRouteExactAmountIn"
	const SPO = K + "SplitRouteExactAmountOut"
	c.CallArg(SPI, "poolmanager.Keeper.RouteExactAmountIn", 5, "sdkmath.ZeroInt()", "each leg runs with the neutral minimum; the limit applies to the sum")
	c.CallArg(SPI, "poolmanager.Keeper.RouteExactAmountIn", 4, "sdk.NewCoin(tokenInDenom, elem(routes).TokenInAmount)", "each leg swaps its own share of the token-in")
	c.Returns(SPI, 0, "phi(sdkmath.ZeroInt(), sdkmath.Int.Add(#self, poolmanager.Keeper.RouteExactAmountIn(...)#0))", "the result is the sum of the legs", "")
	c.LimitChecked(SPI, 0, "tokenOutMinAmount", "min", "", "the sum of the legs is compared with the caller's minimum")
	c.CallArg(SPO, "poolmanager.Keeper.RouteExactAmountOut", 4, "@poolmanager.intMaxValue", "each leg runs with the neutral maximum; the limit applies to the sum")
	c.CallArg(SPO, "poolmanager.Keeper.RouteExactAmountOut", 5, "sdk.NewCoin(tokenOutDenom, elem(route).TokenOutAmount)", "each leg buys its own share of the token-out")
	c.Returns(SPO, 0, "phi(sdkmath.ZeroInt(), sdkmath.Int.Add(#self, poolmanager.Keeper.RouteExactAmountOut(...)#0))", "the result is the sum of the legs", "")
	c.LimitChecked(SPO, 0, "tokenInMaxAmount", "max", "", "the sum of the legs is compared with the caller's maximum")

	// ---- pool modules' own limit checks -----------------------------------------------------------------------------------
	c.LimitChecked("x/gamm/keeper.Keeper.SwapExactAmountIn", 0, "tokenOutMinAmount", "min", "nil", "gamm: the amount paid out was compared with the minimum")
	c.LimitChecked("x/gamm/keeper.Keeper.SwapExactAmountOut", 0, "tokenInMaxAmount", "max", "nil", "gamm: the amount charged was compared with the maximum")
	c.LimitChecked("x/concentrated-liquidity.Keeper.SwapExactAmountIn", 0, "tokenOutMinAmount", "min", "nil", "concentrated: the amount paid out was compared with the minimum")
	c.LimitChecked("x/concentrated-liquidity.Keeper.SwapExactAmountOut", 0, "tokenInMaxAmount", "max", "nil", "concentrated: the amount charged was compared with the maximum")
	c.FailsWhen("x/gamm/keeper.Keeper.SwapExactAmountIn", "lt(gammtypes.CFMMPoolI.SwapOutAmtGivenIn(...)#0.Amount, tokenOutMinAmount)", "gamm: below-minimum output fails before the pool is updated", rules.GuardOpt{Before: "gammkeeper.Keeper.updatePoolForSwap"})
	c.FailsWhen("x/gamm/keeper.Keeper.SwapExactAmountOut", "gt(gammtypes.CFMMPoolI.SwapInAmtGivenOut(...)#0.Amount, tokenInMaxAmount)", "gamm: above-maximum input fails before the pool is updated", rules.GuardOpt{Before: "gammkeeper.Keeper.updatePoolForSwap"})

	// ---- concentrated hops: the estimate hop and the execution hop perform the same per-step transition
	clSwapLoopRules(c)
	gammSwapSettleRules(c)

	poolmanagerQueryRules(c)
	takerFeeArithmeticRules(c)
	poolModuleCacheRules(c)
	// ---- taker fee step --------------------------------------------------------------------------------------------------------
	const CH = K + "chargeTakerFee"
	c.Let("FEE", "poolmanager.Keeper.GetTradingPairTakerFee(k,ctx,tokenIn.Denom,tokenOutDenom)#0")
	c.HasCall(CH, "osmoutils.Contains", []string{"_", "sdk.AccAddress.String(sender)"}, true, "the reduced-fee whitelist is consulted for every charge, whatever the swap direction", "whitelist")
	c.OnlyWhenReturn(CH, "tokenIn", "osmoutils.Contains(_, sdk.AccAddress.String(sender))", "the fee is waived only for a whitelisted sender")
	c.OnlyWhen(CH, "poolmanager.CalcTakerFeeExactIn", "exactIn", "the exact-in formula is used for exact-in swaps")
	c.OnlyWhen(CH, "poolmanager.CalcTakerFeeExactOut", "not(exactIn)", "the exact-out formula is used for exact-out swaps")
	c.CallArg(CH, "poolmanagertypes.BankI.SendCoinsFromAccountToModule", 4, "sdk.NewCoins(phi(poolmanager.CalcTakerFeeExactIn(tokenIn,{FEE})#1, poolmanager.CalcTakerFeeExactOut(tokenIn,{FEE})#1))", "exactly the computed fee is moved to the collector")
	c.CallArg(CH, "poolmanagertypes.BankI.SendCoinsFromAccountToModule", 2, "sender", "from the trader")
	c.Returns(CH, 0, "phi(poolmanager.CalcTakerFeeExactIn(tokenIn,{FEE})#0, poolmanager.CalcTakerFeeExactOut(tokenIn,{FEE})#0)",
		"the amount that reaches the pool is a function of (token in, pair fee) only — quantities the estimate has too (bypass agreement between execution and estimate)", "/afterfee")
}
