package props

import "osmolint/internal/rules"

func init() {
	register(&Prop{
		ID: "C01",
		Explanation: "Concentrated-liquidity solvency, structural clauses: every place where a token amount crosses the pool boundary is rounded in the pool's favour (deposits and amounts charged with round-up operations only, withdrawals, amounts paid out, reward growth and claims with truncating operations only), " +
			"and every transfer out of a pool, spread-reward or incentive account is of exactly the amount the bookkeeping just computed, to the position owner, from the matching account; the set of functions that send coins from pool-owned accounts is closed. Round 8: a tick is reported empty (and deleted with its growth-outside snapshots) only when updated gross and net liquidity are both zero; every non-zero spread fee is collected.",
		NotCovered:  []string{"that accumulated dust over a history covers every claim (magnitude argument over histories)", "lock-bound positions", "negative interval accumulator values"},
		Assumptions: []string{"rounding classes of osmomath as proved by C12", "bank keeper SendCoins moves exactly the given coins or fails"},
		MinObl:      93,
		Run:         runC01,
	})
}

func runC01(c *rules.Ctx) {
	clTickEmptyRules(c)
	const M = "x/concentrated-liquidity/math."
	const K = "x/concentrated-liquidity.Keeper."
	const P = "x/concentrated-liquidity/model.Pool."
	// ---- math (shared with C03)
	for _, fn := range []string{"CalcAmount0Delta", "CalcAmount1Delta"} {
		c.RoundRegion(M+fn, "roundUp", "UP", nil, 2, "deposit direction: only round-up operations")
		c.RoundRegion(M+fn, "not(roundUp)", "DOWN", nil, 1, "withdraw direction: only truncating operations")
		c.RoundRegion(M+fn, "", "UP,DOWN", nil, 3, "no half-even operation in the amount formulas")
	}
	// ---- CalcActualAmounts: flag = sign of the liquidity delta, same flag everywhere
	const CA = P + "CalcActualAmounts"
	c.CallArgN(CA, "clmath.CalcAmount0Delta", 3, "sdkmath.LegacyDec.IsPositive(liquidityDelta)", "amount0 rounds up exactly when liquidity is added", 2, "")
	c.CallArgN(CA, "clmath.CalcAmount1Delta", 3, "sdkmath.LegacyDec.IsPositive(liquidityDelta)", "amount1 rounds up exactly when liquidity is added", 2, "")
	c.CallArgN(CA, "clmath.CalcAmount0Delta", 0, "liquidityDelta", "for the given liquidity delta", 2, "/liq")
	c.CallArgN(CA, "clmath.CalcAmount1Delta", 0, "liquidityDelta", "for the given liquidity delta", 2, "/liq")
	c.OnlyWhen(CA, "osmomath.BigDec.DecRoundUp", "sdkmath.LegacyDec.IsPositive(liquidityDelta)", "conversion to 18 decimals rounds up only when liquidity is added")
	c.OnlyWhen(CA, "osmomath.BigDec.Dec", "not(sdkmath.LegacyDec.IsPositive(liquidityDelta))", "and truncates when liquidity is removed")
	c.FailsWhen(CA, "sdkmath.LegacyDec.IsZero(liquidityDelta)", "a zero liquidity delta is rejected", rules.GuardOpt{})
	// ---- UpdatePosition → integer amounts
	c.Returns(K+"UpdatePosition", 0, "has(with:Amount0(_, sdkmath.LegacyDec.TruncateInt(cltypes.ConcentratedPoolExtension.CalcActualAmounts(...)#0)))", "amount0 of a position update is the truncated actual amount", "/0")
	c.Returns(K+"UpdatePosition", 0, "has(with:Amount1(_, sdkmath.LegacyDec.TruncateInt(cltypes.ConcentratedPoolExtension.CalcActualAmounts(...)#1)))", "amount1 of a position update is the truncated actual amount", "/1")
	// ---- deposits and withdrawals move exactly the computed amounts
	c.Let("UPD_C", "cl.Keeper.UpdatePosition(...)#0")
	c.CheckedCall(K+"CreatePosition", "cl.Keeper.sendCoinsBetweenPoolAndUser", []string{"k", "ctx", "_", "_", "{UPD_C}.Amount0", "{UPD_C}.Amount1", "owner", "cltypes.ConcentratedPoolExtension.GetAddress(_)"},
		"a deposit moves exactly the amounts of the position update from the owner to the pool account", "")
	c.Let("UPD_W", "cl.Keeper.UpdatePosition(...)#0")
	c.CheckedCall(K+"WithdrawPosition", "cl.Keeper.sendCoinsBetweenPoolAndUser", []string{"k", "ctx", "_", "_", "sdkmath.Int.Abs({UPD_W}.Amount0)", "sdkmath.Int.Abs({UPD_W}.Amount1)", "cltypes.ConcentratedPoolExtension.GetAddress(_)", "owner"},
		"a withdrawal moves exactly the amounts of the position update from the pool account to the owner", "")
	const SC = K + "sendCoinsBetweenPoolAndUser"
	c.FailsWhen(SC, "sdkmath.Int.IsNegative(amount0)", "negative amounts are never sent", rules.GuardOpt{Before: "cltypes.BankKeeper.SendCoins"})
	c.FailsWhen(SC, "sdkmath.Int.IsNegative(amount1)", "negative amounts are never sent", rules.GuardOpt{Before: "cltypes.BankKeeper.SendCoins"})
	c.CheckedCall(SC, "cltypes.BankKeeper.SendCoins", []string{"k.bankKeeper", "ctx", "sender", "receiver", "sdk.NewCoins(sdk.NewCoin(denom1,amount1), sdk.NewCoin(denom0,amount0))"}, "exactly (amount0, amount1) in the pool's two denoms is sent", "")
	// ---- swaps: fee split and the three transfers
	clSwapSettleRules(c)
	clScalingMigrationRules(c)
	clCrossTickRules(c)
	clUptimePositionRules(c)
	// ---- reward growth and claims truncate
	c.RoundRegion("x/concentrated-liquidity.SwapState.updateSpreadRewardGrowthGlobal", "", "DOWN", nil, 1, "spread-reward growth per unit of liquidity is truncated")
	c.RoundRegion("x/concentrated-liquidity.calcAccruedIncentivesForAccum", "", "DOWN", nil, 1, "incentive emission per unit of liquidity is truncated")
	c.RoundRegion("x/concentrated-liquidity.scaleDownSpreadRewardAmount", "", "DOWN", nil, 1, "scaled-down spread rewards are truncated")
	c.RoundRegion("x/concentrated-liquidity.scaleDownIncentiveAmount", "", "DOWN", nil, 1, "scaled-down incentives are truncated")
	c.RoundRegion(K+"prepareClaimableSpreadRewards", "", "DOWN", []string{"sdk.DecCoins.MulDec"}, 1, "claimable spread rewards and re-deposited dust are truncated")
	c.RoundRegion(K+"redepositForfeitedIncentives", "", "DOWN", nil, 1, "re-deposited forfeited incentives per share are truncated")
	c.RoundRegion("osmoutils/accum.AccumulatorObject.ClaimRewards", "", "DOWN,NEAREST", []string{"sdk.DecCoins.MulDec"}, 1, "claims are truncated to integers (the growth×shares product uses the SDK's MulDec)")
	// ---- claims: exactly what was prepared, from the right account, to the position owner
	const CS = K + "collectSpreadRewards"
	c.CheckedCallOpt(CS, "cltypes.BankKeeper.SendCoins", []string{"k.bankKeeper", "ctx", "cltypes.ConcentratedPoolExtension.GetSpreadRewardsAddress(_)", "sender", "cl.Keeper.prepareClaimableSpreadRewards(k,ctx,positionId)#0"}, "spread rewards: exactly the prepared claim is paid from the spread-reward account to the claimer", "", false)
	c.FailsWhen(CS, "ne(sdk.AccAddress.String(sender), cl.Keeper.GetPosition(k,ctx,positionId)#0.Address)", "only the position owner collects spread rewards", rules.GuardOpt{Before: "cl.Keeper.prepareClaimableSpreadRewards|cltypes.BankKeeper.SendCoins"})
	const CI = K + "collectIncentives"
	c.CheckedCallOpt(CI, "cltypes.BankKeeper.SendCoins", []string{"k.bankKeeper", "ctx", "cltypes.ConcentratedPoolExtension.GetIncentivesAddress(_)", "sender", "cl.Keeper.prepareClaimAllIncentivesForPosition(k,ctx,cl.Keeper.GetPosition(k,ctx,positionId)#0.PositionId)#0"}, "incentives: exactly the collected (never the forfeited) part is paid from the incentive account to the claimer", "", false)
	c.FailsWhen(CI, "ne(sdk.AccAddress.String(sender), cl.Keeper.GetPosition(k,ctx,positionId)#0.Address)", "only the position owner collects incentives", rules.GuardOpt{Before: "cl.Keeper.prepareClaimAllIncentivesForPosition|cltypes.BankKeeper.SendCoins"})
	// ---- swap totals (shared with C03): charged amounts are ceiled, paid amounts truncated
	swapTotalRules(c)
	// ---- incentive records: an exhausted record is removed, only records with something left are written
	const SI = K + "setIncentiveRecord"
	c.Let("IKEY", "cltypes.KeyIncentiveRecord(incentiveRecord.PoolId,cl.findUptimeIndex(incentiveRecord.MinUptime)#0,incentiveRecord.IncentiveId)")
	c.Let("ISTORE", "sdk.Context.KVStore(ctx,k.storeKey)")
	c.CallArg(SI, "storetypes.KVStore.Delete", 1, "{IKEY}", "the record deleted is the one being set")
	c.OnlyWhen(SI, "storetypes.KVStore.Delete", "storetypes.KVStore.Has({ISTORE},{IKEY}) & sdk.DecCoin.IsZero(incentiveRecord.IncentiveRecordBody.RemainingCoin)", "a record is deleted only when it exists and nothing remains to emit")
	c.ReachedWhen(SI, "storetypes.KVStore.Delete", "storetypes.KVStore.Has({ISTORE},{IKEY}) & sdk.DecCoin.IsZero(incentiveRecord.IncentiveRecordBody.RemainingCoin)", "an existing record with nothing left is always deleted (it cannot be emitted again)")
	c.OnlyWhen(SI, "osmoutils.MustSet", "sdkmath.LegacyDec.IsPositive(incentiveRecord.IncentiveRecordBody.RemainingCoin.Amount)", "only a record with a positive remainder is written")
	c.CallArg(SI, "osmoutils.MustSet", 1, "{IKEY}", "…under its own key")
	// ---- dust re-deposit divides by the remaining shares only when there are some
	const PC = K + "prepareClaimableSpreadRewards"
	c.Let("SHARES", "accum.AccumulatorObject.GetTotalShares(cl.Keeper.GetSpreadRewardAccumulator(k,ctx,cl.Keeper.GetPosition(k,ctx,positionId)#0.PoolId)#0)")
	c.CallArg(PC, "sdk.DecCoins.QuoDecTruncate", 1, "{SHARES}", "forfeited dust is spread over the shares that remain after the claim")
	c.OnlyWhen(PC, "sdk.DecCoins.QuoDecTruncate", "not(sdkmath.LegacyDec.IsZero({SHARES}))", "the division by the remaining shares happens only when shares remain (the last position can always exit)")
	// ---- accumulator scaling and forfeit redeposit (shared with C08): what is credited is what was paid in
	clScalingRules(c)
	clRedepositRules(c)
	// ---- who may send from pool-owned accounts
	c.SendersFrom("x/concentrated-liquidity", "cltypes.BankKeeper.SendCoins", 2, []string{"GetAddress", "GetSpreadRewardsAddress", "GetIncentivesAddress"},
		[]string{"cl.Keeper.sendCoinsBetweenPoolAndUser", "cl.Keeper.updatePoolForSwap", "cl.Keeper.collectSpreadRewards", "cl.Keeper.collectIncentives", "cl.Keeper.redepositForfeitedIncentives", "cl.Keeper.WithdrawPosition", "cl.Keeper.CreatePosition"},
		"coins leave a pool-owned account only in the listed functions")
}
