// Package props holds the rule instances per property (tables + reasons).
package props

import (
	"sort"

	"osmolint/internal/rules"
)

type Prop struct {
	ID          string
	Explanation string
	NotCovered  []string
	Assumptions []string
	Run         func(c *rules.Ctx)
	MinObl      int // floor on the number of obligations (a rule set that silently shrinks fails)
}

var registry = map[string]*Prop{}

func register(p *Prop) { registry[p.ID] = p }

func Get(id string) *Prop { return registry[id] }

func IDs() []string {
	var ids []string
	for id := range registry {
		ids = append(ids, id)
	}
	sort.Strings(ids)
	return ids
}
