package props

import "osmolint/internal/rules"

// Rules added in round 8: supporting code that the earlier rounds had no rule instance in.

// twapRecordLifecycleRules (C10): how a record is created, advanced at end of block, and which hooks mark a pool as
// changed. The accumulator arithmetic itself is in runC10.
func twapRecordLifecycleRules(c *rules.Ctx) {
	const T = "x/twap."
	// the per-block update of one record
	const UR = T + "Keeper.updateRecord"
	c.Let("SPS", "twap.getSpotPrices(ctx,k.poolmanagerKeeper,record.PoolId,record.Asset0Denom,record.Asset1Denom,record.LastErrorTime)")
	c.CallArg(UR, "twap.recordWithUpdatedAccumulators", 0, "record", "the stored record is the one advanced")
	c.CallArg(UR, "twap.recordWithUpdatedAccumulators", 1, "sdk.Context.BlockTime(ctx)", "…to the block time")
	c.StoreField(UR, "Height", "sdk.Context.BlockHeight(ctx)", "the new record carries the block height")
	c.StoreField(UR, "P0LastSpotPrice", "{SPS}#0", "the new last P0 price is the pool's current denom0→denom1 spot price")
	c.StoreField(UR, "P1LastSpotPrice", "{SPS}#1", "the new last P1 price is the reverse spot price")
	c.StoreField(UR, "LastErrorTime", "{SPS}#2", "the error time is the one getSpotPrices derived from the record's previous error time")
	c.FailsWhen(UR, "gt(record.Height, sdk.Context.BlockHeight(ctx))", "a record from a later height is never advanced", rules.GuardOpt{})
	c.FailsWhen(UR, "time.Time.After(record.Time, sdk.Context.BlockTime(ctx))", "a record from a later time is never advanced", rules.GuardOpt{})
	// every most-recent record of a changed pool is advanced and stored
	const US = T + "Keeper.updateRecords"
	c.Let("RECS", "twap.Keeper.GetAllMostRecentRecordsForPoolWithDenoms(k,ctx,poolId,twaptypes.PoolManagerInterface.RouteGetPoolDenoms(k.poolmanagerKeeper,ctx,poolId)#0)#0")
	c.ForEach(US, "twap.Keeper.StoreNewRecord", "{RECS}", "every most-recent record of the pool is advanced and stored", false)
	c.CallArg(US, "twap.Keeper.updateRecord", 2, "elem({RECS})", "the record advanced is the stored most-recent record")
	c.CallArg(US, "twap.Keeper.StoreNewRecord", 2, "twap.Keeper.updateRecord(k,ctx,elem({RECS}))#0", "the record stored is the advanced one")
	// creation
	const NR = T + "newTwapRecord"
	c.Let("LO", "twaptypes.LexicographicalOrderDenoms(denom0,denom1)")
	c.Let("NSP", "twap.getSpotPrices(ctx,k,poolId,{LO}#0,{LO}#1,nil)")
	c.StoreField(NR, "PoolId", "poolId", "a new record belongs to the created pool")
	c.StoreField(NR, "Asset0Denom", "{LO}#0", "asset0 is the lexicographically smaller denom")
	c.StoreField(NR, "Asset1Denom", "{LO}#1", "asset1 the larger")
	c.StoreField(NR, "Height", "sdk.Context.BlockHeight(ctx)", "created at the block height")
	c.StoreField(NR, "Time", "sdk.Context.BlockTime(ctx)", "…and block time")
	c.StoreField(NR, "P0LastSpotPrice", "{NSP}#0", "initial P0 price is the pool's spot price in the canonical order")
	c.StoreField(NR, "P1LastSpotPrice", "{NSP}#1", "initial P1 price likewise")
	c.StoreField(NR, "LastErrorTime", "{NSP}#2", "initial error time from the first spot-price read")
	for _, f := range []string{"P0ArithmeticTwapAccumulator", "P1ArithmeticTwapAccumulator", "GeometricTwapAccumulator"} {
		c.StoreField(NR, f, "sdkmath.LegacyZeroDec()", "accumulators start at zero")
	}
	const AC = T + "Keeper.afterCreatePool"
	c.Let("PAIRS", "twaptypes.GetAllUniqueDenomPairs(twaptypes.PoolManagerInterface.RouteGetPoolDenoms(k.poolmanagerKeeper,ctx,poolId)#0)")
	c.ForEach(AC, "twap.Keeper.StoreNewRecord", "{PAIRS}", "a record is stored for every unique denom pair of the new pool", false)
	c.CallArg(AC, "twap.newTwapRecord", 3, "elem({PAIRS}).Denom0", "the pair's first denom")
	c.CallArg(AC, "twap.newTwapRecord", 4, "elem({PAIRS}).Denom1", "the pair's second denom")
	c.CallArg(AC, "twap.newTwapRecord", 2, "poolId", "for the created pool")
	c.HasCall(AC, "twap.Keeper.trackChangedPool", []string{"k", "ctx", "poolId"}, true, "a created pool is marked changed so that its records are refreshed at end of block", "")
	// hooks: every price-moving notification marks the pool it names
	for _, h := range []string{"gammhook.AfterCFMMSwap", "gammhook.AfterJoinPool", "gammhook.AfterExitPool", "concentratedLiquidityListener.AfterConcentratedPoolSwap", "concentratedLiquidityListener.AfterLastPoolPositionRemoved", "concentratedLiquidityListener.AfterInitialPoolPositionCreated"} {
		c.HasCall(T+h, "twap.Keeper.trackChangedPool", []string{"_", "ctx", "poolId"}, true, "a price-moving notification marks the pool it names as changed", "")
	}
	c.HasCall(T+"gammhook.AfterCFMMPoolCreated", "twap.Keeper.mustTrackCreatedPool", []string{"_", "ctx", "poolId"}, true, "pool creation creates the pool's records", "")
	c.HasCall(T+"concentratedLiquidityListener.AfterConcentratedPoolCreated", "twap.Keeper.mustTrackCreatedPool", []string{"_", "ctx", "poolId"}, true, "creation of a concentrated pool creates its records", "")
	// the pool modules notify on every successful price-moving operation (a swap that stays inside its tick moves the price too)
	c.HasCall("x/concentrated-liquidity.Keeper.updatePoolForSwap", "cltypes.ConcentratedLiquidityListeners.AfterConcentratedPoolSwap", []string{"k.listeners", "ctx", "_", "cltypes.ConcentratedPoolExtension.GetId(pool)", "_", "_"}, true, "every successful concentrated swap notifies the listeners with the pool's id", "")
	c.HasCall("x/gamm/keeper.Keeper.updatePoolForSwap", "gammtypes.GammHooks.AfterCFMMSwap", []string{"k.hooks", "ctx", "_", "poolmanagertypes.PoolI.GetId(pool)", "_", "_"}, true, "every successful classic-pool swap fires the swap hook with the pool's id", "")
	c.HasCall("x/gamm/keeper.Keeper.applyJoinPoolStateChange", "gammtypes.GammHooks.AfterJoinPool", []string{"k.hooks", "ctx", "_", "poolmanagertypes.PoolI.GetId(pool)", "_", "_"}, true, "every successful join fires the join hook with the pool's id", "")
	// the changed-pool set is written and read with the same encoding
	c.CallArg(T+"Keeper.trackChangedPool", "binary.littleEndian.PutUint64", 2, "poolId", "the changed-pool key encodes the pool id")
	c.Returns(T+"Keeper.getChangedPools", 0, "phi(list(), append(#self, list(binary.littleEndian.Uint64(_, cosmos-db.Iterator.Key(_)))))", "…and is decoded with the same byte order, every key once", "")
	// unit helpers
	c.Returns("x/twap/types.SpotPriceMulDuration", 0, "sdkmath.LegacyDec.MulInt64(sp,timeDeltaMs)", "price × Δt", "")
	c.Returns("x/twap/types.AccumDiffDivDuration", 0, "sdkmath.LegacyDec.QuoInt64(accumDiff,timeDeltaMs)", "accumulator difference / Δt", "")
	c.Returns("x/twap/types.CanonicalTimeMs", 0, "time.Time.UnixMilli(time.Time.Round(twapTime,0))", "Δt is measured in Unix milliseconds", "")
	// pruning start: keep time = block time − keep period
	const EH = T + "epochhook.AfterEpochEnd"
	c.StoreField(EH, "LastKeptTime", "time.Time.Add(sdk.Context.BlockTime(ctx), neg(twap.Keeper.RecordHistoryKeepPeriod(hook.k,ctx)))", "pruning keeps everything newer than block time minus the keep period")
	c.StoreField(EH, "LastSeenPoolId", "sub(twaptypes.PoolManagerInterface.GetNextPoolId(hook.k.poolmanagerKeeper,ctx),1)", "pruning starts from the newest pool id")
}

// sumtreeMigrationRules (C16): the legacy (JSON) → protobuf store migration rewrites EVERY node of the tree: the root
// is found from the highest node key, a branch re-encodes itself and recurses into every child one level down, level
// zero re-encodes a leaf. A node left in the old encoding cannot be read by the tree afterwards.
func sumtreeMigrationRules(c *rules.Ctx) {
	const V = "osmoutils/sumtree/legacy/v101."
	c.Let("BR", "v101.migrateBranchValue(storetypes.KVStore.Get(store,v101.nodeKey(level,key)))")
	c.ForEach(V+"migrateTreeBranch", "v101.migrateTreeNode", "{BR}.Children", "every child of a migrated branch is migrated", false)
	c.CallArg(V+"migrateTreeBranch", "v101.migrateTreeNode", 1, "sub(level,1)", "children live one level below their parent")
	c.CallArg(V+"migrateTreeBranch", "v101.migrateTreeNode", 2, "elem({BR}.Children).Index", "…under the child's own index")
	c.HasCall(V+"migrateTreeBranch", "storetypes.KVStore.Set", []string{"store", "v101.nodeKey(level,key)", "proto.Marshal({BR})#0"}, true, "the branch itself is re-encoded under its own key", "")
	c.OnlyWhen(V+"migrateTreeNode", "v101.migrateTreeLeaf", "eq(level,0)", "only level 0 holds leaves")
	c.OnlyWhen(V+"migrateTreeNode", "v101.migrateTreeBranch", "ne(level,0)", "every other level holds branches")
	c.CallArg(V+"migrateTreeNode", "v101.migrateTreeBranch", 1, "level", "a branch is migrated at its own level")
	c.CallArg(V+"migrateTreeNode", "v101.migrateTreeBranch", 2, "key", "…and key")
	c.CallArg(V+"migrateTreeNode", "v101.migrateTreeLeaf", 1, "key", "a leaf is migrated under its own key")
	c.Let("LF", "v101.migrateLeafValue(key,storetypes.KVStore.Get(store,v101.leafKey(key)))")
	c.HasCall(V+"migrateTreeLeaf", "storetypes.KVStore.Set", []string{"store", "v101.leafKey(key)", "proto.Marshal({LF})#0"}, true, "the leaf is re-encoded under its own key", "")
	c.CallArg(V+"MigrateTree", "storetypes.KVStoreReversePrefixIterator", 1, "\"node/\"", "the root is the last node key")
}

// poolParamsValidateRules (C04): the fee parameters both pool models compute with are range-checked field by field
// (a negative exit fee pays out more than the proportional reserves; a swap fee ≥ 1 divides by zero or pays the trader).
func poolParamsValidateRules(c *rules.Ctx) {
	for _, pk := range []string{"x/gamm/pool-models/stableswap.", "x/gamm/pool-models/balancer."} {
		v := pk + "PoolParams.Validate"
		c.FailsWhen(v, "sdkmath.LegacyDec.IsNegative(params.ExitFee)", "a negative exit fee is rejected", rules.GuardOpt{})
		c.FailsWhen(v, "sdkmath.LegacyDec.GTE(params.ExitFee, sdkmath.LegacyOneDec())", "an exit fee of 100 % or more is rejected", rules.GuardOpt{})
		c.FailsWhen(v, "sdkmath.LegacyDec.IsNegative(params.SwapFee)", "a negative swap fee is rejected", rules.GuardOpt{})
		c.FailsWhen(v, "sdkmath.LegacyDec.GTE(params.SwapFee, sdkmath.LegacyOneDec())", "a swap fee of 100 % or more is rejected", rules.GuardOpt{})
	}
}

// epochGenesisRules (C17): genesis import hands every epoch to AddEpochInfo unchanged, and AddEpochInfo replaces the
// start time only when none was given — an explicit (past or future) start time is the grid the timer ticks on.
func epochGenesisRules(c *rules.Ctx) {
	const K = "x/epochs/keeper.Keeper."
	c.ForEach(K+"InitGenesis", "epochskeeper.Keeper.AddEpochInfo", "genState.Epochs", "every imported epoch is added", false)
	c.CallArg(K+"InitGenesis", "epochskeeper.Keeper.AddEpochInfo", 2, "exact(elem(genState.Epochs))", "…exactly as imported (start time and counters untouched)")
	c.OnlyWhenStore(K+"AddEpochInfo", "StartTime", "time.Time.Equal(epoch.StartTime, nil)", "the start time is defaulted to the block time only when it is the zero time")
	c.CallArg(K+"AddEpochInfo", "epochskeeper.Keeper.setEpochInfo", 2, "with:CurrentEpochStartHeight(maywith:StartTime(epoch,sdk.Context.BlockTime(ctx)),sdk.Context.BlockHeight(ctx))", "the epoch stored is the given one with only the start height (and a defaulted start time) set")
}

// clTickEmptyRules (C01; the same two rules are part of C07's initOrUpdateTick block): a tick is reported empty — and
// then deleted together with its growth-outside snapshots — only when its updated gross AND net liquidity are zero.
// A boundary shared by two positions keeps gross > 0 while net can cancel; deleting it loses the snapshot that keeps
// one position's fees apart from the other's.
func clTickEmptyRules(c *rules.Ctx) {
	const IT = "x/concentrated-liquidity.Keeper.initOrUpdateTick"
	c.ReturnOnlyUnder(IT, 0, "sdkmath.LegacyDec.IsZero(sdkmath.LegacyDec.Add(_.LiquidityGross, liquidityDelta))", "true", "a tick is reported empty only when its updated gross liquidity is zero")
	c.ReturnOnlyUnder(IT, 0, "sdkmath.LegacyDec.IsZero(has(cl.Keeper.GetTickInfo(k,ctx,poolId,tickIndex)#0.LiquidityNet))", "true", "…and its net liquidity is zero")
}

// clClaimRebaseRules (C08, C15): after a claim the surviving position's snapshot is ALWAYS re-based to
// global − growth outside (also when the claim paid nothing: the snapshot was moved to init + growth outside first, and
// leaving it there would subtract the growth outside from the next claim).
func clClaimRebaseRules(c *rules.Ctx) {
	const UC = "x/concentrated-liquidity.updateAccumAndClaimRewards"
	c.ReachedWhen(UC, "accum.AccumulatorObject.SetPositionIntervalAccumulation", "accum.AccumulatorObject.HasPosition(accum, positionKey)", "the snapshot of a surviving position is re-based after every claim, whatever was paid")
	c.CallArg(UC, "accum.AccumulatorObject.SetPositionIntervalAccumulation", 1, "positionKey", "…of the claiming position")
	c.CallArg(UC, "accum.AccumulatorObject.ClaimRewards", 1, "positionKey", "the claim is the position's own")
}

// balancerPokeRules (C04): every weight change of a liquidity-bootstrapping pool goes through updateAllWeights (which
// keeps TotalWeight = Σ weights, the denominator of every normalised weight), in each of the three phases.
func balancerPokeRules(c *rules.Ctx) {
	const PP = "x/gamm/pool-models/balancer.Pool.PokePool"
	c.Let("SW", "p.PoolParams.SmoothWeightChangeParams")
	c.ReachedWhen(PP, "balancer.Pool.updateAllWeights", "ne({SW},nil) & not(time.Time.Before(blockTime,{SW}.StartTime)) & not(time.Time.Equal({SW}.StartTime,blockTime)) & time.Time.After(blockTime, time.Time.Add({SW}.StartTime, {SW}.Duration))", "a poke after the end of the weight change sets the weights through updateAllWeights (total weight kept in step)")
	c.CallArg(PP, "balancer.Pool.updateAllWeights", 0, "p", "…on the poked pool")
}

// gaugeEpochPartitionRules (C09): at an epoch end the active gauges are split between two distributors — the
// superfluid routine takes exactly the perpetual gauges on a synthetic denom, the incentives hook exactly the rest —
// so that every gauge is paid once per epoch, never twice and never not at all.
func gaugeEpochPartitionRules(c *rules.Ctx) {
	const SF = "x/superfluid/keeper.Keeper.distributeSuperfluidGauges"
	c.Let("SG", "elem(superfluidtypes.IncentivesKeeper.GetActiveGauges(k.ik,ctx))")
	c.OnlyWhen(SF, "append", "lockuptypes.IsSyntheticDenom({SG}.DistributeTo.Denom) & {SG}.IsPerpetual", "the superfluid routine distributes a gauge only when it is perpetual AND on a synthetic denom (anything else is paid by the incentives hook)")
	const H = "x/incentives/keeper.Keeper.AfterEpochEnd"
	c.Let("IG", "elem(incentiveskeeper.Keeper.GetActiveGauges(k,ctx))")
	c.OnlyWhen(H, "append", "not(lockuptypes.IsSyntheticDenom({IG}.DistributeTo.Denom)) | not({IG}.IsPerpetual)", "the incentives hook leaves out exactly the perpetual gauges on a synthetic denom")
	c.CallArg(SF, "superfluidtypes.IncentivesKeeper.Distribute", 2, "phi(list(), append(#self, list({SG})))", "the list distributed is the filtered list")
}

// mintStoreRules (C18): the two pieces of schedule state — the minter and the last-reduction epoch — are written and
// read under the same key with the same encoding, and the mint helper mints exactly the coins it was given into the
// mint module account.
func mintStoreRules(c *rules.Ctx) {
	const K = "x/mint/keeper.Keeper."
	c.HasCall(K+"mintCoins", "minttypes.BankKeeper.MintCoins", []string{"k.bankKeeper", "ctx", "\"mint\"", "newCoins"}, false, "the epoch's coins are minted unchanged into the mint module account", "")
	c.Returns(K+"mintCoins", 0, "phi(nil, minttypes.BankKeeper.MintCoins(k.bankKeeper,ctx,\"mint\",newCoins)) | nil | minttypes.BankKeeper.MintCoins(k.bankKeeper,ctx,\"mint\",newCoins)", "a failed mint fails the epoch step", "")
	c.CallArg(K+"setLastReductionEpochNum", "storetypes.KVStore.Set", 1, "@minttypes.LastReductionEpochKey", "the last-reduction epoch is written under its key")
	c.CallArg(K+"setLastReductionEpochNum", "storetypes.KVStore.Set", 2, "sdk.Uint64ToBigEndian(epochNum)", "…big-endian")
	c.CallArg(K+"getLastReductionEpochNum", "storetypes.KVStore.Get", 1, "@minttypes.LastReductionEpochKey", "…and read from the same key")
	c.Returns(K+"getLastReductionEpochNum", 0, "0 | sdk.BigEndianToUint64(storetypes.KVStore.Get(_, @minttypes.LastReductionEpochKey))", "…with the same encoding (0 when never set)", "")
	c.CallArg(K+"SetMinter", "osmoutils.MustSet", 1, "@minttypes.MinterKey", "the minter is written under the minter key")
	c.CallArg(K+"SetMinter", "osmoutils.MustSet", 2, "minter", "…as given")
	c.CallArg(K+"GetMinter", "osmoutils.MustGet", 1, "@minttypes.MinterKey", "…and read from the same key")
}
