package props

import (
	"fmt"
	"sort"
	"strings"

	"golang.org/x/tools/go/ssa"

	"osmolint/internal/analyses"
	"osmolint/internal/ir"
	"osmolint/internal/load"
	"osmolint/internal/rules"
)

func init() {
	register(&Prop{
		ID: "C19",
		Explanation: "Determinism and export/import, structural clauses: (X-det) no map iteration whose order reaches an order-dependent effect, no wall-clock time, randomness, environment reads, goroutines or select in code that can run during block execution, genesis, ante handling or upgrades (every exception is one named construct with a reason); " +
			"(X-gen) every field of every module GenesisState is consumed by InitGenesis and produced by ExportGenesis, and InitGenesis does not overwrite a field of the state it was given; (X-mem) every write to in-memory keeper state is wiring, a rebuild from the store, or a self-validating cache — anything else is consensus-relevant state outside the store.",
		NotCovered:  []string{"bit-identical app hash (needs two executions)", "losslessness of exported values beyond field coverage", "nondeterminism inside dependencies (SDK, wasmvm)"},
		Assumptions: []string{"scope by package class rather than reachability (conservative)", "telemetry calls do not influence state"},
		MinObl:      184,
		Run:         runC19,
	})
}

// detAllowed: named constructs that are nondeterminism-prone but harmless, with the reason.
var detAllowed = map[string]string{
	"authenticator.checkForFloats/range vv":                                                          "existential search: the boolean result does not depend on the order; no state or event effect",
	"dag.DAG.hasIncomingEdge/range adjacencyList":                                                    "existential search: the boolean result does not depend on the order",
	"incentiveskeeper.Keeper.GetRewardsEst/range denomSet":                                           "query path (gRPC estimate), never executed in a transaction or block hook; the result is a commutative sum of coins",
	"lockupkeeper.Keeper.RebuildSuperfluidAccumulationStoresForDenom/range accumulationStoreEntries": "writes sum-tree stores under pairwise distinct prefixes (one per synthetic denom); no events, upgrade-time only",
	"osmoutils.MergeCoinMaps/range poolIDToExpectedDistributionMapOne":                               "fills a fresh map keyed by pool id; Coins.Add is a pure value operation",
	"protorevkeeper.Keeper.UpdatePools/range baseDenomPools":                                         "store writes to pairwise distinct (base denom, denom) keys; no events",
	"protorevkeeper.Keeper.UpdatePools/range pools":                                                  "store writes to pairwise distinct (base denom, denom) keys; no events",
	"tokenfactorykeeper.NewKeeper/range maccPerms":                                                   "keeper construction at process start: fills lookup maps only",
	"mempool-1559.EipState.updateBaseFee/go statement":                                               "persists the node-local mempool fee state to a local file; not consensus state and not read back during block execution",
}

// memAllowed: keeper in-memory writes that are acceptable, by function, with the reason.
var memAllowed = map[string]string{
	"poolmanager.Keeper.GetDefaultTakerFee":                        "self-validating cache: keyed by the raw store bytes, which are re-read and compared on every call",
	"smartaccountkeeper.Keeper.GetIsSmartAccountActive":            "self-validating cache: keyed by the raw store bytes, which are re-read and compared on every call",
	"poolmanager.Keeper.GetPoolModule":                             "written only under ExecModeFinalize and invalidated by SetPoolRoute, the only writer of the underlying store key",
	"poolmanager.Keeper.SetPoolRoute":                              "invalidates the pool-module cache entry when the route is (re)written",
	"poolmanager.Keeper.ResetCaches":                               "test-suite helper: clears the caches (only caller is app/apptesting)",
	"poolmanager.Keeper.setTakerFeeShareAgreementsMapCached":       "whole-cache rebuild from the store (BeginBlock warm-up after restart)",
	"poolmanager.Keeper.setAllRegisteredAlloyedPoolsByDenomCached": "whole-cache rebuild from the store (BeginBlock warm-up after restart)",
}

// genLoopConditional: calls inside InitGenesis import loops that legitimately run only for some records.
var genLoopConditional = map[string]string{}

// genOverwriteAllowed / genMissingAllowed
var genMissingAllowed = map[string]string{}

func runC19(c *rules.Ctx) {
	rel := c.P.Rel
	short := ir.PkgShort
	// ---- X-det
	sites := analyses.ScanDeterminism(c.P.Pkgs, rel, short)
	counts := map[string]int{}
	seen := map[string]int{}
	for _, s := range sites {
		counts[s.Kind]++
		key := s.Func + "/" + s.What
		seen[key]++
		role := s.Kind
		if seen[key] > 1 {
			key += fmt.Sprintf("#%d", seen[key])
		}
		switch s.Kind {
		case "maprange-ok":
			c.Record("X-det", s.Func, "maprange/"+s.What+suffix(seen, s), "map iteration order must not reach an order-dependent effect", true, s.Detail, rel(s.Pos))
		default:
			why, ok := detAllowed[s.Func+"/"+s.What]
			if ok {
				c.Record("X-det", s.Func, role+"/"+s.What+suffix(seen, s), "listed exception: "+why, true, "allowed (listed reason)", rel(s.Pos))
			} else if (s.Kind == "rand" || s.Kind == "time") && len(c.CallGraph().CallersOf(s.Func)) == 0 && !isEntryLike(s.Func) {
				c.Record("X-det", s.Func, role+"/"+s.What+suffix(seen, s), "randomness / wall-clock time only in helpers that no production code calls", true, "no non-test caller in the workspace call graph", rel(s.Pos))
			} else if s.Kind == "time-telemetry" {
				c.Record("X-det", s.Func, role+"/"+s.What+suffix(seen, s), "wall-clock time may only feed telemetry", true, "reaches only telemetry/metrics calls", rel(s.Pos))
			} else {
				c.Record("X-det", s.Func, role+"/"+s.What+suffix(seen, s), "state-machine code must not depend on map iteration order, wall-clock time, randomness, the environment or scheduling", false, s.Kind+": "+s.What+" — "+s.Detail, rel(s.Pos))
			}
		}
	}
	c.R.Extra["xdet_sites_by_kind"] = counts

	// ---- X-gen
	pairs, overwrites := analyses.ScanGenesis(c.P.Pkgs, rel, short)
	for _, p := range pairs {
		pk := short(p.Pkg)
		for _, side := range []string{"init", "export"} {
			miss := p.Missing[side]
			sort.Strings(miss)
			var bad []string
			for _, m := range miss {
				if _, ok := genMissingAllowed[pk+"."+m+"/"+side]; !ok {
					bad = append(bad, m)
				}
			}
			desc := map[string]string{"init": "InitGenesis consumes every field of GenesisState", "export": "ExportGenesis produces every field of GenesisState"}[side]
			pos := rel(p.Init.Pos())
			if side == "export" {
				pos = rel(p.Export.Pos())
			}
			c.Record("X-gen", pk+".GenesisState", side, desc, len(bad) == 0, orStr(strings.Join(bad, ","), fmt.Sprintf("%d fields covered", p.State.Underlying().(interface{ NumFields() int }).NumFields())), pos)
		}
	}
	c.R.Extra["genesis_pairs"] = len(pairs)
	if len(pairs) < 14 {
		c.Broken(fmt.Sprintf("only %d InitGenesis/ExportGenesis pairs found (expected >= 14)", len(pairs)))
	}
	for _, s := range overwrites {
		c.Record("X-gen-overwrite", s.Func, s.What, "InitGenesis must not replace a field of the imported state before using it (nil-defaulting excepted)", s.Kind == "genoverwrite-ok", orStr(map[bool]string{true: "nil-defaulting", false: s.Detail}[s.Kind == "genoverwrite-ok"], ""), rel(s.Pos))
	}

	// ---- X-mem
	writes := analyses.ScanKeeperWrites(c.P.Pkgs, rel, short)
	seenW := map[string]int{}
	for _, s := range writes {
		k := s.Func + "/" + s.What
		seenW[k]++
		role := s.What
		if seenW[k] > 1 {
			role += fmt.Sprintf("#%d", seenW[k])
		}
		why, ok := memAllowed[s.Func]
		if !ok && wiringOnly(c, s.Func) {
			why, ok = "dependency wiring: only called from app/keepers", true
		}
		c.Record("X-mem", s.Func, role, "in-memory keeper state may be written only by wiring, by a rebuild from the store, or by a self-validating cache"+map[bool]string{true: " — " + why, false: ""}[ok], ok, orStr(map[bool]string{true: "accepted", false: "consensus-relevant in-memory state written during execution"}[ok], ""), rel(s.Pos))
	}
	// side conditions of the pool-module cache exemption: a hit costs exactly the gas of the read it replaces
	poolModuleCacheRules(c)
	// genesis rebuild of the lockup accumulation uses the same bucket keys as the running chain
	lockupGenesisAccumulationRules(c)
	// poolmanager import: parameters first — writing a denom-pair taker fee consults the default taker fee of the params
	c.Order("x/poolmanager.Keeper.InitGenesis", "poolmanager.Keeper.SetParams", "poolmanager.Keeper.SetDenomPairTakerFee", "the imported parameters are in the store before the denom-pair taker fees are restored (an override equal to the *old* default would otherwise be dropped)")
	c.NeverAfter("x/poolmanager.Keeper.InitGenesis", "poolmanager.Keeper.SetDenomPairTakerFee", "poolmanager.Keeper.SetParams", "parameters are not rewritten after the taker-fee overrides")
	// pool-incentives export reads a pool's no-lock gauge links through a prefix closed by the separator
	const PIK = "x/pool-incentives/types."
	c.KeyLayout(PIK+"GetPoolNoLockGaugeIdIterationStoreKey", "no-lock-pool-incentives/<poolId>/", "the iteration prefix of pool n ends with '/' (pool 1 does not select the links of pools 10, 11, …)")
	c.KeyLayout(PIK+"GetPoolNoLockGaugeIdStoreKey", "no-lock-pool-incentives/<poolId>/<gaugeId>", "the link key it selects: same prefix followed by the gauge id")
	c.KeyLayout(PIK+"GetPoolGaugeIdInternalStoreKey", "pool-incentives/<poolId>/<time.Duration.String(duration)>", "internal gauge link: pool id closed by '/' before the duration")
	c.KeyLayout(PIK+"GetPoolIdFromGaugeIdStoreKey", "pool-incentives-pool-id/<gaugeId>/<time.Duration.String(duration)>", "reverse link: gauge id closed by '/' before the duration")
	c.MapKeys("x/lockup/keeper.Keeper.InitializeAllLocks", "elem(elem(locks).Coins).Denom | elem(locks).Duration | elem(has(elem(elem(locks).Coins).Denom))", 4, "the import rebuilds per-denom accumulation keyed by each lock's own duration")
	c.MapKeys("x/lockup/keeper.Keeper.InitializeAllSyntheticLocks", "elem(syntheticLocks).SynthDenom | elem(syntheticLocks).Duration | elem(has(elem(syntheticLocks).SynthDenom))", 4, "the import rebuilds synthetic-denom accumulation keyed by the synthetic lock's duration (as create/delete/add/slash do)")
	c.CallArg("x/lockup/keeper.Keeper.writeDurationValuesToAccumTree", "sumtree.Tree.Increase", 0, "lockupkeeper.Keeper.accumulationStore(k,ctx,denom)", "rebuilt totals are written to the denom's accumulation store")
	c.CallArg("x/lockup/keeper.Keeper.writeDurationValuesToAccumTree", "sumtree.Tree.Increase", 1, "lockupkeeper.accumulationKey(elem(has(range(durationValueMap))))", "…under the key of the duration")
	c.CallArg("x/lockup/keeper.Keeper.writeDurationValuesToAccumTree", "sumtree.Tree.Increase", 2, "lookup(durationValueMap, elem(has(range(durationValueMap))))", "…with that duration's total")
	// ---- X-gen-loop: inside InitGenesis, a loop over imported records imports every record: each call to an osmosis
	// function in the loop body is executed on every iteration (no `continue` skips a record's import), unless listed
	nLoopCalls := 0
	for _, fn := range c.P.AllFuncs() {
		if fn.Name() != "InitGenesis" || fn.Parent() != nil || !load.IsSubjectFile(c.P.File(fn.Pos())) || !strings.HasPrefix(c.P.File(fn.Pos()), "x/") {
			continue
		}
		f := c.Wrap(fn)
		name := ir.FuncName(fn)
		for _, h := range fn.Blocks {
			body, latch := rules.NaturalLoop(h)
			if body == nil {
				continue
			}
			for _, b := range fn.Blocks {
				if !body[b] || b == h {
					continue
				}
				// innermost loop of b must be this one
				inner := true
				for _, h2 := range fn.Blocks {
					if h2 == h {
						continue
					}
					if b2, _ := rules.NaturalLoop(h2); b2 != nil && b2[b] && len(b2) < len(body) {
						inner = false
					}
				}
				if !inner {
					continue
				}
				for _, ins := range b.Instrs {
					call, ok := ins.(ssa.CallInstruction)
					if !ok {
						continue
					}
					callee := call.Common().StaticCallee()
					cn := f.CalleeName(call)
					if callee != nil && (callee.Pkg == nil || !strings.HasPrefix(callee.Pkg.Pkg.Path(), load.ModPrefix)) {
						continue
					}
					if callee == nil && !call.Common().IsInvoke() {
						continue
					}
					if !f.CanSucceed(b) {
						continue // error construction on a failing path
					}
					nLoopCalls++
					every := true
					for _, l := range latch {
						if !b.Dominates(l) {
							every = false
						}
					}
					key := name + " > " + cn
					why, listed := genLoopConditional[key]
					desc := "InitGenesis imports every record of a list: the call runs on every iteration"
					if listed {
						desc += " — conditional by design: " + why
					}
					c.Record("X-gen-loop", name, fmt.Sprintf("%s@%s", cn, c.P.Rel(ins.Pos())), desc, every || listed, orStr(map[bool]string{true: "every iteration", false: "skipped on some iterations"}[every], ""), c.P.Rel(ins.Pos()))
				}
			}
		}
	}
	c.R.Extra["genesis_loop_calls"] = nLoopCalls
	c.R.Extra["keeper_memory_writes"] = len(writes)
}

func suffix(seen map[string]int, s analyses.Site) string {
	if n := seen[s.Func+"/"+s.What]; n > 1 {
		return fmt.Sprintf("#%d", n)
	}
	return ""
}

// wiringOnly: every non-test caller of the function lives in app/ (keeper wiring at process start).
func wiringOnly(c *rules.Ctx, fname string) bool {
	cg := c.CallGraph()
	callers := cg.CallersOf(fname)
	if len(callers) == 0 {
		return false
	}
	for _, cs := range callers {
		if !strings.HasPrefix(cs.Pos, "app/") {
			return false
		}
	}
	return true
}

// isEntryLike: functions invoked by the framework rather than by osmosis code (so "no callers" proves nothing).
func isEntryLike(fname string) bool {
	for _, s := range []string{"BeginBlock", "EndBlock", "InitGenesis", "ExportGenesis", "msgServer.", "Querier.", "AnteHandle", "PostHandle", "Hooks.", "CreateUpgradeHandler", ".init"} {
		if strings.Contains(fname, s) {
			return true
		}
	}
	return false
}
