package props

import "osmolint/internal/rules"

func init() {
	register(&Prop{
		ID: "C09",
		Explanation: "Incentive gauges, structural clauses: the per-epoch budget is remaining = coins − distributed over remaining epochs (1 for perpetual gauges, paid-over − filled otherwise; zero remaining epochs is an error); a lock's share is lock amount × remaining coin divided (integer division, truncating) by lock sum × remaining epochs — no rounding-up operation; amounts below the minimum value are skipped, never paid; rewards go to the lock's reward receiver, or its owner when none is set; " +
			"exactly the coins added to the pay-out list are added to the gauge's distributed total, which is booked together with one filled epoch on every successful distribution; pay-outs are sent from the incentives module to the index-aligned receiver list; upcoming gauges become active at their start time before distribution. Round 8: the active gauges are partitioned between the superfluid routine (perpetual AND synthetic denom) and the incentives hook (everything else), so a gauge is paid once per epoch.",
		NotCovered:  []string{"sum over epochs ≤ deposit and module balance ≥ remainders over histories", "group gauges / volume splitting", "concentrated no-lock gauges' emission inside CL (C08)"},
		Assumptions: []string{"bank SendCoinsFromModuleToManyAccounts pays inputs[i] to addrs[i]"},
		MinObl:      43,
		Run:         runC09,
	})
}

func runC09(c *rules.Ctx) {
	gaugeEpochPartitionRules(c)
	const K = "x/incentives/keeper.Keeper."
	const D = K + "distributeInternal"
	c.Let("REMAIN", "sdk.Coins.Sub(gauge.Coins, gauge.DistributedCoins)")
	c.Let("EPOCHS", "phi(1, sub(gauge.NumEpochsPaidOver, gauge.FilledEpochs))")
	c.HasCall(D, "sdk.Coins.Sub", []string{"gauge.Coins", "gauge.DistributedCoins"}, true, "the budget is what the gauge holds minus what it already distributed", "")
	c.FailsWhen(D, "eq({EPOCHS}, 0)", "a gauge with no remaining epochs does not distribute", rules.GuardOpt{})
	c.BranchOn(D, "not(gauge.IsPerpetual)", nil, "remaining epochs are 1 for perpetual gauges, paid-over − filled otherwise")
	// pro-rata share: Mul then integer Quo, no rounding up
	c.HasCall(D, "big.Int.Mul", []string{"_", "_", "sdkmath.Int.BigIntMut(elem({REMAIN}).Amount)"}, false, "share numerator = lock amount × remaining coin amount", "")
	c.HasCall(D, "big.Int.Quo", []string{"_", "_", "sdkmath.Int.BigIntMut(sdkmath.Int.MulRaw(lockuptypes.SumLocksByDenom(locks, _)#0, {EPOCHS}))"}, false, "share = numerator / (lock sum × remaining epochs), integer division", "")
	c.RoundRegion(D, "", "DOWN,NEAREST", []string{"sdkmath.LegacyDec.QuoMut"}, 2, "no rounding-up operation in the distribution (floor of the pro-rata share)")
	c.HasCall(D, "sdkmath.Int.Quo", []string{"elem({REMAIN}).Amount", "sdkmath.NewIntFromUint64({EPOCHS})"}, false, "no-lock gauges: per-epoch amount = remaining / remaining epochs (truncating)", "nolock")
	// receiver
	c.CallArg(D, "incentiveskeeper.distributionInfo.addLockRewards", 2, "phi(elem(locks).RewardReceiverAddress, elem(locks).Owner)", "rewards go to the lock's reward receiver or, when none is set, to its owner")
	c.CallArgCase(D, "incentiveskeeper.distributionInfo.addLockRewards", 2, "eq(elem(locks).RewardReceiverAddress, \"\")", "elem(locks).Owner", true, "the owner is used exactly when no receiver is set")
	c.CallArg(D, "incentiveskeeper.distributionInfo.addLockRewards", 1, "elem(locks).Owner", "pay-outs are grouped by lock owner")
	// booked == paid
	c.CheckedCallOpt(D, "incentiveskeeper.Keeper.updateGaugePostDistribute", []string{"k", "ctx", "gauge", "phi(sdk.NewCoins(), sdk.Coins.Add(#self, _)) | has(sdk.Coins.Add(_, ...))"}, "a distribution books exactly the accumulated total of the coins it put on the pay-out list (nothing-to-do exits excepted)", "", false)
	c.Returns(D, 0, "has(sdk.Coins.Add(_, ...)) | nil | has(incentiveskeeper.Keeper.skipSpamGaugeDistribute(...))", "the reported total is the accumulated pay-out list", "")
	c.PairedArg(D, "incentiveskeeper.distributionInfo.addLockRewards", 3, "sdk.Coins.Add", "the coins put on a lock's pay-out entry are added to the distributed total (what is paid is booked)")
	c.PairedArg(D, "cl.Keeper.CreateIncentive|incentivestypes.ConcentratedLiquidityKeeper.CreateIncentive", 4, "sdk.Coins.Add", "the coin handed to a concentrated pool's incentive record is added to the distributed total")
	const UG = K + "updateGaugePostDistribute"
	c.StoreField(UG, "FilledEpochs", "add(gauge.FilledEpochs, 1)", "one epoch is filled per distribution")
	c.StoreField(UG, "DistributedCoins", "sdk.Coins.Add(gauge.DistributedCoins, newlyDistributedCoins)", "the distributed total grows by exactly the newly distributed coins")
	c.CheckedCall(UG, "incentiveskeeper.Keeper.setGauge", nil, "the gauge is persisted", "")
	// sends
	const DS = K + "doDistributionSends"
	c.CheckedCallOpt(DS, "incentivestypes.BankKeeper.SendCoinsFromModuleToManyAccounts", []string{"_", "ctx", "@incentivestypes.ModuleName", "distrs.idToDecodedRewardReceiverAddr", "distrs.idToDistrCoins"}, "pay-outs leave the incentives module account to the index-aligned receiver list", "", false)
	const AL = "x/incentives/keeper.distributionInfo.addLockRewards"
	c.HasCall(AL, "append", []string{"d.idToDecodedRewardReceiverAddr", "sdk.AccAddressFromBech32(rewardReceiver)#0"}, false, "a new owner appends its decoded receiver…", "addr")
	c.HasCall(AL, "append", []string{"d.idToDistrCoins", "rewards"}, false, "…and its coins at the same index", "coins")
	// ---- minimum-value filter: a lock's share is skipped only when it is strictly below the minimum
	c.Let("AMT", "sdkmath.NewIntFromBigInt(_)")
	c.BranchOn(D, "lt({AMT}, minDistrValueCache.minDistrValue.Amount)", []string{"le({AMT}, _)"}, "same denom as the minimum: skipped only when strictly below it")
	c.BranchOn(D, "lt({AMT}, poolmanagertypes.PoolModuleI.CalcOutAmtGivenIn(...)#0.Amount)", []string{"le({AMT}, _)"}, "other denom, first use: skipped only when strictly below the converted minimum")
	c.BranchOn(D, "lt({AMT}, lookup(minDistrValueCache.denomToMinValueMap, elem(_).Denom)#0)", []string{"le({AMT}, _)"}, "other denom, cached: skipped only when strictly below the cached converted minimum (the same test as on first use)")
	// ---- a failed pay-out fails the whole distribution (nothing is booked for coins nobody received)
	const DI = K + "Distribute"
	c.CheckedCall(DI, "incentiveskeeper.Keeper.doDistributionSends", []string{"k", "ctx", "_"}, "the batched sends happen on every successful distribution and their failure fails it", "")
	c.CheckedCallOpt(DI, "incentiveskeeper.Keeper.distributeInternal", nil, "a failing gauge fails the distribution", "", false)
	c.CheckedCallOpt(DI, "incentiveskeeper.Keeper.distributeSyntheticInternal", nil, "a failing synthetic gauge fails the distribution", "", false)
	c.Order(DI, "incentiveskeeper.Keeper.doDistributionSends", "incentiveskeeper.Keeper.checkFinishDistribution", "gauges are finished only after the pay-outs were made")
	// ---- the denominator of the pro-rata share: each lock contributes its amount of the gauge's denom
	const SL = "x/lockup/types.SumLocksByDenom"
	c.BranchOn(SL, "eq(len(elem(locks).Coins),1)", []string{"ge(len(elem(locks).Coins),_)", "gt(len(elem(locks).Coins),_)"}, "the single-coin shortcut is taken only for locks with exactly one coin")
	c.CallArg(SL, "big.Int.Add", 2, "sdkmath.Int.BigIntMut(phi(idx(elem(locks).Coins,0).Amount, sdk.Coins.AmountOfNoDenomValidation(elem(locks).Coins,denom)))", "the sum adds the lock's only coin, or for multi-coin locks its amount of the requested denom")
	// epoch hook
	c.CheckedCall("x/incentives/keeper.Hooks.AfterEpochEnd", "incentiveskeeper.Keeper.AfterEpochEnd", []string{"h.k", "ctx", "epochIdentifier", "epochNumber"}, "the epochs module sees the keeper's verdict: the hook wrapper fails when the keeper's epoch step fails (a half-done distribution is rolled back)", "")
	const H = K + "AfterEpochEnd"
	c.OnlyWhen(H, "incentiveskeeper.Keeper.moveUpcomingGaugeToActiveGauge", "not(lt(sdk.Context.BlockTime(ctx), elem(_).StartTime))", "a gauge becomes active only once its start time has been reached")
	c.NeverAfter(H, "incentiveskeeper.Keeper.Distribute", "incentiveskeeper.Keeper.moveUpcomingGaugeToActiveGauge", "activation happens before distribution in the same epoch")
	c.OnlyWhen(H, "incentiveskeeper.Keeper.Distribute", "eq(epochIdentifier, incentiveskeeper.Keeper.GetParams(k,ctx).DistrEpochIdentifier)", "distribution runs only on the configured epoch")
	const CF = K + "checkFinishDistribution"
	c.OnlyWhen(CF, "incentiveskeeper.Keeper.moveActiveGaugeToFinishedGauge", "not(elem(gauges).IsPerpetual) & le(elem(gauges).NumEpochsPaidOver, add(elem(gauges).FilledEpochs,1))", "only non-perpetual gauges whose last paying epoch was just filled are finished")
	// ---- every qualifying lock and every coin of the gauge is visited
	c.LoopOnlyFailExits(K+"distributeInternal", "the loops over locks and over the gauge's coins are left early only by failing (a skipped amount never drops the remaining coins or locks)")
	// ---- the per-denom lock cache is gauge-independent, the gauge's own duration filters afterwards
	const GD = K + "getDistributeToBaseLocks"
	c.CallArg(GD, "incentiveskeeper.Keeper.getLocksToDistributionWithMaxDuration", 3, "1000000", "the cache shared by all gauges of a denom is filled from the minimal duration (1ms), never from one gauge's duration")
	c.CallArg(GD, "incentiveskeeper.FilterLocksByMinDuration", 1, "gauge.DistributeTo.Duration", "each gauge then keeps the locks of at least its own duration")
	c.CallArg(GD, "incentiveskeeper.FilterLocksByMinDuration", 0, "lookup(cache, lockuptypes.NativeDenom(gauge.DistributeTo.Denom))", "…out of the cached locks of its own denom")
	c.MapKeys(GD, "lockuptypes.NativeDenom(gauge.DistributeTo.Denom)", 2, "the cache is keyed by the gauge's native denom")
	// ---- in-place big-integer arithmetic of the share works on a copy of the lock's amount (locks are shared, cached objects)
	c.Let("LOCKAMT", "sdkmath.Int.BigIntMut(incentiveskeeper.guaranteedNonzeroCoinAmountOf(elem(locks).Coins, lockuptypes.NativeDenom(gauge.DistributeTo.Denom)))")
	c.CallArg(K+"distributeInternal", "big.Int.Mul", 0, "sdkmath.Int.BigIntMut(sdkmath.NewIntFromBigInt({LOCKAMT}))", "the product remaining × lock amount is computed in a fresh copy of the lock's amount, never in the lock's own big integer")
	c.CallArg(K+"distributeInternal", "big.Int.Quo", 0, "big.Int.Mul(sdkmath.Int.BigIntMut(sdkmath.NewIntFromBigInt({LOCKAMT})), _, _) | sdkmath.Int.BigIntMut(sdkmath.NewIntFromBigInt({LOCKAMT}))", "…and divided in that same copy")
	// ---- which locks feed the per-denom cache
	const GL = K + "getLocksToDistributionWithMaxDuration"
	c.WhenReturn(GL, "eq(distrTo.LockQueryType,0) & gt(distrTo.Duration,minDuration)", 0, "incentivestypes.LockupKeeper.GetLocksLongerThanDurationDenom(k.lk,ctx,lockuptypes.NativeDenom(distrTo.Denom),minDuration)", "a gauge with a longer duration still loads every lock of the native denom from the floor duration up (the cache is shared by shorter gauges)")
}
