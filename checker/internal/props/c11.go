package props

import "osmolint/internal/rules"

func init() {
	register(&Prop{
		ID: "C11",
		Explanation: "Superfluid staking, structural clauses: minting for delegation is paired with a supply offset of the negated amount and the same amount is sent to the intermediary account and delegated; undelegation sends back and burns exactly the instantly-undelegated coins and offsets the supply by their bond-denom amount, all inside cache-context closures that use only the cache context; " +
			"delegating records the lock↔intermediary connection and a bonded synthetic lock before staking, undelegating removes both before unstaking; every flow validates lock ownership (and single-coin locks) first; a lock can be force-unlocked through superfluid only when its synthetic lock is already unlocking; the refresh adjusts stake by the difference in the direction of the comparison.",
		NotCovered:  []string{"stake = risk-adjusted value to within one unit per lock", "supply neutrality as a number", "drift over epochs"},
		Assumptions: []string{"staking keeper Delegate / InstantUndelegate semantics", "cache-context helper (C17)"},
		MinObl:      96,
		Run:         runC11,
	})
}

func runC11(c *rules.Ctx) {
	const K = "x/superfluid/keeper.Keeper."
	// ---- cache-context closures
	c.ApplyFuncClosures("x/superfluid/keeper", 3, "state changes of a superfluid step happen only through the cache context handed to the closure (discarded on error)")
	// ---- mint / delegate
	const MD = K + "mintOsmoTokensAndDelegate$1"
	c.Let("COINS", "list(sdk.NewCoin(superfluidtypes.StakingKeeper.BondDenom(^k.sk,cacheCtx)#0, ^osmoAmount))")
	c.CheckedCall(MD, "superfluidtypes.BankKeeper.MintCoins", []string{"_", "cacheCtx", "@superfluidtypes.ModuleName", "{COINS}"}, "exactly osmoAmount of the bond denom is minted to the superfluid module", "")
	c.HasCall(MD, "superfluidtypes.BankKeeper.AddSupplyOffset", []string{"_", "cacheCtx", "superfluidtypes.StakingKeeper.BondDenom(^k.sk,cacheCtx)#0", "sdkmath.Int.Neg(^osmoAmount)"}, true, "the reported supply is offset by −osmoAmount (supply neutral)", "")
	c.CheckedCall(MD, "superfluidtypes.BankKeeper.SendCoinsFromModuleToAccount", []string{"_", "cacheCtx", "@superfluidtypes.ModuleName", "superfluidtypes.SuperfluidIntermediaryAccount.GetAccAddress(^intermediaryAccount)", "{COINS}"}, "the minted coins go to the intermediary account", "")
	c.HasCall(MD, "superfluidtypes.StakingKeeper.Delegate", []string{"_", "cacheCtx", "superfluidtypes.SuperfluidIntermediaryAccount.GetAccAddress(^intermediaryAccount)", "^osmoAmount", "_", "_", "true"}, true, "and the same amount is delegated from the intermediary account", "")
	c.Order(MD, "superfluidtypes.BankKeeper.MintCoins", "superfluidtypes.BankKeeper.AddSupplyOffset", "offset follows mint")
	c.Order(MD, "superfluidtypes.BankKeeper.SendCoinsFromModuleToAccount", "superfluidtypes.StakingKeeper.Delegate", "delegate after the account was funded")
	// ---- undelegate / burn
	const UB = K + "forceUndelegateAndBurnOsmoTokens$1"
	c.Let("UND", "superfluidtypes.StakingKeeper.InstantUndelegate(^k.sk,cacheCtx,superfluidtypes.SuperfluidIntermediaryAccount.GetAccAddress(^intermediaryAcc),^valAddr,^shares)#0")
	c.CheckedCall(UB, "superfluidtypes.BankKeeper.SendCoinsFromAccountToModule", []string{"_", "cacheCtx", "superfluidtypes.SuperfluidIntermediaryAccount.GetAccAddress(^intermediaryAcc)", "@superfluidtypes.ModuleName", "{UND}"}, "exactly the undelegated coins return to the module", "")
	c.CheckedCall(UB, "superfluidtypes.BankKeeper.BurnCoins", []string{"_", "cacheCtx", "@superfluidtypes.ModuleName", "{UND}"}, "and exactly those coins are burned", "")
	c.HasCall(UB, "superfluidtypes.BankKeeper.AddSupplyOffset", []string{"_", "cacheCtx", "superfluidtypes.StakingKeeper.BondDenom(^k.sk,cacheCtx)#0", "sdk.Coins.AmountOf({UND}, superfluidtypes.StakingKeeper.BondDenom(^k.sk,cacheCtx)#0)"}, true, "the supply offset is raised by the burned bond-denom amount (supply neutral)", "")
	c.Order(UB, "superfluidtypes.BankKeeper.SendCoinsFromAccountToModule", "superfluidtypes.BankKeeper.BurnCoins", "burn after the coins are back in the module")
	c.HasCall(K+"forceUndelegateAndBurnOsmoTokens", "superfluidtypes.StakingKeeper.ValidateUnbondAmount", []string{"_", "ctx", "superfluidtypes.SuperfluidIntermediaryAccount.GetAccAddress(intermediaryAcc)", "sdk.ValAddressFromBech32(intermediaryAcc.ValAddr)#0", "osmoAmount"}, true, "the shares to unbond are computed for the given amount at the account's validator", "")
	// ---- the stake behind a lock is the risk-adjusted value: amount − round(amount × MinimumRiskFactor)
	c.Let("RISK", "superfluidkeeper.Keeper.GetParams(k,ctx).MinimumRiskFactor")
	c.Returns(K+"GetRiskAdjustedOsmoValue", 0, "sdkmath.Int.Sub(amount, sdkmath.LegacyDec.RoundInt(sdkmath.LegacyDec.Mul(sdkmath.Int.ToLegacyDec(amount), {RISK}))) | sdkmath.Int.Sub(amount, sdkmath.LegacyDec.RoundInt(sdkmath.LegacyDec.Mul({RISK}, sdkmath.Int.ToLegacyDec(amount))))",
		"risk-adjusted value = amount − amount × minimum risk factor (the discount itself is never what is staked)", "")
	c.Returns(K+"UnriskAdjustOsmoValue", 0, "sdkmath.LegacyDec.Quo(amount, sdkmath.LegacyDec.Sub(sdkmath.LegacyOneDec(), {RISK}))", "the inverse divides by 1 − minimum risk factor", "")
	lockupForceUnlockRules(c)
	lockupGenesisAccumulationRules(c)
	c.CheckedCall("x/superfluid/keeper.Hooks.AfterEpochEnd", "superfluidkeeper.Keeper.AfterEpochEnd", []string{"h.k", "ctx", "epochIdentifier", "epochNumber"}, "the epoch hook wrapper fails when the keeper's epoch step fails", "")
	// ---- the total-delegations query converts shares to tokens with the validator's exchange rate (tokens per share)
	c.Returns("x/superfluid/keeper.Querier.TotalSuperfluidDelegations", 0, "has(sdkmath.LegacyDec.RoundInt(sdkmath.LegacyDec.MulInt(sdkmath.LegacyDec.Quo(_.Shares, _.DelegatorShares), _.Tokens))) | nil", "reported stake of an intermediary account = shares / delegator shares × tokens", "")
	// ---- delegate flow
	const SD = K + "SuperfluidDelegate"
	c.Let("LOCK", "superfluidtypes.LockupKeeper.GetLockByID(k.lk,ctx,lockID)#0")
	c.CheckedCall(SD, "superfluidkeeper.Keeper.validateLockForSFDelegate", []string{"k", "ctx", "{LOCK}", "sender"}, "the lock is validated for the sender first", "")
	c.Order(SD, "superfluidkeeper.Keeper.validateLockForSFDelegate", "superfluidkeeper.Keeper.SetLockIdIntermediaryAccountConnection", "validation precedes every write")
	c.HasCall(SD, "superfluidkeeper.Keeper.SetLockIdIntermediaryAccountConnection", []string{"k", "ctx", "lockID", "superfluidkeeper.Keeper.GetOrCreateIntermediaryAccount(...)#0"}, true, "the lock is connected to the intermediary account of (denom, validator)", "")
	c.CheckedCall(SD, "superfluidkeeper.Keeper.createSyntheticLockup", []string{"k", "ctx", "lockID", "superfluidkeeper.Keeper.GetOrCreateIntermediaryAccount(...)#0", "1"}, "a bonded staking marker (synthetic lock) is created for the lock", "")
	c.Returns(SD, 0, "has(superfluidkeeper.Keeper.mintOsmoTokensAndDelegate(k, ctx, superfluidkeeper.Keeper.GetSuperfluidOSMOTokens(k,ctx,_,idx({LOCK}.Coins,0).Amount)#0, _))", "the OSMO-equivalent of exactly the locked amount is minted and delegated", "")
	c.FailsWhen(SD, "sdkmath.Int.IsZero(superfluidkeeper.Keeper.GetSuperfluidOSMOTokens(...)#0)", "a zero OSMO equivalent is rejected", rules.GuardOpt{})
	c.CallArg(SD, "superfluidkeeper.Keeper.GetOrCreateIntermediaryAccount", 2, "idx({LOCK}.Coins,0).Denom", "the intermediary account is the one of the locked denom")
	c.CallArg(SD, "superfluidkeeper.Keeper.GetOrCreateIntermediaryAccount", 3, "valAddr", "…and the chosen validator")
	// ---- undelegate flow
	const UC = K + "undelegateCommon"
	c.CheckedCall(UC, "superfluidkeeper.Keeper.validateLockForSF", []string{"k", "{LOCK}", "sender"}, "ownership and single-coin lock are validated first", "")
	c.Order(UC, "superfluidkeeper.Keeper.validateLockForSF", "superfluidkeeper.Keeper.DeleteLockIdIntermediaryAccountConnection", "validation precedes every write")
	c.HasCall(UC, "superfluidkeeper.Keeper.DeleteLockIdIntermediaryAccountConnection", []string{"k", "ctx", "lockID"}, true, "the connection of this lock is removed", "")
	c.CheckedCall(UC, "superfluidtypes.LockupKeeper.DeleteSyntheticLockup", []string{"_", "ctx", "lockID", "superfluidkeeper.stakingSyntheticDenom(idx({LOCK}.Coins,0).Denom, superfluidkeeper.Keeper.GetIntermediaryAccountFromLockId(k,ctx,lockID)#0.ValAddr)"}, "the staking marker of this lock at its validator is removed", "")
	c.CheckedCall(UC, "superfluidkeeper.Keeper.forceUndelegateAndBurnOsmoTokens", []string{"k", "ctx", "superfluidkeeper.Keeper.GetSuperfluidOSMOTokens(k,ctx,_,idx({LOCK}.Coins,0).Amount)#0", "superfluidkeeper.Keeper.GetIntermediaryAccountFromLockId(k,ctx,lockID)#0"}, "the OSMO-equivalent of the locked amount is undelegated from this lock's intermediary account and burned", "")
	c.FailsWhen(UC, "not(superfluidkeeper.Keeper.GetIntermediaryAccountFromLockId(k,ctx,lockID)#1)", "a lock that is not superfluid-delegated cannot be undelegated", rules.GuardOpt{Before: "superfluidkeeper.Keeper.DeleteLockIdIntermediaryAccountConnection"})
	const VL = K + "validateLockForSF"
	c.FailsWhen(VL, "ne(lock.Owner, sender)", "only the lock owner may act", rules.GuardOpt{})
	c.FailsWhen(VL, "ne(sdk.Coins.Len(lock.Coins), 1)", "only single-coin locks are supported", rules.GuardOpt{})
	c.CheckedCall(K+"SuperfluidUndelegate", "superfluidkeeper.Keeper.createSyntheticLockup", []string{"k", "ctx", "lockID", "superfluidkeeper.Keeper.undelegateCommon(k,ctx,sender,lockID)#0", "0"}, "undelegating leaves an unlocking (unstaking) marker for the unbonding period", "")
	c.ConstValue("x/superfluid/keeper", "unlockingStatus", "0")
	c.ConstValue("x/superfluid/keeper", "bondedStatus", "1")
	// ---- unbond
	const UL = K + "unbondLock"
	c.Let("ULOCK", "superfluidtypes.LockupKeeper.GetLockByID(k.lk,ctx,underlyingLockId)#0")
	c.CheckedCall(UL, "superfluidkeeper.Keeper.validateLockForSF", []string{"k", "{ULOCK}", "sender"}, "ownership is validated first", "")
	c.FailsWhen(UL, "not(lockuptypes.SyntheticLock.IsUnlocking(superfluidtypes.LockupKeeper.GetSyntheticLockupByUnderlyingLockId(k.lk,ctx,underlyingLockId)#0))", "a lock whose staking marker is still bonded cannot be force-unlocked", rules.GuardOpt{Before: "superfluidtypes.LockupKeeper.BeginForceUnlock"})
	c.CallArg(UL, "superfluidtypes.LockupKeeper.BeginForceUnlock", 2, "underlyingLockId", "the lock that starts unlocking is the validated one")
	// ---- epoch refresh: stake is moved to the expected amount
	const RF = K + "RefreshIntermediaryDelegationAmounts"
	c.Let("RCTX", "sdk.UnwrapSDKContext(context)")
	c.Let("VAL", "sdk.ValAddressFromBech32(elem(accs).ValAddr)#0")
	c.Let("EXP", "superfluidkeeper.Keeper.GetExpectedDelegationAmount(k,{RCTX},elem(accs))#0")
	c.Let("CUR", "phi(sdkmath.NewInt(0), sdkmath.LegacyDec.RoundInt(stakingtypes.Validator.TokensFromShares(superfluidtypes.StakingKeeper.GetValidator(k.sk,{RCTX},{VAL})#0, superfluidtypes.StakingKeeper.GetDelegation(k.sk,{RCTX},superfluidtypes.SuperfluidIntermediaryAccount.GetAccAddress(elem(accs)),{VAL})#0.Shares)))")
	c.CallArg(RF, "superfluidkeeper.Keeper.mintOsmoTokensAndDelegate", 2, "sdkmath.Int.Sub({EXP},{CUR})", "a shortfall is topped up by expected − current stake (current = 0 when the account has no delegation record)")
	c.CallArg(RF, "superfluidkeeper.Keeper.mintOsmoTokensAndDelegate", 3, "elem(accs)", "…for the account being refreshed")
	c.OnlyWhen(RF, "superfluidkeeper.Keeper.mintOsmoTokensAndDelegate", "sdkmath.Int.GT({EXP},{CUR})", "minting only when expected > current")
	c.CallArg(RF, "superfluidkeeper.Keeper.forceUndelegateAndBurnOsmoTokens", 2, "sdkmath.Int.Sub({CUR},{EXP})", "an excess is removed by current − expected stake")
	c.CallArg(RF, "superfluidkeeper.Keeper.forceUndelegateAndBurnOsmoTokens", 3, "elem(accs)", "…from the account being refreshed")
	c.OnlyWhen(RF, "superfluidkeeper.Keeper.forceUndelegateAndBurnOsmoTokens", "sdkmath.Int.GT({CUR},{EXP})", "burning only when current > expected")
	c.HasCall(RF, "superfluidkeeper.Keeper.mintOsmoTokensAndDelegate", nil, false, "the refresh can raise the stake", "exists")
	c.HasCall(RF, "superfluidkeeper.Keeper.forceUndelegateAndBurnOsmoTokens", nil, false, "the refresh can lower the stake", "exists")
	const GE = K + "GetExpectedDelegationAmount"
	c.Returns(GE, 0, "superfluidkeeper.Keeper.GetSuperfluidOSMOTokens(k,ctx,acc.Denom,superfluidkeeper.Keeper.GetTotalSyntheticAssetsLocked(k,ctx,superfluidkeeper.stakingSyntheticDenom(acc.Denom,acc.ValAddr))#0)#0 | zero:Int() | nil", "expected stake = risk-adjusted OSMO value of everything carrying the account's staking marker", "")
	c.Returns(K+"GetTotalSyntheticAssetsLocked", 0, "superfluidtypes.LockupKeeper.GetPeriodLocksAccumulation(k.lk,ctx,with:Duration(with:Denom(with:LockQueryType(zero:QueryCondition(),0),denom),superfluidtypes.StakingKeeper.UnbondingTime(k.sk,ctx)#0)) | zero:Int()", "the marker total is the by-duration accumulation of the marker denom from the unbonding time up", "")
	// ---- staking / unstaking markers (synthetic locks)
	const CW = K + "createSyntheticLockupWithDuration"
	c.Let("CSL", "superfluidtypes.LockupKeeper.CreateSyntheticLockup")
	c.OnlyWhen(CW, "{CSL}[3=superfluidkeeper.unstakingSyntheticDenom(intermediateAcc.Denom,intermediateAcc.ValAddr)]", "eq(lockingStat,0)", "the unstaking marker denom is used only for the unlocking status")
	c.OnlyWhen(CW, "{CSL}[5=true]", "eq(lockingStat,0)", "a marker is created as unlocking (with an end time) only for the unlocking status")
	c.OnlyWhen(CW, "{CSL}[3=superfluidkeeper.stakingSyntheticDenom(intermediateAcc.Denom,intermediateAcc.ValAddr)]", "ne(lockingStat,0)", "the staking marker denom is used only for the bonded status")
	c.OnlyWhen(CW, "{CSL}[5=false]", "ne(lockingStat,0)", "a marker without end time is created only for the bonded status")
	c.CallWhere(CW, "{CSL}", 5, "true", 3, "superfluidkeeper.unstakingSyntheticDenom(intermediateAcc.Denom,intermediateAcc.ValAddr)", "an unlocking marker always carries the unstaking denom", "unst")
	c.CallWhere(CW, "{CSL}", 5, "false", 3, "superfluidkeeper.stakingSyntheticDenom(intermediateAcc.Denom,intermediateAcc.ValAddr)", "a bonded marker always carries the staking denom", "st")
	c.CallArg(CW, "superfluidtypes.LockupKeeper.CreateSyntheticLockup", 2, "underlyingLockId", "the marker is attached to the given lock")
	c.CallArg(CW, "superfluidtypes.LockupKeeper.CreateSyntheticLockup", 4, "unlockingDuration", "the marker lasts the given duration")
	c.CallArg(K+"createSyntheticLockup", "superfluidkeeper.Keeper.createSyntheticLockupWithDuration", 4, "superfluidtypes.StakingKeeper.GetParams(k.sk,ctx)#0.UnbondingTime", "markers last the staking unbonding period")
	const LK = "x/lockup/keeper.Keeper."
	const CS = LK + "CreateSyntheticLockup"
	c.Let("SLOCK", "lockupkeeper.Keeper.GetLockByID(k,ctx,lockID)#0")
	c.FailsWhen(CS, "lockupkeeper.Keeper.GetSyntheticLockupByUnderlyingLockId(k,ctx,lockID)#1", "a lock carries at most one marker", rules.GuardOpt{Before: "lockupkeeper.Keeper.setSyntheticLockupObject"})
	c.FailsWhen(CS, "gt(unlockDuration,{SLOCK}.Duration)", "an unstaking marker cannot outlast the lock's own duration", rules.GuardOpt{Context: []string{"isUnlocking"}, Conditional: true})
	c.StoreField(CS, "EndTime", "phi(nil, time.Time.Add(sdk.Context.BlockTime(ctx), unlockDuration))", "an unlocking marker ends exactly unlockDuration after the current block time; a bonded one has no end time")
	c.StoreField(CS, "Duration", "unlockDuration", "the marker records its duration")
	c.StoreField(CS, "UnderlyingLockId", "lockID", "…and its lock")
	c.StoreField(CS, "SynthDenom", "synthDenom", "…and its denom")
	c.CallArg(CS, "sumtree.Tree.Increase", 0, "lockupkeeper.Keeper.accumulationStore(k,ctx,synthDenom)", "the marker's amount is accumulated under the marker denom")
	c.CallArg(CS, "sumtree.Tree.Increase", 1, "lockupkeeper.accumulationKey(unlockDuration)", "…in the bucket of the marker's duration")
	c.CallArg(CS, "sumtree.Tree.Increase", 2, "lockuptypes.PeriodLock.SingleCoin({SLOCK})#0.Amount", "…with the lock's amount")
	const DS = LK + "DeleteSyntheticLockup"
	c.Let("SYN", "lockupkeeper.Keeper.GetSyntheticLockup(k,ctx,lockID,synthdenom)#0")
	c.CallArg(DS, "sumtree.Tree.Decrease", 0, "lockupkeeper.Keeper.accumulationStore(k,ctx,{SYN}.SynthDenom)", "deleting a marker removes its amount from the marker denom's accumulation")
	c.CallArg(DS, "sumtree.Tree.Decrease", 1, "lockupkeeper.accumulationKey({SYN}.Duration)", "…from the bucket of the marker's duration (the one create, add-tokens, slash and genesis use)")
	c.CallArg(DS, "sumtree.Tree.Decrease", 2, "lockuptypes.PeriodLock.SingleCoin({SLOCK})#0.Amount", "…by the lock's amount")
	c.HasCall(DS, "lockupkeeper.Keeper.deleteSyntheticLockupObject", []string{"k", "ctx", "lockID", "synthdenom"}, true, "the marker record disappears", "")
	c.CheckedCall(DS, "lockupkeeper.Keeper.deleteSyntheticLockRefs", []string{"k", "ctx", "{SLOCK}", "{SYN}"}, "the marker's index entries disappear", "")
	c.HasCall(DS, "sumtree.Tree.Decrease", nil, true, "the accumulation is decreased on success", "exists")
	c.CallWhere(LK+"AddTokensToLockByID", "sumtree.Tree.Increase", 0, "lockupkeeper.Keeper.accumulationStore(k,ctx,lockupkeeper.Keeper.GetSyntheticLockupByUnderlyingLockId(...)#0.SynthDenom)", 1, "lockupkeeper.accumulationKey(lockupkeeper.Keeper.GetSyntheticLockupByUnderlyingLockId(...)#0.Duration)", "a top-up is accumulated in the marker's duration bucket", "synth-key")
	c.CallWhere(LK+"removeTokensFromLock", "sumtree.Tree.Decrease", 0, "lockupkeeper.Keeper.accumulationStore(k,ctx,lockupkeeper.Keeper.GetSyntheticLockupByUnderlyingLockId(...)#0.SynthDenom)", 1, "lockupkeeper.accumulationKey(lockupkeeper.Keeper.GetSyntheticLockupByUnderlyingLockId(...)#0.Duration)", "a slash leaves the marker's duration bucket", "synth-key")
	// ---- unbond-convert-and-stake: a bonded lock is undelegated (stake burned, connection removed) before it is converted
	const UCS = K + "UnbondConvertAndStake"
	c.Let("MT", "superfluidkeeper.Keeper.getMigrationType(k,ctx,lockID)#1")
	c.ReachedWhen(UCS, "superfluidkeeper.Keeper.undelegateCommon", "eq({MT},0)", "a superfluid-bonded lock always goes through undelegateCommon (minted stake burned, connection and marker removed)")
	c.CheckedCallOpt(UCS, "superfluidkeeper.Keeper.undelegateCommon", []string{"k", "ctx", "sender", "lockID"}, "…for the sender's lock, and its failure aborts the conversion", "", false)
	c.NeverAfter(UCS, "superfluidkeeper.Keeper.convertLockToStake", "superfluidkeeper.Keeper.undelegateCommon", "the undelegation precedes the conversion that force-unlocks and deletes the lock")
	c.ConstValue("x/superfluid/keeper", "SuperfluidBonded", "0")
	// ---- who may create / delete the bookkeeping records
	c.WhoMayCall(K+"DeleteIntermediaryAccount", []string{}, "intermediary accounts are never deleted while the chain runs (an account with no delegation this epoch is refreshed again when the price recovers)")
	c.WhoMayCall(K+"SetIntermediaryAccount", []string{"superfluidkeeper.Keeper.GetOrCreateIntermediaryAccount", "superfluidkeeper.Keeper.InitGenesis"}, "intermediary accounts are created on first delegation (or imported)")
	c.WhoMayCall(K+"DeleteLockIdIntermediaryAccountConnection", []string{"superfluidkeeper.Keeper.undelegateCommon"}, "a lock's connection is removed only by undelegation")
	c.WhoMayCall(K+"SetLockIdIntermediaryAccountConnection", []string{"superfluidkeeper.Keeper.SuperfluidDelegate", "superfluidkeeper.Keeper.InitGenesis"}, "a lock's connection is created only by delegation (or imported)")
	// lockup side: BeginUnlock refuses locks with synthetic locks (shared with C06)
	c.FailsWhen("x/lockup/keeper.Keeper.BeginUnlock", "lockupkeeper.Keeper.HasAnySyntheticLockups(k,ctx,lockupkeeper.Keeper.GetLockByID(k,ctx,lockID)#0.ID)", "a lock cannot start unlocking while it has a synthetic (superfluid) lock", rules.GuardOpt{Before: "lockupkeeper.Keeper.beginUnlock"})
}
