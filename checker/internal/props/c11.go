package props

import "osmolint/internal/rules"

func init() {
	register(&Prop{
		ID: "C11",
		Explanation: "Superfluid staking, structural clauses: minting for delegation is paired with a supply offset of the negated amount and the same amount is sent to the intermediary account and delegated; undelegation sends back and burns exactly the instantly-undelegated coins and offsets the supply by their bond-denom amount, all inside cache-context closures that use only the cache context; " +
			"delegating records the lock↔intermediary connection and a bonded synthetic lock before staking, undelegating removes both before unstaking; every flow validates lock ownership (and single-coin locks) first; a lock can be force-unlocked through superfluid only when its synthetic lock is already unlocking; the refresh adjusts stake by the difference in the direction of the comparison.",
		NotCovered:  []string{"stake = risk-adjusted value to within one unit per lock", "supply neutrality as a number", "drift over epochs"},
		Assumptions: []string{"staking keeper Delegate / InstantUndelegate semantics", "cache-context helper (C17)"},
		MinObl:      30,
		Run:         runC11,
	})
}

func runC11(c *rules.Ctx) {
	const K = "x/superfluid/keeper.Keeper."
	// ---- cache-context closures
	c.ApplyFuncClosures("x/superfluid/keeper", 3, "state changes of a superfluid step happen only through the cache context handed to the closure (discarded on error)")
	// ---- mint / delegate
	const MD = K + "mintOsmoTokensAndDelegate$1"
	c.Let("COINS", "list(sdk.NewCoin(superfluidtypes.StakingKeeper.BondDenom(^k.sk,cacheCtx)#0, ^osmoAmount))")
	c.CheckedCall(MD, "superfluidtypes.BankKeeper.MintCoins", []string{"_", "cacheCtx", "@superfluidtypes.ModuleName", "{COINS}"}, "exactly osmoAmount of the bond denom is minted to the superfluid module", "")
	c.HasCall(MD, "superfluidtypes.BankKeeper.AddSupplyOffset", []string{"_", "cacheCtx", "superfluidtypes.StakingKeeper.BondDenom(^k.sk,cacheCtx)#0", "sdkmath.Int.Neg(^osmoAmount)"}, true, "the reported supply is offset by −osmoAmount (supply neutral)", "")
	c.CheckedCall(MD, "superfluidtypes.BankKeeper.SendCoinsFromModuleToAccount", []string{"_", "cacheCtx", "@superfluidtypes.ModuleName", "superfluidtypes.SuperfluidIntermediaryAccount.GetAccAddress(^intermediaryAccount)", "{COINS}"}, "the minted coins go to the intermediary account", "")
	c.HasCall(MD, "superfluidtypes.StakingKeeper.Delegate", []string{"_", "cacheCtx", "superfluidtypes.SuperfluidIntermediaryAccount.GetAccAddress(^intermediaryAccount)", "^osmoAmount", "_", "_", "true"}, true, "and the same amount is delegated from the intermediary account", "")
	c.Order(MD, "superfluidtypes.BankKeeper.MintCoins", "superfluidtypes.BankKeeper.AddSupplyOffset", "offset follows mint")
	c.Order(MD, "superfluidtypes.BankKeeper.SendCoinsFromModuleToAccount", "superfluidtypes.StakingKeeper.Delegate", "delegate after the account was funded")
	// ---- undelegate / burn
	const UB = K + "forceUndelegateAndBurnOsmoTokens$1"
	c.Let("UND", "superfluidtypes.StakingKeeper.InstantUndelegate(^k.sk,cacheCtx,superfluidtypes.SuperfluidIntermediaryAccount.GetAccAddress(^intermediaryAcc),^valAddr,^shares)#0")
	c.CheckedCall(UB, "superfluidtypes.BankKeeper.SendCoinsFromAccountToModule", []string{"_", "cacheCtx", "superfluidtypes.SuperfluidIntermediaryAccount.GetAccAddress(^intermediaryAcc)", "@superfluidtypes.ModuleName", "{UND}"}, "exactly the undelegated coins return to the module", "")
	c.CheckedCall(UB, "superfluidtypes.BankKeeper.BurnCoins", []string{"_", "cacheCtx", "@superfluidtypes.ModuleName", "{UND}"}, "and exactly those coins are burned", "")
	c.HasCall(UB, "superfluidtypes.BankKeeper.AddSupplyOffset", []string{"_", "cacheCtx", "superfluidtypes.StakingKeeper.BondDenom(^k.sk,cacheCtx)#0", "sdk.Coins.AmountOf({UND}, superfluidtypes.StakingKeeper.BondDenom(^k.sk,cacheCtx)#0)"}, true, "the supply offset is raised by the burned bond-denom amount (supply neutral)", "")
	c.Order(UB, "superfluidtypes.BankKeeper.SendCoinsFromAccountToModule", "superfluidtypes.BankKeeper.BurnCoins", "burn after the coins are back in the module")
	c.HasCall(K+"forceUndelegateAndBurnOsmoTokens", "superfluidtypes.StakingKeeper.ValidateUnbondAmount", []string{"_", "ctx", "superfluidtypes.SuperfluidIntermediaryAccount.GetAccAddress(intermediaryAcc)", "sdk.ValAddressFromBech32(intermediaryAcc.ValAddr)#0", "osmoAmount"}, true, "the shares to unbond are computed for the given amount at the account's validator", "")
	// ---- delegate flow
	const SD = K + "SuperfluidDelegate"
	c.Let("LOCK", "superfluidtypes.LockupKeeper.GetLockByID(k.lk,ctx,lockID)#0")
	c.CheckedCall(SD, "superfluidkeeper.Keeper.validateLockForSFDelegate", []string{"k", "ctx", "{LOCK}", "sender"}, "the lock is validated for the sender first", "")
	c.Order(SD, "superfluidkeeper.Keeper.validateLockForSFDelegate", "superfluidkeeper.Keeper.SetLockIdIntermediaryAccountConnection", "validation precedes every write")
	c.HasCall(SD, "superfluidkeeper.Keeper.SetLockIdIntermediaryAccountConnection", []string{"k", "ctx", "lockID", "superfluidkeeper.Keeper.GetOrCreateIntermediaryAccount(...)#0"}, true, "the lock is connected to the intermediary account of (denom, validator)", "")
	c.CheckedCall(SD, "superfluidkeeper.Keeper.createSyntheticLockup", []string{"k", "ctx", "lockID", "superfluidkeeper.Keeper.GetOrCreateIntermediaryAccount(...)#0", "1"}, "a bonded staking marker (synthetic lock) is created for the lock", "")
	c.Returns(SD, 0, "has(superfluidkeeper.Keeper.mintOsmoTokensAndDelegate(k, ctx, superfluidkeeper.Keeper.GetSuperfluidOSMOTokens(k,ctx,_,idx({LOCK}.Coins,0).Amount)#0, _))", "the OSMO-equivalent of exactly the locked amount is minted and delegated", "")
	c.FailsWhen(SD, "sdkmath.Int.IsZero(superfluidkeeper.Keeper.GetSuperfluidOSMOTokens(...)#0)", "a zero OSMO equivalent is rejected", rules.GuardOpt{})
	c.CallArg(SD, "superfluidkeeper.Keeper.GetOrCreateIntermediaryAccount", 2, "idx({LOCK}.Coins,0).Denom", "the intermediary account is the one of the locked denom")
	c.CallArg(SD, "superfluidkeeper.Keeper.GetOrCreateIntermediaryAccount", 3, "valAddr", "…and the chosen validator")
	// ---- undelegate flow
	const UC = K + "undelegateCommon"
	c.CheckedCall(UC, "superfluidkeeper.Keeper.validateLockForSF", []string{"k", "{LOCK}", "sender"}, "ownership and single-coin lock are validated first", "")
	c.Order(UC, "superfluidkeeper.Keeper.validateLockForSF", "superfluidkeeper.Keeper.DeleteLockIdIntermediaryAccountConnection", "validation precedes every write")
	c.HasCall(UC, "superfluidkeeper.Keeper.DeleteLockIdIntermediaryAccountConnection", []string{"k", "ctx", "lockID"}, true, "the connection of this lock is removed", "")
	c.CheckedCall(UC, "superfluidtypes.LockupKeeper.DeleteSyntheticLockup", []string{"_", "ctx", "lockID", "superfluidkeeper.stakingSyntheticDenom(idx({LOCK}.Coins,0).Denom, superfluidkeeper.Keeper.GetIntermediaryAccountFromLockId(k,ctx,lockID)#0.ValAddr)"}, "the staking marker of this lock at its validator is removed", "")
	c.CheckedCall(UC, "superfluidkeeper.Keeper.forceUndelegateAndBurnOsmoTokens", []string{"k", "ctx", "superfluidkeeper.Keeper.GetSuperfluidOSMOTokens(k,ctx,_,idx({LOCK}.Coins,0).Amount)#0", "superfluidkeeper.Keeper.GetIntermediaryAccountFromLockId(k,ctx,lockID)#0"}, "the OSMO-equivalent of the locked amount is undelegated from this lock's intermediary account and burned", "")
	c.FailsWhen(UC, "not(superfluidkeeper.Keeper.GetIntermediaryAccountFromLockId(k,ctx,lockID)#1)", "a lock that is not superfluid-delegated cannot be undelegated", rules.GuardOpt{Before: "superfluidkeeper.Keeper.DeleteLockIdIntermediaryAccountConnection"})
	const VL = K + "validateLockForSF"
	c.FailsWhen(VL, "ne(lock.Owner, sender)", "only the lock owner may act", rules.GuardOpt{})
	c.FailsWhen(VL, "ne(sdk.Coins.Len(lock.Coins), 1)", "only single-coin locks are supported", rules.GuardOpt{})
	c.CheckedCall(K+"SuperfluidUndelegate", "superfluidkeeper.Keeper.createSyntheticLockup", []string{"k", "ctx", "lockID", "superfluidkeeper.Keeper.undelegateCommon(k,ctx,sender,lockID)#0", "0"}, "undelegating leaves an unlocking (unstaking) marker for the unbonding period", "")
	c.ConstValue("x/superfluid/keeper", "unlockingStatus", "0")
	c.ConstValue("x/superfluid/keeper", "bondedStatus", "1")
	// ---- unbond
	const UL = K + "unbondLock"
	c.Let("ULOCK", "superfluidtypes.LockupKeeper.GetLockByID(k.lk,ctx,underlyingLockId)#0")
	c.CheckedCall(UL, "superfluidkeeper.Keeper.validateLockForSF", []string{"k", "{ULOCK}", "sender"}, "ownership is validated first", "")
	c.FailsWhen(UL, "not(lockuptypes.SyntheticLock.IsUnlocking(superfluidtypes.LockupKeeper.GetSyntheticLockupByUnderlyingLockId(k.lk,ctx,underlyingLockId)#0))", "a lock whose staking marker is still bonded cannot be force-unlocked", rules.GuardOpt{Before: "superfluidtypes.LockupKeeper.BeginForceUnlock"})
	c.CallArg(UL, "superfluidtypes.LockupKeeper.BeginForceUnlock", 2, "underlyingLockId", "the lock that starts unlocking is the validated one")
	// lockup side: BeginUnlock refuses locks with synthetic locks (shared with C06)
	c.FailsWhen("x/lockup/keeper.Keeper.BeginUnlock", "lockupkeeper.Keeper.HasAnySyntheticLockups(k,ctx,lockupkeeper.Keeper.GetLockByID(k,ctx,lockID)#0.ID)", "a lock cannot start unlocking while it has a synthetic (superfluid) lock", rules.GuardOpt{Before: "lockupkeeper.Keeper.beginUnlock"})
}
