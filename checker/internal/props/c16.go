package props

import "osmolint/internal/rules"

func init() {
	register(&Prop{
		ID: "C16",
		Explanation: "Sum-tree, query side only: decides which components of the three-way split (left, exact, right) each range-sum API adds, that Increase/Decrease are read-modify-write on the same key with the same amount (negated for Decrease), " +
			"that the leaf case of the split maps key comparison -1/0/+1 to left/exact/right, and that a nil (open) bound is never used as a real key without the nil test.",
		NotCovered:  []string{"everything in node.go (push/split/pull/merge), i.e. the B+-tree itself", "equivalence with a sorted map over operation sequences", "all fan-out settings"},
		Assumptions: []string{"accumulationSplit's inner-node recursion (node.go helpers) is correct"},
		MinObl:      22,
		Run:         runC16,
	})
}

func runC16(c *rules.Ctx) {
	const T = "osmoutils/sumtree.Tree."
	c.Let("SPLIT_S", "sumtree.ptr.accumulationSplit(sumtree.Tree.root(t),start)")
	c.Let("SPLIT_E", "sumtree.ptr.accumulationSplit(sumtree.Tree.root(t),end)")
	// Increase = Set(key, Get(key)+amt); Decrease = Increase(key, -amt)
	c.HasCall(T+"Increase", "sumtree.Tree.Set", []string{"t", "key", "sdkmath.Int.Add(sumtree.Tree.Get(t,key), amt)"}, true, "increase is a read-modify-write of the same key by exactly amt", "")
	c.HasCall(T+"Decrease", "sumtree.Tree.Increase", []string{"t", "key", "sdkmath.Int.Neg(amt)"}, true, "decrease is an increase by the negated amount on the same key", "")
	// delegations
	c.Returns(T+"TotalAccumulatedValue", 0, "sumtree.Tree.SubsetAccumulation(t,nil,nil)", "total = subset with both ends open", "")
	c.Returns(T+"PrefixSum", 0, "sumtree.Tree.SubsetAccumulation(t,nil,key)", "prefix sum = subset from the open start to key (inclusive)", "")
	c.Returns(T+"SplitAcc", 0, "sumtree.ptr.accumulationSplit(sumtree.Tree.root(t),key)#0", "split left", "/left")
	c.Returns(T+"SplitAcc", 1, "sumtree.ptr.accumulationSplit(sumtree.Tree.root(t),key)#1", "split exact", "/exact")
	c.Returns(T+"SplitAcc", 2, "sumtree.ptr.accumulationSplit(sumtree.Tree.root(t),key)#2", "split right", "/right")
	// SubsetAccumulation: the four cases of (start open?, end open?)
	c.OnlyWhenReturn(T+"SubsetAccumulation", "sdkmath.Int.Add(sdkmath.Int.Add({SPLIT_E}#0,{SPLIT_E}#1),{SPLIT_E}#2)", "eq(end,nil)", "left+exact+right of a split is returned only when the end is open")
	c.OnlyWhenReturn(T+"SubsetAccumulation", "sdkmath.Int.Add({SPLIT_E}#0,{SPLIT_E}#1)", "eq(start,nil)", "left+exact(end) is returned only when the start is open")
	c.OnlyWhenReturn(T+"SubsetAccumulation", "sdkmath.Int.Add({SPLIT_E}#0,{SPLIT_E}#1)", "ne(end,nil)", "…and the end is a real key (sentinel consistency: the open-end marker is not used as a key)")
	c.OnlyWhenReturn(T+"SubsetAccumulation", "sdkmath.Int.Add({SPLIT_S}#1,{SPLIT_S}#2)", "eq(end,nil)", "exact+right(start) is returned only when the end is open")
	c.OnlyWhenReturn(T+"SubsetAccumulation", "sdkmath.Int.Add({SPLIT_S}#1,{SPLIT_S}#2)", "ne(start,nil)", "…and the start is a real key")
	c.OnlyWhenReturn(T+"SubsetAccumulation", "sdkmath.Int.Sub(sdkmath.Int.Add({SPLIT_S}#1,{SPLIT_S}#2),{SPLIT_E}#2)", "ne(start,nil)", "closed range = exact+right(start) − right(end), only for a real start")
	c.OnlyWhenReturn(T+"SubsetAccumulation", "sdkmath.Int.Sub(sdkmath.Int.Add({SPLIT_S}#1,{SPLIT_S}#2),{SPLIT_E}#2)", "ne(end,nil)", "…and a real end")
	c.Returns(T+"SubsetAccumulation", 0,
		"sdkmath.Int.Add(sdkmath.Int.Add({SPLIT_E}#0,{SPLIT_E}#1),{SPLIT_E}#2) | sdkmath.Int.Add({SPLIT_E}#0,{SPLIT_E}#1) | sdkmath.Int.Add({SPLIT_S}#1,{SPLIT_S}#2) | sdkmath.Int.Sub(sdkmath.Int.Add({SPLIT_S}#1,{SPLIT_S}#2),{SPLIT_E}#2)",
		"every return is one of the four range formulas", "")
	// leaf case of the split
	const AS = "osmoutils/sumtree.ptr.accumulationSplit"
	c.Let("ACC", "local:leaf().Leaf.Accumulation")
	c.Let("CMP", "bytes.Compare(ptr.key,key)")
	c.ReturnCase(AS, 0, "eq({CMP},-1)", "{ACC}", true, "leaf key < query key ⇔ the leaf counts as left")
	c.ReturnCase(AS, 1, "eq({CMP},0)", "{ACC}", true, "leaf key = query key ⇔ the leaf counts as exact")
	c.ReturnCase(AS, 2, "eq({CMP},1)", "{ACC}", true, "leaf key > query key ⇔ the leaf counts as right")
	c.HasCall(AS, "storetypes.KVStore.Get", []string{"ptr.tree.store", "sumtree.Tree.leafKey(ptr.tree,ptr.key)"}, false, "the leaf read is the leaf of this pointer's key", "")
	// Get reads the leaf of the same key, zero when absent
	c.OnlyWhenReturn(T+"Get", "sdkmath.ZeroInt()", "not(storetypes.KVStore.Has(t.store, sumtree.Tree.leafKey(t,key)))", "a missing key reads as zero")
	c.HasCall(T+"Get", "storetypes.KVStore.Get", []string{"t.store", "sumtree.Tree.leafKey(t,key)"}, false, "Get reads the leaf of the requested key", "")
	c.HasCall(T+"Set", "sumtree.NewLeaf", []string{"key", "acc"}, true, "Set writes a leaf with the given key and value", "")
}
