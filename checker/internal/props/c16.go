package props

import (
	"fmt"
	"strings"

	"golang.org/x/tools/go/ssa"

	"osmolint/internal/ir"
	"osmolint/internal/rules"
)

func init() {
	register(&Prop{
		ID: "C16",
		Explanation: "Sum-tree. Query side: which components of the three-way split (left, exact, right) each range-sum API adds, Increase/Decrease as read-modify-write on the same key with the same (negated) amount, the leaf case mapping key comparison -1/0/+1 to left/exact/right, nil (open) bounds never used as real keys, and the interior case descending into child idx only when it exists. " +
			"Node side: the node value stored by set() is the one whose accumulate() the parent is told (push, pull, merge, updateAccumulation); an emptied node leaves its parent under its own key and is deleted only when the left sibling inheriting its range has the same parent; merges only under one parent and within the fan-out; the 8-bit split position cannot wrap; split/merge bounds; unknown children fail loudly. Round 8: the legacy JSON→protobuf store migration re-encodes every node (branch recursion one level down into every child, leaves at level 0).",
		NotCovered:  []string{"equivalence with a sorted map over operation sequences as such (necessary conditions only)", "iteration order", "all fan-out settings as values"},
		Assumptions: []string{"KV store iterators return keys in byte order (parent()/leftSibling()/rightSibling() rely on it)"},
		MinObl:      65,
		Run:         runC16,
	})
}

func runC16(c *rules.Ctx) {
	sumtreeMigrationRules(c)
	const T = "osmoutils/sumtree.Tree."
	c.Let("SPLIT_S", "sumtree.ptr.accumulationSplit(sumtree.Tree.root(t),start)")
	c.Let("SPLIT_E", "sumtree.ptr.accumulationSplit(sumtree.Tree.root(t),end)")
	// Increase = Set(key, Get(key)+amt); Decrease = Increase(key, -amt)
	c.HasCall(T+"Increase", "sumtree.Tree.Set", []string{"t", "key", "sdkmath.Int.Add(sumtree.Tree.Get(t,key), amt)"}, true, "increase is a read-modify-write of the same key by exactly amt", "")
	c.HasCall(T+"Decrease", "sumtree.Tree.Increase", []string{"t", "key", "sdkmath.Int.Neg(amt)"}, true, "decrease is an increase by the negated amount on the same key", "")
	// delegations
	c.Returns(T+"TotalAccumulatedValue", 0, "sumtree.Tree.SubsetAccumulation(t,nil,nil)", "total = subset with both ends open", "")
	c.Returns(T+"PrefixSum", 0, "sumtree.Tree.SubsetAccumulation(t,nil,key)", "prefix sum = subset from the open start to key (inclusive)", "")
	c.Returns(T+"SplitAcc", 0, "sumtree.ptr.accumulationSplit(sumtree.Tree.root(t),key)#0", "split left", "/left")
	c.Returns(T+"SplitAcc", 1, "sumtree.ptr.accumulationSplit(sumtree.Tree.root(t),key)#1", "split exact", "/exact")
	c.Returns(T+"SplitAcc", 2, "sumtree.ptr.accumulationSplit(sumtree.Tree.root(t),key)#2", "split right", "/right")
	// SubsetAccumulation: the four cases of (start open?, end open?)
	c.OnlyWhenReturn(T+"SubsetAccumulation", "sdkmath.Int.Add(sdkmath.Int.Add({SPLIT_E}#0,{SPLIT_E}#1),{SPLIT_E}#2)", "eq(end,nil)", "left+exact+right of a split is returned only when the end is open")
	c.OnlyWhenReturn(T+"SubsetAccumulation", "sdkmath.Int.Add({SPLIT_E}#0,{SPLIT_E}#1)", "eq(start,nil)", "left+exact(end) is returned only when the start is open")
	c.OnlyWhenReturn(T+"SubsetAccumulation", "sdkmath.Int.Add({SPLIT_E}#0,{SPLIT_E}#1)", "ne(end,nil)", "…and the end is a real key (sentinel consistency: the open-end marker is not used as a key)")
	c.OnlyWhenReturn(T+"SubsetAccumulation", "sdkmath.Int.Add({SPLIT_S}#1,{SPLIT_S}#2)", "eq(end,nil)", "exact+right(start) is returned only when the end is open")
	c.OnlyWhenReturn(T+"SubsetAccumulation", "sdkmath.Int.Add({SPLIT_S}#1,{SPLIT_S}#2)", "ne(start,nil)", "…and the start is a real key")
	c.OnlyWhenReturn(T+"SubsetAccumulation", "sdkmath.Int.Sub(sdkmath.Int.Add({SPLIT_S}#1,{SPLIT_S}#2),{SPLIT_E}#2)", "ne(start,nil)", "closed range = exact+right(start) − right(end), only for a real start")
	c.OnlyWhenReturn(T+"SubsetAccumulation", "sdkmath.Int.Sub(sdkmath.Int.Add({SPLIT_S}#1,{SPLIT_S}#2),{SPLIT_E}#2)", "ne(end,nil)", "…and a real end")
	c.Returns(T+"SubsetAccumulation", 0,
		"sdkmath.Int.Add(sdkmath.Int.Add({SPLIT_E}#0,{SPLIT_E}#1),{SPLIT_E}#2) | sdkmath.Int.Add({SPLIT_E}#0,{SPLIT_E}#1) | sdkmath.Int.Add({SPLIT_S}#1,{SPLIT_S}#2) | sdkmath.Int.Sub(sdkmath.Int.Add({SPLIT_S}#1,{SPLIT_S}#2),{SPLIT_E}#2)",
		"every return is one of the four range formulas", "")
	// leaf case of the split
	const AS = "osmoutils/sumtree.ptr.accumulationSplit"
	c.Let("ACC", "local:leaf().Leaf.Accumulation")
	c.Let("CMP", "bytes.Compare(ptr.key,key)")
	c.ReturnCase(AS, 0, "eq({CMP},-1)", "{ACC}", true, "leaf key < query key ⇔ the leaf counts as left")
	c.ReturnCase(AS, 1, "eq({CMP},0)", "{ACC}", true, "leaf key = query key ⇔ the leaf counts as exact")
	c.ReturnCase(AS, 2, "eq({CMP},1)", "{ACC}", true, "leaf key > query key ⇔ the leaf counts as right")
	c.HasCall(AS, "storetypes.KVStore.Get", []string{"ptr.tree.store", "sumtree.Tree.leafKey(ptr.tree,ptr.key)"}, false, "the leaf read is the leaf of this pointer's key", "")
	// Get reads the leaf of the same key, zero when absent
	c.OnlyWhenReturn(T+"Get", "sdkmath.ZeroInt()", "not(storetypes.KVStore.Has(t.store, sumtree.Tree.leafKey(t,key)))", "a missing key reads as zero")
	c.HasCall(T+"Get", "storetypes.KVStore.Get", []string{"t.store", "sumtree.Tree.leafKey(t,key)"}, false, "Get reads the leaf of the requested key", "")
	c.HasCall(T+"Set", "sumtree.NewLeaf", []string{"key", "acc"}, true, "Set writes a leaf with the given key and value", "")
	// ---- interior case of the split: recursion into the child that covers the key, the rest added on each side
	c.Let("IDX", "phi(sumtree.Node.find(sumtree.ptr.node(ptr),key)#0, sub(sumtree.Node.find(sumtree.ptr.node(ptr),key)#0,1))")
	c.OnlyWhen(AS, "sumtree.ptr.accumulationSplit", "not(lt({IDX},0))", "the split descends into child idx only when that child exists (a key before every child has everything on its right) [F8]")
	c.CallArg(AS, "sumtree.ptr.accumulationSplit", 0, "sumtree.Tree.ptrGet(ptr.tree, sub(ptr.level,1), idx(sumtree.ptr.node(ptr).Children,{IDX}).Index)", "the split descends into the child at (or just before) the key's position, one level down")
	c.CallArg(AS, "sumtree.ptr.accumulationSplit", 1, "key", "…with the same key")
	c.WhenReturn(AS, "lt({IDX},0)", 2, "sumtree.Node.accumulate(sumtree.ptr.node(ptr))", "a key before every child: the whole node is on the right")
	// ---- node mutations (node.go)
	const N = "osmoutils/sumtree.ptr."
	// what a node is set to is what its parent is told: set(p, n) is paired with Child{p.key, n.accumulate()}
	for _, fn := range []string{"push", "pull", "updateAccumulation"} {
		f := c.Fn(N + fn)
		if f == nil {
			continue
		}
		sets := f.CallsTo("sumtree.ptr.set")
		if len(sets) == 0 {
			c.Record("M", N+fn, "set-reported", "node writes exist", false, "no call to sumtree.ptr.set", "")
			continue
		}
		for i, st := range sets {
			args := f.CallArgs(st)
			want := "with:Accumulation(with:Index(zero:Child()," + args[0].String() + ".key),sumtree.Node.accumulate(" + args[1].String() + "))"
			var matches []ssa.CallInstruction
			for _, call := range f.Calls() {
				n := f.CalleeName(call)
				if n != "sumtree.ptr.updateAccumulation" && n != "sumtree.NewNode" {
					continue
				}
				for _, a := range f.CallArgs(call) {
					if strings.Contains(a.String(), want) {
						matches = append(matches, call)
					}
				}
			}
			// the report must accompany this very store: it follows it on every path, or precedes (dominates) it
			found := len(matches) > 0 && c.FollowedBy(f, st, matches)
			for _, m := range matches {
				if ir.InstrDominates(m, st) {
					found = true
				}
			}
			c.Record("M", N+fn, fmt.Sprintf("set-reported#%d", i+1), "the sum reported to the parent for a node is the sum of exactly the node value that was stored (stored = reported) [F9]", found,
				map[bool]string{true: "parent receives accumulate() of the stored node", false: "no parent update carries " + want}[found], c.P.Rel(st.Pos()))
		}
	}
	c.Let("LEFT", "sumtree.ptr.leftSibling(ptr)")
	c.Let("RIGHT", "sumtree.ptr.rightSibling(ptr)")
	c.Let("PARENT", "sumtree.ptr.parent(ptr)")
	c.CallArg(N+"pull", "sumtree.ptr.pull[0={PARENT}]", 1, "ptr.key", "an emptied node is removed from its parent under the node's own key")
	c.CallArg(N+"pull", "sumtree.ptr.pull[0=sumtree.ptr.parent({LEFT})]", 1, "{RIGHT}.key", "a merged-away right sibling is removed from the parent under its own key")
	c.OnlyWhen(N+"pull", "sumtree.ptr.delete[0=ptr]", "sumtree.ptr.exists({LEFT}) & bytes.Equal(sumtree.ptr.parent({LEFT}).key, {PARENT}.key)", "an emptied node is deleted only when the left sibling that inherits its key range has the same parent [F10]")
	c.OnlyWhen(N+"pull", "sumtree.ptr.delete[0=ptr]", "not(gt(len(sumtree.Node.delete(_,_).Children),0))", "…and only when it has no child left")
	c.OnlyWhen(N+"pull", "sumtree.ptr.delete[0={RIGHT}]", "bytes.Equal(sumtree.ptr.parent({LEFT}).key, sumtree.ptr.parent({RIGHT}).key) & lt(add(len(sumtree.ptr.node({LEFT}).Children),len(sumtree.ptr.node({RIGHT}).Children)),ptr.tree.m)", "siblings are merged only under one parent and when the merged node fits")
	c.CallArg(N+"pull", "sumtree.ptr.set[0={LEFT}]", 1, "sumtree.Node.merge(sumtree.ptr.node({LEFT}), sumtree.ptr.node({RIGHT}))", "the merge keeps the left node's children followed by the right node's")
	c.NeverAfter(N+"pull", "sumtree.ptr.delete[0=ptr]", "sumtree.ptr.rightSibling|sumtree.ptr.leftSibling", "the neighbours of an emptied node are located before it is deleted (afterwards the iterator no longer starts at it)")
	c.OnlyWhen(N+"rightSibling", "cosmos-db.Iterator.Next", "sumtree.ptr.exists(ptr)", "the right-sibling scan skips its first entry only when that entry is the node itself")
	c.OnlyWhen(N+"rightSibling", "sumtree.ptrIterator.ptr", "cosmos-db.Iterator.Valid(_)", "…and yields a sibling only from a valid iterator")
	c.FailsWhen(N+"pull", "not(sumtree.Node.find(sumtree.ptr.node(ptr),key)#1)", "pulling a key the node does not hold is a loud error", rules.GuardOpt{Conditional: true})
	c.CallArg(N+"pull", "sumtree.Node.delete", 1, "sumtree.Node.find(sumtree.ptr.node(ptr),key)#0", "the child removed is the one found for the key")
	// push: split position and the keys under which the halves are filed
	c.NoWrap(N+"push", "sumtree.Node.split", 1, "the split position computed from the 8-bit fan-out cannot wrap for any fan-out")
	c.OnlyWhen(N+"push", "sumtree.Node.split", "gt(len(_.Children), ptr.tree.m)", "a node is split only when it overflows the fan-out")
	c.FailsWhen(N+"updateAccumulation", "not(sumtree.Node.find(sumtree.ptr.node(ptr),c.Index)#1)", "an accumulation update for a child the node does not hold is a loud error", rules.GuardOpt{Conditional: true})
	c.CallArg(N+"updateAccumulation", "sumtree.Node.setAcc", 1, "sumtree.Node.find(sumtree.ptr.node(ptr),c.Index)#0", "the entry updated is the one found for the child's key")
	c.CallArg(N+"updateAccumulation", "sumtree.Node.setAcc", 2, "c.Accumulation", "…and it takes the child's new sum")
	// Remove / Set route through the leaf's parent
	c.HasCall(T+"Remove", "sumtree.ptr.pull", []string{"sumtree.ptr.parent(sumtree.Tree.ptrGet(t,0,key))", "key"}, false, "removal pulls the key out of the leaf's parent", "")
	c.HasCall(T+"Set", "sumtree.ptr.push", []string{"sumtree.ptr.parent(sumtree.Tree.ptrGet(t,0,key))", "_"}, true, "a set pushes the leaf into the leaf's parent", "")
	// node helpers
	const ND = "osmoutils/sumtree.Node."
	c.Returns(ND+"split", 0, "sumtree.NewNode(slice(node.Children,_,idx))", "split: the left half is children[:idx]", "/l")
	c.Returns(ND+"split", 1, "sumtree.NewNode(slice(node.Children,idx,_))", "split: the right half is children[idx:]", "/r")
	c.Returns(ND+"merge", 0, "sumtree.NewNode(append(node.Children, node2.Children))", "merge: left children then right children", "")
	// iteration bounds are passed through in order; the legacy migration keeps every child
	c.Returns(T+"Iterator", 0, "sumtree.Tree.ptrIterator(t,0,begin,end)", "forward iteration from begin to end", "")
	c.Returns(T+"ReverseIterator", 0, "sumtree.Tree.ptrReverseIterator(t,0,begin,end)", "reverse iteration over the same [begin,end) bounds", "")
	c.LoopBodyStraight("osmoutils/sumtree/legacy/v101.migrateBranchValue", "the json→proto migration converts every child of a branch (also those with zero accumulation)")
}
