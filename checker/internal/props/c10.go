package props

import "osmolint/internal/rules"

func init() {
	register(&Prop{
		ID: "C10",
		Explanation: "TWAP, structural clauses: the accumulators advance by the OLD record's last spot price (P0 into P0, P1 into P1, log2 of P0 into the geometric one) times the elapsed canonical milliseconds between the record's time and the new time; the arithmetic strategy reads the accumulator of the quote side, the geometric one inverts exactly in the two documented cases; " +
			"an interval is flagged when the end record's error time is at/after the start time or the start record's error time equals its time; spot-price errors, zero or clamped prices stamp the error time with the block time; the record at-or-before a time is found by reverse iteration ending at that time; pruning never deletes the newest record before the keep time; new records update the most-recent and historical indexes together. Round 8: the per-block record update (advance to block time, new spot prices and error time from getSpotPrices, never from a later height/time), record creation for every denom pair of a new pool, the hooks/listeners that mark a pool changed (and the pool modules firing them on every successful swap/join), the changed-pool set encoding, the unit helpers and the pruning start state.",
		NotCovered:  []string{"TWAP = time-weighted mean as a value (integral over price histories)", "bounds by min/max price", "reciprocity of the geometric directions", "precision"},
		Assumptions: []string{"osmomath.Exp2 / log2 accuracy (C13)"},
		MinObl:      111,
		Run:         runC10,
	})
}

func runC10(c *rules.Ctx) {
	const T = "x/twap."
	const RU = T + "recordWithUpdatedAccumulators"
	c.Let("DT", "sub(twaptypes.CanonicalTimeMs(newTime), twaptypes.CanonicalTimeMs(record.Time))")
	c.StoreField(RU, "P0ArithmeticTwapAccumulator", "sdkmath.LegacyDec.AddMut(twaptypes.SpotPriceMulDuration(record.P0LastSpotPrice, {DT}), record.P0ArithmeticTwapAccumulator)", "P0 accumulator += old P0 price × Δt (ms between the record's time and the new time)")
	c.StoreField(RU, "P1ArithmeticTwapAccumulator", "sdkmath.LegacyDec.AddMut(twaptypes.SpotPriceMulDuration(record.P1LastSpotPrice, {DT}), record.P1ArithmeticTwapAccumulator)", "P1 accumulator += old P1 price × Δt")
	c.StoreField(RU, "GeometricTwapAccumulator", "sdkmath.LegacyDec.AddMut(twaptypes.SpotPriceMulDuration(twap.twapLog(record.P0LastSpotPrice), {DT}), record.GeometricTwapAccumulator)", "geometric accumulator += log2(old P0 price) × Δt")
	c.StoreField(RU, "Time", "newTime", "the record's time becomes the new time")
	c.WhenReturn(RU, "eq(record.Time, newTime)", 0, "record", "no time elapsed: the record is returned unchanged")
	c.StoreVarUnder(RU, "LastErrorTime", "newTime", "sdkmath.LegacyDec.IsZero(record.P0LastSpotPrice)", "a zero spot price (no logarithm) stamps the error time")
	c.OnlyWhen(RU, "twap.twapLog", "not(sdkmath.LegacyDec.IsZero(record.P0LastSpotPrice))", "the logarithm is taken only of a non-zero price")
	// strategies
	const AR = T + "arithmetic.computeTwap"
	c.OnlyWhen(AR, "sdkmath.LegacyDec.Sub[0=endRecord.P0ArithmeticTwapAccumulator]", "eq(quoteAsset, startRecord.Asset0Denom)", "quote = asset0 reads the P0 accumulator")
	c.OnlyWhen(AR, "sdkmath.LegacyDec.Sub[0=endRecord.P1ArithmeticTwapAccumulator]", "ne(quoteAsset, startRecord.Asset0Denom)", "otherwise the P1 accumulator")
	c.CallArg(AR, "sdkmath.LegacyDec.Sub[0=endRecord.P0ArithmeticTwapAccumulator]", 1, "startRecord.P0ArithmeticTwapAccumulator", "difference end − start of the same accumulator")
	c.CallArg(AR, "sdkmath.LegacyDec.Sub[0=endRecord.P1ArithmeticTwapAccumulator]", 1, "startRecord.P1ArithmeticTwapAccumulator", "difference end − start of the same accumulator")
	c.Returns(AR, 0, "twaptypes.AccumDiffDivDuration(_, sub(twaptypes.CanonicalTimeMs(endRecord.Time), twaptypes.CanonicalTimeMs(startRecord.Time)))", "mean = accumulator difference / elapsed ms between the two records", "")
	const GE = T + "geometric.computeTwap"
	c.CallArg(GE, "sdkmath.LegacyDec.Sub", 0, "endRecord.GeometricTwapAccumulator", "geometric: end − start of the geometric accumulator")
	c.CallArg(GE, "sdkmath.LegacyDec.Sub", 1, "startRecord.GeometricTwapAccumulator", "geometric: end − start of the geometric accumulator")
	c.CallArg(GE, "osmomath.Exp2", 0, "osmomath.BigDecFromDec(sdkmath.LegacyDec.Abs(twaptypes.AccumDiffDivDuration(_, sub(twaptypes.CanonicalTimeMs(endRecord.Time), twaptypes.CanonicalTimeMs(startRecord.Time)))))", "2^|mean of logs|")
	c.OnlyWhen(GE, "osmomath.BigDec.Quo", "sdkmath.LegacyDec.IsNegative(_) & eq(quoteAsset, startRecord.Asset0Denom) | not(sdkmath.LegacyDec.IsNegative(_)) & ne(quoteAsset, startRecord.Asset0Denom) | eq(eq(quoteAsset, startRecord.Asset0Denom), sdkmath.LegacyDec.IsNegative(_))", "the result is inverted only in the two documented cases (negative exponent & quote0, or non-negative & not quote0)")
	c.CallArg(GE, "osmomath.BigDec.Quo", 0, "osmomath.OneBigDec()", "inversion = 1 / result")
	// error flagging
	const CT = T + "computeTwap"
	c.StoreVarWhenAny(CT)
	c.Returns(CT, 1, "phi(nil, errors.New(_))", "every result of computeTwap — the zero-length interval included — carries the spot-price error flag computed from the two records", "")
	c.PathCase(CT, "time.Time.After(endRecord.LastErrorTime,startRecord.Time)", 1, "errors.New(_)", "an error after the start record flags the result")
	c.PathCase(CT, "time.Time.Equal(endRecord.LastErrorTime,startRecord.Time)", 1, "errors.New(_)", "an error exactly at the start record flags the result")
	c.PathCase(CT, "time.Time.Equal(startRecord.LastErrorTime,startRecord.Time)", 1, "errors.New(_)", "a start record that is itself errored flags the result")
	// spot prices
	const SP = T + "getSpotPrices"
	c.CallArg(SP, "twaptypes.PoolManagerInterface.RouteCalculateSpotPrice", 1, "ctx", "spot prices are read from the pool manager")
	c.HasCall(SP, "twaptypes.PoolManagerInterface.RouteCalculateSpotPrice", []string{"k", "ctx", "poolId", "denom0", "denom1"}, true, "sp0 is the price of denom0 quoted in denom1", "sp0")
	c.HasCall(SP, "twaptypes.PoolManagerInterface.RouteCalculateSpotPrice", []string{"k", "ctx", "poolId", "denom1", "denom0"}, true, "sp1 is the reverse direction", "sp1")
	c.Returns(SP, 2, "has(sdk.Context.BlockTime(ctx)) | has(previousErrorTime)", "the error time is the previous one or the block time", "")
	c.Let("SP0", "twaptypes.PoolManagerInterface.RouteCalculateSpotPrice(k,ctx,poolId,denom0,denom1)")
	c.Let("SP1", "twaptypes.PoolManagerInterface.RouteCalculateSpotPrice(k,ctx,poolId,denom1,denom0)")
	c.PathCase(SP, "ne({SP0}#1,nil)", 2, "sdk.Context.BlockTime(ctx)", "an error computing sp0 stamps the block time as error time")
	c.PathCase(SP, "ne({SP1}#1,nil)", 2, "sdk.Context.BlockTime(ctx)", "an error computing sp1 stamps the block time as error time")
	c.PathCase(SP, "osmomath.BigDec.GT(has({SP0}#0), @twaptypes.MaxSpotPriceBigDec)", 2, "sdk.Context.BlockTime(ctx)", "clamping sp0 to the maximum stamps the block time as error time")
	c.PathCase(SP, "osmomath.BigDec.GT(has({SP1}#0), @twaptypes.MaxSpotPriceBigDec)", 2, "sdk.Context.BlockTime(ctx)", "clamping sp1 to the maximum stamps the block time as error time")
	c.PathCase(SP, "osmomath.BigDec.GT(has({SP0}#0), @twaptypes.MaxSpotPriceBigDec)", 0, "osmomath.BigDec.Dec(@twaptypes.MaxSpotPriceBigDec)", "sp0 above the maximum is reported as the maximum")
	c.PathCase(SP, "osmomath.BigDec.GT(has({SP1}#0), @twaptypes.MaxSpotPriceBigDec)", 1, "osmomath.BigDec.Dec(@twaptypes.MaxSpotPriceBigDec)", "sp1 above the maximum is reported as the maximum")
	c.PathCase(SP, "eq({SP0}#1,nil) & eq({SP1}#1,nil) & not(osmomath.BigDec.GT(has({SP0}#0), @twaptypes.MaxSpotPriceBigDec)) & not(osmomath.BigDec.GT(has({SP1}#0), @twaptypes.MaxSpotPriceBigDec))", 2, "previousErrorTime", "without error or clamp the previous error time is kept")
	// end block: every changed pool is updated, a failing pool does not stop the others
	c.ForEach(T+"Keeper.EndBlock", "twap.Keeper.updateRecords", "twap.Keeper.getChangedPools(k,ctx)", "every pool changed in the block gets its records updated (one failing pool does not stop the rest)", false)
	c.CallArg(T+"Keeper.EndBlock", "twap.Keeper.updateRecords", 2, "elem(twap.Keeper.getChangedPools(k,ctx))", "the pool updated is the changed pool")
	// time keys are written and looked up in one canonical form
	c.Returns("osmoutils.FormatTimeString", 0, "time.Time.Format(time.Time.Round(time.Time.UTC(t),0), \"2006-01-02T15:04:05.000000000\")", "record keys encode the time normalised to UTC (a caller's local-zone time must find the record written from block time)", "")
	twapQueryRules(c)
	twapKeyLayoutRules(c)
	twapRecordLifecycleRules(c)
	// record lookup
	const GR = T + "Keeper.getRecordAtOrBeforeTime"
	c.CallArg(GR, "osmoutils.GetFirstValueInRange", 3, "true", "the record at or before t is found by reverse iteration")
	c.CallArg(GR, "osmoutils.GetFirstValueInRange", 2, "twaptypes.FormatHistoricalPoolIndexTimeSuffix(poolId, _, _, t)", "…ending at t")
	// pruning keeps the newest older record
	const PR = T + "Keeper.pruneRecordsBeforeTimeButNewest"
	c.OnlyWhen(PR, "storetypes.KVStore.Delete", "raw:not(phi(true,false))", "a record is deleted only after the first (newest) one of the range was skipped")
	// storing
	const SN = T + "Keeper.StoreNewRecord"
	c.HasCall(SN, "osmoutils.MustSet", []string{"_", "twaptypes.FormatMostRecentTWAPKey(twap.PoolId, twap.Asset0Denom, twap.Asset1Denom)", "_"}, true, "the most-recent index is updated under the record's own pool/denom key", "")
	c.HasCall(SN, "twap.Keeper.StoreHistoricalTWAP", []string{"k", "ctx", "twap"}, true, "and the historical index with the same record", "")
	// interpolation
	const GI = T + "Keeper.getInterpolatedRecord"
	c.Returns(GI, 0, "twap.recordWithUpdatedAccumulators(_, t)", "interpolation advances the at-or-before record's accumulators to t with its own last price", "")
}
