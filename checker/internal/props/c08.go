package props

import "osmolint/internal/rules"

func init() {
	register(&Prop{
		ID: "C08",
		Explanation: "Spread rewards and incentives reach the liquidity that earned them, structural clauses: crossing a tick flips its snapshots to (global + this swap's growth) − old and global − old per uptime; a new tick's snapshot is the global value iff the current tick is at or above it; growth above/below a tick follows the documented case table (upper: current ≥ tick ⇒ global − snapshot; lower: current < tick ⇒ global − snapshot) and growth inside an uptime range the three-way split on current < lower / current < upper; " +
			"pool accumulators are brought up to now before positions, ticks or incentive records change; claiming sets the position's snapshot to init + growth outside, claims, then re-bases to global − outside; emission pays min(emitted, remaining) and deducts exactly what it paid; rewards for an uptime the position has not reached are forfeited, never added to the collected coins.",
		NotCovered:  []string{"proportionality and identical-positions-earn-identical-rewards as numbers", "totals claimable vs paid in over histories"},
		Assumptions: []string{"osmoutils/accum semantics (C15)"},
		MinObl:      28,
		Run:         runC08,
	})
}

func runC08(c *rules.Ctx) {
	const K = "x/concentrated-liquidity.Keeper."
	const P = "x/concentrated-liquidity."
	// ---- crossing a tick
	const CT = K + "crossTick"
	c.StoreField(CT, "SpreadRewardGrowthOppositeDirectionOfLastTraversal", "sdk.DecCoins.Sub(sdk.DecCoins.Add(spreadRewardAccumValue, swapStateSpreadRewardGrowth), tickInfo.SpreadRewardGrowthOppositeDirectionOfLastTraversal)", "crossing: snapshot := (global + growth of this swap) − old snapshot")
	c.StoreField(CT, "UptimeGrowthOutside", "sdk.DecCoins.Sub(accum.AccumulatorObject.GetValue(elem(uptimeAccums)), has(elem(tickInfo.UptimeTrackers.List).UptimeGrowthOutside))", "crossing: per uptime, snapshot := global − old snapshot")
	c.HasCall(CT, "cl.Keeper.SetTickInfo", []string{"k", "ctx", "poolId", "tickIndex", "tickInfo"}, true, "the flipped tick is stored under its own index", "")
	c.Order(K+"swapCrossTickLogic", "cl.Keeper.updateGivenPoolUptimeAccumulatorsToNow", "cl.Keeper.crossTick", "uptime accumulators are brought up to now before a tick is crossed")
	// ---- initial snapshots
	const IS = K + "getInitialSpreadRewardGrowthOppositeDirectionOfLastTraversalForTick"
	c.OnlyWhenReturn(IS, "accum.AccumulatorObject.GetValue(_)", "ge(cltypes.ConcentratedPoolExtension.GetCurrentTick(pool), tick)", "a new tick at or below the current tick starts with the global growth")
	c.OnlyWhenReturn(IS, "@cl.emptyCoins", "lt(cltypes.ConcentratedPoolExtension.GetCurrentTick(pool), tick)", "a new tick above the current tick starts empty")
	// ---- growth above / below
	const CG = P + "calculateSpreadRewardGrowth"
	c.OnlyWhenReturn(CG, "sdk.DecCoins.Sub(spreadRewardsGrowthGlobal, ticksSpreadRewardGrowthOppositeDirectionOfLastTraversal)", "isUpperTick & ge(currentTick, targetTick) | not(isUpperTick) & lt(currentTick, targetTick)", "global − snapshot exactly for (upper, current ≥ tick) and (lower, current < tick)")
	c.OnlyWhenReturn(CG, "ticksSpreadRewardGrowthOppositeDirectionOfLastTraversal", "isUpperTick & lt(currentTick, targetTick) | not(isUpperTick) & ge(currentTick, targetTick)", "the snapshot itself in the other two cases")
	const GO = K + "getSpreadRewardGrowthOutside"
	c.HasCall(GO, "cl.calculateSpreadRewardGrowth", []string{"upperTick", "cl.Keeper.GetTickInfo(k,ctx,poolId,upperTick)#0.SpreadRewardGrowthOppositeDirectionOfLastTraversal", "_", "_", "true"}, true, "growth above uses the upper tick's snapshot with isUpperTick=true", "upper")
	c.HasCall(GO, "cl.calculateSpreadRewardGrowth", []string{"lowerTick", "cl.Keeper.GetTickInfo(k,ctx,poolId,lowerTick)#0.SpreadRewardGrowthOppositeDirectionOfLastTraversal", "_", "_", "false"}, true, "growth below uses the lower tick's snapshot with isUpperTick=false", "lower")
	// ---- uptime growth inside: three-way split
	const UG = K + "GetUptimeGrowthInsideRange"
	c.Let("LOW", "cl.getUptimeTrackerValues(cl.Keeper.GetTickInfo(k,ctx,poolId,lowerTick)#0.UptimeTrackers.List)")
	c.Let("UPP", "cl.getUptimeTrackerValues(cl.Keeper.GetTickInfo(k,ctx,poolId,upperTick)#0.UptimeTrackers.List)")
	c.Let("CUR", "cltypes.ConcentratedPoolExtension.GetCurrentTick(_)")
	c.OnlyWhenReturn(UG, "osmoutils.SafeSubDecCoinArrays({LOW}, {UPP})#0", "lt({CUR}, lowerTick)", "below the range: inside = lower − upper")
	c.OnlyWhenReturn(UG, "osmoutils.SafeSubDecCoinArrays(osmoutils.SubDecCoinArrays(_, {UPP})#0, {LOW})#0", "not(lt({CUR}, lowerTick)) & lt({CUR}, upperTick)", "in range: inside = global − upper − lower")
	c.OnlyWhenReturn(UG, "osmoutils.SafeSubDecCoinArrays({UPP}, {LOW})#0", "not(lt({CUR}, upperTick))", "above the range: inside = upper − lower")
	// ---- accrue before mutate
	c.Order(K+"prepareClaimAllIncentivesForPosition", "cl.Keeper.UpdatePoolUptimeAccumulatorsToNow", "cl.updateAccumAndClaimRewards", "incentives are accrued up to now before a position claims")
	c.Order(K+"CreateIncentive", "cl.Keeper.UpdatePoolUptimeAccumulatorsToNow", "cl.Keeper.setIncentiveRecord", "accrual up to now precedes a new incentive record")
	c.Order(K+"initOrUpdatePositionUptimeAccumulators", "cl.Keeper.UpdatePoolUptimeAccumulatorsToNow", "cl.Keeper.GetUptimeAccumulators", "accrual up to now precedes the position's accumulator update")
	c.NeverAfter(K+"WithdrawPosition", "cl.Keeper.UpdatePosition", "cl.Keeper.collectIncentives", "incentives are collected before the position's liquidity changes")
	// ---- claim sequence
	const UC = P + "updateAccumAndClaimRewards"
	c.CheckedCall(UC, "cl.updatePositionToInitValuePlusGrowthOutside", []string{"accum", "positionKey", "growthOutside"}, "the snapshot is first set to init + growth outside", "")
	c.Order(UC, "cl.updatePositionToInitValuePlusGrowthOutside", "accum.AccumulatorObject.ClaimRewards", "…then rewards are claimed")
	c.Order(UC, "accum.AccumulatorObject.ClaimRewards", "accum.AccumulatorObject.SetPositionIntervalAccumulation", "…then the snapshot is re-based")
	c.CallArg(UC, "accum.AccumulatorObject.SetPositionIntervalAccumulation", 2, "sdk.DecCoins.SafeSub(accum.AccumulatorObject.GetValue(accum), growthOutside)#0", "re-base to global − growth outside")
	c.OnlyWhen(UC, "accum.AccumulatorObject.SetPositionIntervalAccumulation", "accum.AccumulatorObject.HasPosition(accum, positionKey)", "only if the position still exists")
	// ---- emission
	const EM = P + "calcAccruedIncentivesForAccum"
	c.FailsWhen(EM, "not(sdkmath.LegacyDec.IsPositive(liquidityInAccum))", "no emission without qualifying liquidity", rules.GuardOpt{})
	c.Let("REM", "has(poolIncentiveRecords).IncentiveRecordBody.RemainingCoin.Amount")
	c.BranchOn(EM, "le(cl.computeTotalIncentivesToEmit(...)#0, _.IncentiveRecordBody.RemainingCoin.Amount)", nil, "emission compares what would be emitted with what remains of the record")
	c.OnlyWhen(EM, "sdkmath.LegacyDec.Sub[1=cl.computeTotalIncentivesToEmit(...)#0]", "le(cl.computeTotalIncentivesToEmit(...)#0, _.IncentiveRecordBody.RemainingCoin.Amount)", "remaining is reduced only when it covers the emission")
	c.CallArg(EM, "sdkmath.LegacyDec.Sub[1=cl.computeTotalIncentivesToEmit(...)#0]", 0, "_.IncentiveRecordBody.RemainingCoin.Amount", "remaining − emitted: exactly the emitted amount is deducted from the record's remaining coin")
	c.BranchOn(EM, "ne(elem(_).MinUptime, accumUptime)", nil, "a record only feeds the accumulator of its own uptime")
	// ---- forfeits
	const PC = K + "prepareClaimAllIncentivesForPosition"
	c.BranchOn(PC, "lt(time.Time.Sub(sdk.Context.BlockTime(ctx), cl.Keeper.GetPosition(k,ctx,positionId)#0.JoinTime), elem(@cltypes.SupportedUptimes))", nil, "the position's age (block time − join time) is compared with each uptime")
	c.FailsWhen(PC, "lt(time.Time.Sub(sdk.Context.BlockTime(ctx), cl.Keeper.GetPosition(k,ctx,positionId)#0.JoinTime), 0)", "a negative position age is an error", rules.GuardOpt{})
}
