package props

import "osmolint/internal/rules"

func init() {
	register(&Prop{
		ID: "C08",
		Explanation: "Spread rewards and incentives reach the liquidity that earned them, structural clauses: crossing a tick flips its snapshots to (global + this swap's growth) − old and global − old per uptime; a new tick's snapshot is the global value iff the current tick is at or above it; growth above/below a tick follows the documented case table (upper: current ≥ tick ⇒ global − snapshot; lower: current < tick ⇒ global − snapshot) and growth inside an uptime range the three-way split on current < lower / current < upper; " +
			"pool accumulators are brought up to now before positions, ticks or incentive records change; claiming sets the position's snapshot to init + growth outside, claims, then re-bases to global − outside; emission pays min(emitted, remaining) and deducts exactly what it paid; rewards for an uptime the position has not reached are forfeited, never added to the collected coins. Round 8: after a claim the surviving position is always re-based to global − growth outside, whatever was paid.",
		NotCovered:  []string{"proportionality and identical-positions-earn-identical-rewards as numbers", "totals claimable vs paid in over histories"},
		Assumptions: []string{"osmoutils/accum semantics (C15)"},
		MinObl:      69,
		Run:         runC08,
	})
}

func runC08(c *rules.Ctx) {
	clClaimRebaseRules(c)
	const K = "x/concentrated-liquidity.Keeper."
	const P = "x/concentrated-liquidity."
	// ---- crossing a tick
	const CT = K + "crossTick"
	c.StoreField(CT, "SpreadRewardGrowthOppositeDirectionOfLastTraversal", "sdk.DecCoins.Sub(sdk.DecCoins.Add(spreadRewardAccumValue, swapStateSpreadRewardGrowth), tickInfo.SpreadRewardGrowthOppositeDirectionOfLastTraversal)", "crossing: snapshot := (global + growth of this swap) − old snapshot")
	c.StoreField(CT, "UptimeGrowthOutside", "sdk.DecCoins.Sub(accum.AccumulatorObject.GetValue(elem(uptimeAccums)), has(elem(tickInfo.UptimeTrackers.List).UptimeGrowthOutside))", "crossing: per uptime, snapshot := global − old snapshot")
	c.HasCall(CT, "cl.Keeper.SetTickInfo", []string{"k", "ctx", "poolId", "tickIndex", "tickInfo"}, true, "the flipped tick is stored under its own index", "")
	c.Order(K+"swapCrossTickLogic", "cl.Keeper.updateGivenPoolUptimeAccumulatorsToNow", "cl.Keeper.crossTick", "uptime accumulators are brought up to now before a tick is crossed")
	// ---- initial snapshots
	const IS = K + "getInitialSpreadRewardGrowthOppositeDirectionOfLastTraversalForTick"
	c.OnlyWhenReturn(IS, "accum.AccumulatorObject.GetValue(_)", "ge(cltypes.ConcentratedPoolExtension.GetCurrentTick(pool), tick)", "a new tick at or below the current tick starts with the global growth")
	c.OnlyWhenReturn(IS, "@cl.emptyCoins", "lt(cltypes.ConcentratedPoolExtension.GetCurrentTick(pool), tick)", "a new tick above the current tick starts empty")
	// ---- growth above / below
	const CG = P + "calculateSpreadRewardGrowth"
	c.OnlyWhenReturn(CG, "sdk.DecCoins.Sub(spreadRewardsGrowthGlobal, ticksSpreadRewardGrowthOppositeDirectionOfLastTraversal)", "isUpperTick & ge(currentTick, targetTick) | not(isUpperTick) & lt(currentTick, targetTick)", "global − snapshot exactly for (upper, current ≥ tick) and (lower, current < tick)")
	c.OnlyWhenReturn(CG, "ticksSpreadRewardGrowthOppositeDirectionOfLastTraversal", "isUpperTick & lt(currentTick, targetTick) | not(isUpperTick) & ge(currentTick, targetTick)", "the snapshot itself in the other two cases")
	const GO = K + "getSpreadRewardGrowthOutside"
	c.HasCall(GO, "cl.calculateSpreadRewardGrowth", []string{"upperTick", "cl.Keeper.GetTickInfo(k,ctx,poolId,upperTick)#0.SpreadRewardGrowthOppositeDirectionOfLastTraversal", "_", "_", "true"}, true, "growth above uses the upper tick's snapshot with isUpperTick=true", "upper")
	c.HasCall(GO, "cl.calculateSpreadRewardGrowth", []string{"lowerTick", "cl.Keeper.GetTickInfo(k,ctx,poolId,lowerTick)#0.SpreadRewardGrowthOppositeDirectionOfLastTraversal", "_", "_", "false"}, true, "growth below uses the lower tick's snapshot with isUpperTick=false", "lower")
	// ---- uptime growth inside: three-way split
	const UG = K + "GetUptimeGrowthInsideRange"
	c.Let("LOW", "cl.getUptimeTrackerValues(cl.Keeper.GetTickInfo(k,ctx,poolId,lowerTick)#0.UptimeTrackers.List)")
	c.Let("UPP", "cl.getUptimeTrackerValues(cl.Keeper.GetTickInfo(k,ctx,poolId,upperTick)#0.UptimeTrackers.List)")
	c.Let("CUR", "cltypes.ConcentratedPoolExtension.GetCurrentTick(_)")
	c.OnlyWhenReturn(UG, "osmoutils.SafeSubDecCoinArrays({LOW}, {UPP})#0", "lt({CUR}, lowerTick)", "below the range: inside = lower − upper")
	c.OnlyWhenReturn(UG, "osmoutils.SafeSubDecCoinArrays(osmoutils.SubDecCoinArrays(_, {UPP})#0, {LOW})#0", "not(lt({CUR}, lowerTick)) & lt({CUR}, upperTick)", "in range: inside = global − upper − lower")
	c.OnlyWhenReturn(UG, "osmoutils.SafeSubDecCoinArrays({UPP}, {LOW})#0", "not(lt({CUR}, upperTick))", "above the range: inside = upper − lower")
	// ---- accrue before mutate
	c.Order(K+"prepareClaimAllIncentivesForPosition", "cl.Keeper.UpdatePoolUptimeAccumulatorsToNow", "cl.updateAccumAndClaimRewards", "incentives are accrued up to now before a position claims")
	c.Order(K+"CreateIncentive", "cl.Keeper.UpdatePoolUptimeAccumulatorsToNow", "cl.Keeper.setIncentiveRecord", "accrual up to now precedes a new incentive record")
	clScalingMigrationRules(c)
	clCrossTickRules(c)
	clUptimePositionRules(c)
	c.Order(K+"initOrUpdatePositionUptimeAccumulators", "cl.Keeper.UpdatePoolUptimeAccumulatorsToNow", "cl.Keeper.GetUptimeAccumulators", "accrual up to now precedes the position's accumulator update")
	c.NeverAfter(K+"WithdrawPosition", "cl.Keeper.UpdatePosition", "cl.Keeper.collectIncentives", "incentives are collected before the position's liquidity changes")
	// ---- claim sequence
	const UC = P + "updateAccumAndClaimRewards"
	c.CheckedCall(UC, "cl.updatePositionToInitValuePlusGrowthOutside", []string{"accum", "positionKey", "growthOutside"}, "the snapshot is first set to init + growth outside", "")
	c.Order(UC, "cl.updatePositionToInitValuePlusGrowthOutside", "accum.AccumulatorObject.ClaimRewards", "…then rewards are claimed")
	c.Order(UC, "accum.AccumulatorObject.ClaimRewards", "accum.AccumulatorObject.SetPositionIntervalAccumulation", "…then the snapshot is re-based")
	c.CallArg(UC, "accum.AccumulatorObject.SetPositionIntervalAccumulation", 2, "sdk.DecCoins.SafeSub(accum.AccumulatorObject.GetValue(accum), growthOutside)#0", "re-base to global − growth outside")
	c.OnlyWhen(UC, "accum.AccumulatorObject.SetPositionIntervalAccumulation", "accum.AccumulatorObject.HasPosition(accum, positionKey)", "only if the position still exists")
	// ---- emission
	const EM = P + "calcAccruedIncentivesForAccum"
	c.FailsWhen(EM, "not(sdkmath.LegacyDec.IsPositive(liquidityInAccum))", "no emission without qualifying liquidity", rules.GuardOpt{})
	c.Let("REM", "has(poolIncentiveRecords).IncentiveRecordBody.RemainingCoin.Amount")
	c.BranchOn(EM, "le(cl.computeTotalIncentivesToEmit(...)#0, _.IncentiveRecordBody.RemainingCoin.Amount)", nil, "emission compares what would be emitted with what remains of the record")
	c.OnlyWhen(EM, "sdkmath.LegacyDec.Sub[1=cl.computeTotalIncentivesToEmit(...)#0]", "le(cl.computeTotalIncentivesToEmit(...)#0, _.IncentiveRecordBody.RemainingCoin.Amount)", "remaining is reduced only when it covers the emission")
	c.CallArg(EM, "sdkmath.LegacyDec.Sub[1=cl.computeTotalIncentivesToEmit(...)#0]", 0, "_.IncentiveRecordBody.RemainingCoin.Amount", "remaining − emitted: exactly the emitted amount is deducted from the record's remaining coin")
	c.BranchOn(EM, "ne(elem(_).MinUptime, accumUptime)", nil, "a record only feeds the accumulator of its own uptime")
	clScalingRules(c)
	// ---- forfeits
	const PC = K + "prepareClaimAllIncentivesForPosition"
	c.BranchOn(PC, "lt(time.Time.Sub(sdk.Context.BlockTime(ctx), cl.Keeper.GetPosition(k,ctx,positionId)#0.JoinTime), elem(@cltypes.SupportedUptimes))", nil, "the position's age (block time − join time) is compared with each uptime")
	c.FailsWhen(PC, "lt(time.Time.Sub(sdk.Context.BlockTime(ctx), cl.Keeper.GetPosition(k,ctx,positionId)#0.JoinTime), 0)", "a negative position age is an error", rules.GuardOpt{})
	clRedepositRules(c)
	c.CheckedCall(K+"WithdrawPosition", "cl.Keeper.redepositForfeitedIncentives", []string{"k", "ctx", "cl.Keeper.GetPosition(k,ctx,positionId)#0.PoolId", "owner", "cl.Keeper.collectIncentives(k,ctx,owner,positionId)#2", "cl.Keeper.collectIncentives(k,ctx,owner,positionId)#1"}, "every withdrawal — partial or full — re-deposits (or refunds) what the position forfeited when its incentives were collected", "")
}

// clScalingRules: one scaling factor per accumulator family, used by growth and claim alike, with the documented
// migration boundary (shared by C01 and C08).
func clScalingRules(c *rules.Ctx) {
	const K = "x/concentrated-liquidity.Keeper."
	// ---- one scaling factor per accumulator family, the same when growing and when claiming
	c.WhoMayCall(K+"getSpreadFactorScalingFactorForPool", []string{"cl.Keeper.computeOutAmtGivenIn", "cl.Keeper.computeInAmtGivenOut", "cl.Keeper.prepareClaimableSpreadRewards"}, "the spread-reward scaling factor is used by the two swap kinds (growth) and the spread-reward claim, and by nothing else")
	c.WhoMayCall(K+"getIncentiveScalingFactorForPool", []string{"cl.Keeper.updateGivenPoolUptimeAccumulatorsToNow", "cl.Keeper.prepareClaimAllIncentivesForPosition"}, "the incentive scaling factor is used by emission and by the incentive claim, and by nothing else")
	for _, fn := range []string{"computeOutAmtGivenIn", "computeInAmtGivenOut"} {
		c.HasCall(K+fn, "cl.Keeper.getSpreadFactorScalingFactorForPool", []string{"k", "ctx", "poolId"}, false, "spread-reward growth of a swap is scaled with the spread-reward factor of the swapped pool", "")
		c.CallArg(K+fn, "cl.SwapState.updateSpreadRewardGrowthGlobal", 2, "has(cl.Keeper.getSpreadFactorScalingFactorForPool(k,ctx,poolId)#0)", "…and that factor is the one applied to the growth")
	}
	c.HasCall(K+"prepareClaimableSpreadRewards", "cl.Keeper.getSpreadFactorScalingFactorForPool", []string{"k", "ctx", "cl.Keeper.GetPosition(k,ctx,positionId)#0.PoolId"}, true, "spread-reward claims are scaled down with the factor of the position's pool", "")
	c.HasCall(K+"prepareClaimAllIncentivesForPosition", "cl.Keeper.getIncentiveScalingFactorForPool", []string{"k", "ctx", "cl.Keeper.GetPosition(k,ctx,positionId)#0.PoolId"}, true, "incentive claims are scaled down with the incentive factor of the position's pool", "")
	c.HasCall(K+"updateGivenPoolUptimeAccumulatorsToNow", "cl.Keeper.getIncentiveScalingFactorForPool", []string{"k", "ctx", "_"}, false, "emission is scaled with the incentive factor", "")
	// which pools are scaled: strictly above the migration threshold, or listed as migrated (the pool at the threshold
	// is the last unscaled one)
	c.Let("STHR", "cl.Keeper.GetSpreadFactorPoolIDMigrationThreshold(k,ctx)#0")
	c.Let("ITHR", "cl.Keeper.GetIncentivePoolIDMigrationThreshold(k,ctx)#0")
	c.OnlyWhenReturn(K+"getSpreadFactorScalingFactorForPool", "@cl.perUnitLiqScalingFactor", "gt(poolID,{STHR}) | lookup(@cltypes.MigratedSpreadFactorAccumulatorPoolIDsV25,poolID)#1", "the spread-reward accumulator is scaled only for pools strictly above the threshold or listed as migrated")
	c.OnlyWhenReturn(K+"getSpreadFactorScalingFactorForPool", "@cl.oneDecScalingFactor", "not(gt(poolID,{STHR})) & not(lookup(@cltypes.MigratedSpreadFactorAccumulatorPoolIDsV25,poolID)#1)", "…and unscaled for every other pool, the one at the threshold included")
	c.OnlyWhenReturn(K+"getIncentiveScalingFactorForPool", "@cl.perUnitLiqScalingFactor", "gt(poolID,{ITHR}) | lookup(@cltypes.MigratedIncentiveAccumulatorPoolIDs,poolID)#1 | lookup(@cltypes.MigratedIncentiveAccumulatorPoolIDsV24,poolID)#1", "incentive accumulators are scaled only for pools strictly above the threshold or listed as migrated")
	c.OnlyWhenReturn(K+"getIncentiveScalingFactorForPool", "@cl.oneDecScalingFactor", "not(gt(poolID,{ITHR})) & not(lookup(@cltypes.MigratedIncentiveAccumulatorPoolIDs,poolID)#1) & not(lookup(@cltypes.MigratedIncentiveAccumulatorPoolIDsV24,poolID)#1)", "…and unscaled for every other pool")
}

// clRedepositRules: redeposit of forfeited incentives (shared by C01 and C08).
func clRedepositRules(c *rules.Ctx) {
	const K = "x/concentrated-liquidity.Keeper."
	// ---- redeposit of forfeited incentives: each uptime accumulator receives only what was forfeited for that uptime
	const RD = K + "redepositForfeitedIncentives"
	c.Let("FORF", "elem(elem(scaledForfeitedIncentivesByUptime))")
	c.Let("LIQ", "cltypes.ConcentratedPoolExtension.GetLiquidity(cl.Keeper.getPoolById(k,ctx,poolId)#0)")
	c.CallArg(RD, "accum.AccumulatorObject.AddToAccumulator", 0, "elem(cl.Keeper.GetUptimeAccumulators(k,ctx,poolId)#0)", "forfeits are re-added to the pool's uptime accumulators")
	c.CallArg(RD, "accum.AccumulatorObject.AddToAccumulator", 1, "phi(sdk.NewDecCoins(), sdk.DecCoins.Add(#self, sdk.NewDecCoinFromDec({FORF}.Denom, sdkmath.LegacyDec.QuoTruncate(sdkmath.Int.ToLegacyDec({FORF}.Amount), {LIQ}))))", "the amount re-added to one uptime accumulator is the sum, started from zero for that uptime, of forfeited amount / active liquidity over that uptime's forfeited coins")
	c.FreshPerIteration(RD, "accum.AccumulatorObject.AddToAccumulator", 1, "the amount re-added starts from zero for every uptime (forfeits of one uptime never leak into another accumulator)")
	c.OnlyWhen(RD, "cltypes.BankKeeper.SendCoins", "sdkmath.LegacyDec.LT({LIQ}, sdkmath.LegacyOneDec())", "forfeits are paid out instead of re-deposited only when there is no active liquidity to share them")
	c.CallArg(RD, "cltypes.BankKeeper.SendCoins", 4, "totalForefeitedIncentives", "…and then exactly the forfeited total is paid")
}
