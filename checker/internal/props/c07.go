package props

import "osmolint/internal/rules"

func init() {
	register(&Prop{
		ID: "C07",
		Explanation: "Concentrated pool bookkeeping: decides that a position update applies the same liquidity delta to the lower tick (net +Δ), the upper tick (net −Δ), the position record and — iff the current tick is in [lower, upper) — the pool's active liquidity, after the position/owner/range validation and before persisting the pool; " +
			"that crossing a tick adds the signed net liquidity of exactly that tick (negated for zero-for-one) and moves the current tick to next−1 / next; that ticks are removed only when reported empty and the pool is uninitialised only when no position remains; and that the low-level writers of ticks, positions and pool price have only the listed callers.",
		NotCovered:  []string{"the invariant itself over histories", "price/tick agreement as numbers (C14)"},
		Assumptions: []string{"KV store semantics"},
		MinObl:      69,
		Run:         runC07,
	})
}

func runC07(c *rules.Ctx) {
	const K = "x/concentrated-liquidity.Keeper."
	const UP = K + "UpdatePosition"
	// ---- UpdatePosition: same Δ everywhere
	c.CheckedCall(UP, "cl.Keeper.validatePositionUpdateById", []string{"k", "ctx", "positionId", "owner", "lowerTick", "upperTick", "liquidityDelta", "joinTime", "poolId"}, "the update is validated against the stored position (owner, range, join time, pool) first", "")
	c.Order(UP, "cl.Keeper.validatePositionUpdateById", "cl.Keeper.initOrUpdateTick", "validation precedes every write")
	c.CheckedCall(UP, "cl.Keeper.initOrUpdateTick", []string{"k", "ctx", "poolId", "lowerTick", "liquidityDelta", "false"}, "the lower tick gets +Δ net", "/lower")
	c.CheckedCall(UP, "cl.Keeper.initOrUpdateTick", []string{"k", "ctx", "poolId", "upperTick", "liquidityDelta", "true"}, "the upper tick gets −Δ net", "/upper")
	c.CheckedCall(UP, "cl.Keeper.initOrUpdatePosition", []string{"k", "ctx", "poolId", "owner", "lowerTick", "upperTick", "liquidityDelta", "joinTime", "positionId"}, "the position record gets the same Δ, owner, range and id", "")
	c.HasCall(UP, "clmodel.Pool.UpdateLiquidityIfActivePosition|cltypes.ConcentratedPoolExtension.UpdateLiquidityIfActivePosition", []string{"_", "ctx", "lowerTick", "upperTick", "liquidityDelta"}, true, "the pool's active liquidity is updated with the same Δ and range", "")
	c.Order(UP, "cltypes.ConcentratedPoolExtension.UpdateLiquidityIfActivePosition|clmodel.Pool.UpdateLiquidityIfActivePosition", "cl.Keeper.setPool", "the pool is persisted after its liquidity changed")
	c.CheckedCall(UP, "cl.Keeper.setPool", nil, "the pool is persisted", "")
	c.CallArg(UP, "cltypes.ConcentratedPoolExtension.CalcActualAmounts|clmodel.Pool.CalcActualAmounts", 4, "liquidityDelta", "token amounts are computed for the same Δ")
	// ---- initOrUpdateTick
	const IT = K + "initOrUpdateTick"
	c.ReturnOnlyUnder(IT, 0, "sdkmath.LegacyDec.IsZero(sdkmath.LegacyDec.Add(_.LiquidityGross, liquidityDelta))", "true", "a tick is reported empty only when its updated gross liquidity is zero (a boundary shared by two positions keeps gross > 0 while net may cancel)")
	c.StoreField(IT, "LiquidityGross", "sdkmath.LegacyDec.Add(cl.Keeper.GetTickInfo(k,ctx,poolId,tickIndex)#0.LiquidityGross, liquidityDelta)", "gross liquidity grows by Δ")
	c.OnlyWhen(IT, "sdkmath.LegacyDec.SubMut", "upper", "an upper boundary subtracts Δ from net liquidity")
	c.OnlyWhen(IT, "sdkmath.LegacyDec.AddMut", "not(upper)", "a lower boundary adds Δ to net liquidity")
	c.CallArg(IT, "sdkmath.LegacyDec.SubMut", 1, "liquidityDelta", "by exactly Δ")
	c.CallArg(IT, "sdkmath.LegacyDec.AddMut", 1, "liquidityDelta", "by exactly Δ")
	c.CallArg(IT, "sdkmath.LegacyDec.SubMut", 0, "has(cl.Keeper.GetTickInfo(k,ctx,poolId,tickIndex)#0.LiquidityNet)", "on the tick's net liquidity")
	c.CallArg(IT, "sdkmath.LegacyDec.AddMut", 0, "has(cl.Keeper.GetTickInfo(k,ctx,poolId,tickIndex)#0.LiquidityNet)", "on the tick's net liquidity")
	c.HasCall(IT, "cl.Keeper.SetTickInfo", []string{"k", "ctx", "poolId", "tickIndex", "_"}, true, "the tick is stored under its own index", "")
	c.ReturnOnlyUnder(IT, 0, "sdkmath.LegacyDec.IsZero(has(cl.Keeper.GetTickInfo(k,ctx,poolId,tickIndex)#0.LiquidityNet))", "true", "the tick is reported empty only when (gross and) net liquidity are zero")
	// ---- pool predicates
	const P = "x/concentrated-liquidity/model.Pool."
	c.Returns(P+"IsCurrentTickInRange", 0, "phi(false, lt(p.CurrentTick, upperTick)) | phi(lt(p.CurrentTick, upperTick), false)", "in range ⇔ lower ≤ current < upper (upper edge exclusive)", "")
	c.ReturnCase(P+"IsCurrentTickInRange", 0, "ge(p.CurrentTick, lowerTick)", "lt(p.CurrentTick, upperTick)", true, "the upper comparison is reached only when current ≥ lower (lower edge inclusive)")
	c.OnlyWhenStore(P+"UpdateLiquidityIfActivePosition", "CurrentTickLiquidity", "clmodel.Pool.IsCurrentTickInRange(p, lowerTick, upperTick)", "active liquidity changes only for in-range positions")
	c.StoreField(P+"UpdateLiquidityIfActivePosition", "CurrentTickLiquidity", "sdkmath.LegacyDec.Add(p.CurrentTickLiquidity, liquidityDelta)", "by exactly Δ")
	c.OnlyWhen(P+"CalcActualAmounts", "clmath.CalcAmount0Delta[1=has(p.CurrentSqrtPrice)]", "clmodel.Pool.IsCurrentTickInRange(p, lowerTick, upperTick)", "the current price is used only for in-range positions")
	c.FailsWhen(P+"ApplySwap", "sdkmath.LegacyDec.IsNegative(newLiquidity)", "a swap cannot leave negative liquidity", rules.GuardOpt{})
	c.FailsWhen(P+"ApplySwap", "lt(newCurrentTick, -108000001)", "the tick stays above the minimum", rules.GuardOpt{})
	c.FailsWhen(P+"ApplySwap", "gt(newCurrentTick, 342000000)", "the tick stays below the maximum", rules.GuardOpt{})
	c.StoreField(P+"ApplySwap", "CurrentTick", "newCurrentTick", "tick, liquidity and price are replaced together")
	c.StoreField(P+"ApplySwap", "CurrentTickLiquidity", "newLiquidity", "tick, liquidity and price are replaced together")
	c.StoreField(P+"ApplySwap", "CurrentSqrtPrice", "newCurrentSqrtPrice", "tick, liquidity and price are replaced together")
	// ---- crossing
	const X = K + "swapCrossTickLogic"
	c.HasCall(X, "sdkmath.LegacyDec.AddMut", []string{"_", "swapstrategy.SwapStrategy.SetLiquidityDeltaSign(_, cl.ParseTickFromBz(_)#0.LiquidityNet)"}, true, "crossing adds the (direction-signed) net liquidity of the tick that was parsed from the iterator", "")
	c.StoreField(X, "tick", "swapstrategy.SwapStrategy.UpdateTickAfterCrossing(strategy, nextInitializedTick)", "the current tick moves according to the strategy")
	c.HasCall(X, "cosmos-db.Iterator.Next", []string{"nextTickIter"}, true, "the tick iterator advances past the crossed tick", "")
	clOvershootBeforeTickRules(c)
	clCrossTickRules(c)
	// genesis import restores every exported tick (a tick with net 0 can have gross > 0)
	c.ForEach(K+"InitGenesis", "cl.Keeper.SetTickInfo", "elem(genState.PoolData).Ticks", "every exported tick of every pool is restored", true)
	c.CallArg(K+"InitGenesis", "cl.Keeper.SetTickInfo", 3, "elem(elem(genState.PoolData).Ticks).TickIndex", "…under its own index")
	c.OnlyWhen(X, "cl.Keeper.crossTick", "updateAccumulators", "tick accumulators are touched only when accumulators are being updated")
	const SS = "x/concentrated-liquidity/swapstrategy."
	c.Returns(SS+"zeroForOneStrategy.SetLiquidityDeltaSign", 0, "sdkmath.LegacyDec.Neg(deltaLiquidity)", "zero-for-one crosses from the right: net liquidity is negated", "")
	c.Returns(SS+"oneForZeroStrategy.SetLiquidityDeltaSign", 0, "deltaLiquidity", "one-for-zero crosses from the left: net liquidity as stored", "")
	c.Returns(SS+"zeroForOneStrategy.UpdateTickAfterCrossing", 0, "sub(nextTick,1)", "zero-for-one: the tick below the crossed one", "")
	c.Returns(SS+"oneForZeroStrategy.UpdateTickAfterCrossing", 0, "nextTick", "one-for-zero: the crossed tick", "")
	c.HasCall(SS+"zeroForOneStrategy.InitializeNextTickIterator", "prefix.Store.ReverseIterator", []string{"_", "nil", "cltypes.TickIndexToBytes(add(currentTickIndex,1))"}, true, "zero-for-one iterates downwards over ticks < current+1 (exclusive end)", "")
	c.BranchOn(SS+"zeroForOneStrategy.InitializeNextTickIterator", "le(cltypes.TickIndexFromBytes(_)#0, currentTickIndex)", nil, "…and stops at the first tick ≤ current")
	c.HasCall(SS+"oneForZeroStrategy.InitializeNextTickIterator", "prefix.Store.Iterator", []string{"_", "cltypes.TickIndexToBytes(currentTickIndex)", "nil"}, true, "one-for-zero iterates upwards from the current tick (inclusive start)", "")
	c.BranchOn(SS+"oneForZeroStrategy.InitializeNextTickIterator", "gt(cltypes.TickIndexFromBytes(_)#0, currentTickIndex)", nil, "…and stops at the first tick strictly greater than current (a crossed tick is not crossed again)")
	// ---- withdraw: removal conditions
	const W = K + "WithdrawPosition"
	c.OnlyWhen(W, "cl.Keeper.RemoveTickInfo[3=has(cl.Keeper.GetPosition(k,ctx,positionId)#0.LowerTick)]", "cl.Keeper.UpdatePosition(...)#0.LowerTickIsEmpty", "the lower tick is removed only when the update reported it empty")
	c.OnlyWhen(W, "cl.Keeper.RemoveTickInfo[3=has(cl.Keeper.GetPosition(k,ctx,positionId)#0.UpperTick)]", "cl.Keeper.UpdatePosition(...)#0.UpperTickIsEmpty", "the upper tick is removed only when the update reported it empty")
	c.OnlyWhen(W, "cl.Keeper.deletePosition", "eq(requestedLiquidityAmountToWithdraw, cl.Keeper.GetPosition(k,ctx,positionId)#0.Liquidity)", "the position record is deleted only on full withdrawal")
	c.OnlyWhen(W, "cl.Keeper.uninitializePool", "not(_#0)", "the pool is uninitialised only when no position remains")
	c.CallArg(W, "cl.Keeper.UpdatePosition", 6, "sdkmath.LegacyDec.Neg(requestedLiquidityAmountToWithdraw)", "withdrawing applies −requested liquidity")
	c.FailsWhen(W, "gt(requestedLiquidityAmountToWithdraw, cl.Keeper.GetPosition(k,ctx,positionId)#0.Liquidity)", "cannot withdraw more liquidity than the position holds", rules.GuardOpt{Before: "cl.Keeper.UpdatePosition"})
	c.FailsWhen(K+"uninitializePool", "cl.Keeper.HasAnyPositionForPool(_, ctx, poolId)#0 | cl.Keeper.HasAnyPositionForPool(...)#0", "a pool with positions is never uninitialised", rules.GuardOpt{})
	// ---- writers
	c.WhoMayCall(K+"SetTickInfo", []string{"cl.Keeper.initOrUpdateTick", "cl.Keeper.crossTick", "cl.Keeper.InitGenesis", "cl.Keeper.MigrateSpreadFactorAccumulatorToScalingFactor", "cl.Keeper.MigrateIncentivesAccumulatorToScalingFactor", "cl.Keeper.initOrUpdateTickUptimeTrackers"}, "tick records are written only by the listed functions")
	c.CallArg(W, "cl.Keeper.RemoveTickInfo", 2, "cl.Keeper.GetPosition(k,ctx,positionId)#0.PoolId", "an emptied tick is removed from the position's own pool")
	c.Returns(K+"HasAnyPositionForPool", 0, "osmoutils.HasAnyAtPrefix(sdk.Context.KVStore(ctx,k.storeKey), cltypes.KeyPoolPosition(poolId), _)#0", "whether a pool still has positions is decided by a scan of that pool's own key prefix only", "")
	c.ReachedWhen(W, "cl.Keeper.RemoveTickInfo[3=has(cl.Keeper.GetPosition(k,ctx,positionId)#0.LowerTick)]", "cl.Keeper.UpdatePosition(...)#0.LowerTickIsEmpty", "an emptied lower tick is always removed (whatever happened to the upper one)")
	c.ReachedWhen(W, "cl.Keeper.RemoveTickInfo[3=has(cl.Keeper.GetPosition(k,ctx,positionId)#0.UpperTick)]", "cl.Keeper.UpdatePosition(...)#0.UpperTickIsEmpty", "an emptied upper tick is always removed (whatever happened to the lower one)")
	// ---- first position: the pool's tick is the price's tick rounded *down* to the spacing (Euclidean, also below zero)
	const IP = K + "initializeInitialPositionForPool"
	c.Let("SQP0", "osmomath.BigDecFromDecMut(osmomath.MonotonicSqrtMut(sdkmath.LegacyDec.Quo(sdkmath.Int.ToLegacyDec(amount1Desired), sdkmath.Int.ToLegacyDec(amount0Desired)))#0)")
	c.CallArg(IP, "cltypes.ConcentratedPoolExtension.SetCurrentSqrtPrice", 1, "{SQP0}", "the initial sqrt price is sqrt(amount1/amount0)")
	c.CallArg(IP, "cltypes.ConcentratedPoolExtension.SetCurrentTick", 1, "clmath.SqrtPriceToTickRoundDownSpacing({SQP0}, cltypes.ConcentratedPoolExtension.GetTickSpacing(pool))#0", "the initial tick is that price's tick rounded down to the pool's spacing by the shared helper (so the range containing the price is the active one)")
	c.HasCall(IP, "cl.Keeper.setPool", []string{"k", "ctx", "pool"}, true, "the initial price and tick are persisted", "")
	c.WhoMayCall(K+"RemoveTickInfo", []string{"cl.Keeper.WithdrawPosition"}, "ticks are removed only by withdrawal")
	c.WhoMayCall(K+"deletePosition", []string{"cl.Keeper.WithdrawPosition", "cl.Keeper.transferPositions"}, "positions are deleted only by withdrawal and transfer")
}
