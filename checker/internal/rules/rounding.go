package rules

// R: rounding classes. Every method of the decimal / integer value types that can be inexact is classified
// UP (towards +inf), DOWN (towards zero), NEAREST (half-even) — everything else on those types is EXACT.
// The osmomath entries are the ones proved by property C12's X-round analysis; the cosmossdk.io/math entries are
// the SDK's documented behaviour (trusted).

import (
	"fmt"
	"go/types"
	"sort"
	"strings"

	"golang.org/x/tools/go/ssa"

	"osmolint/internal/ir"
	"osmolint/internal/report"
)

const (
	UP      = "UP"
	DOWN    = "DOWN"
	NEAREST = "NEAREST"
	EXACT   = "EXACT"
	UNKNOWN = "UNKNOWN"
)

var roundTable = map[string]string{}

func init() {
	add := func(class string, recv string, methods ...string) {
		for _, m := range methods {
			roundTable[recv+"."+m] = class
		}
	}
	add(UP, "osmomath.BigDec", "Ceil", "CeilMut", "MulRoundUp", "MulRoundUpDec", "QuoRoundUp", "QuoRoundUpMut", "QuoByDecRoundUp", "QuoRoundUpNextIntMut", "DecRoundUp")
	add(DOWN, "osmomath.BigDec", "TruncateInt", "TruncateDec", "TruncateInt64", "MulTruncate", "MulTruncateDec", "QuoTruncate", "QuoTruncateMut", "QuoTruncateDec", "QuoTruncateDecMut",
		"QuoInt", "QuoInt64", "Dec", "DecWithPrecision", "ChopPrecision", "ChopPrecisionMut")
	add(NEAREST, "osmomath.BigDec", "Mul", "MulMut", "MulDec", "MulDecMut", "Quo", "QuoMut", "QuoRaw", "RoundInt", "RoundInt64", "PowerInteger", "PowerIntegerMut", "LogBase2", "Ln", "TickLog", "CustomBaseLog")
	add(UP, "sdkmath.LegacyDec", "Ceil", "MulRoundUp", "QuoRoundUp", "QuoRoundupMut", "QuoRoundUpMut", "RoundUp")
	add(DOWN, "sdkmath.LegacyDec", "TruncateInt", "TruncateDec", "TruncateInt64", "MulTruncate", "MulTruncateMut", "QuoTruncate", "QuoTruncateMut", "QuoInt", "QuoIntMut", "QuoInt64", "QuoInt64Mut")
	add(NEAREST, "sdkmath.LegacyDec", "Mul", "MulMut", "Quo", "QuoMut", "RoundInt", "RoundInt64", "Power", "PowerMut", "ApproxSqrt", "ApproxRoot")
	add(DOWN, "sdkmath.Int", "Quo", "QuoRaw")
	add(DOWN, "osmomath.BigInt", "Quo", "QuoRaw")
	add(DOWN, "big.Int", "Quo", "QuoRem", "Div", "Rsh", "Sqrt")
	add(DOWN, "sdk.DecCoins", "TruncateDecimal", "QuoDecTruncate", "MulDecTruncate")
	add(NEAREST, "sdk.DecCoins", "MulDec", "QuoDec")
	add(DOWN, "sdk.DecCoin", "TruncateDecimal")
	// osmomath functions
	roundTable["osmomath.MonotonicSqrt"] = UP
	roundTable["osmomath.MonotonicSqrtMut"] = UP
	roundTable["osmomath.MonotonicSqrtBigDec"] = UP
	roundTable["osmomath.MonotonicSqrtBigDecMut"] = UP
	roundTable["osmomath.Pow"] = NEAREST
	roundTable["osmomath.PowApprox"] = NEAREST
	roundTable["osmomath.Exp2"] = NEAREST
	roundTable["osmomath.NewBigDecFromDecMulDec"] = EXACT
	roundTable["osmomath.BigDecFromDec"] = EXACT
	roundTable["osmomath.BigDecFromDecMut"] = EXACT
	roundTable["osmomath.BigDecFromSDKInt"] = EXACT
}

var valueTypes = map[string]bool{"osmomath.BigDec": true, "sdkmath.LegacyDec": true, "sdkmath.Int": true, "osmomath.BigInt": true, "big.Int": true, "sdk.DecCoins": true, "sdk.DecCoin": true, "sdk.Coins": true, "sdk.Coin": true, "sdkmath.Uint": true}

// ClassOfName classifies a canonical callee name; ok=false for names that are not arithmetic on the value types.
func ClassOfName(name string) (string, bool) {
	if c, ok := roundTable[name]; ok {
		return c, true
	}
	i := strings.LastIndex(name, ".")
	if i > 0 && valueTypes[name[:i]] {
		return EXACT, true
	}
	return "", false
}

type RoundOp struct {
	Name  string
	Class string
	Pos   string
	Via   string // osmosis helper through which the operation is reached ("" = direct)
}

var summaryMemo = map[*ssa.Function][]RoundOp{}
var summaryBusy = map[*ssa.Function]bool{}

// opsOfCall returns the inexact operations a call may perform: itself if it is in the table, or (for an osmosis
// function with a body) the operations in its body, recursively.
func (c *Ctx) opsOfCall(f *ir.Func, call ssa.CallInstruction, depth int) []RoundOp {
	name := f.CalleeName(call)
	if cl, ok := ClassOfName(name); ok {
		if cl == EXACT {
			return nil
		}
		return []RoundOp{{Name: name, Class: cl, Pos: c.posOf(call)}}
	}
	callee := call.Common().StaticCallee()
	if callee == nil {
		callee = ir.FuncAlias(call.Common().Value)
	}
	if callee == nil || callee.Blocks == nil || depth > c.summaryDepth() {
		return nil
	}
	if callee.Pkg == nil || !strings.Contains(callee.Pkg.Pkg.Path(), "osmosis") {
		return nil
	}
	if !returnsValueType(callee) {
		return nil
	}
	args := call.Common().Args
	ba := constBoolArgs(callee, func(i int) (bool, bool) {
		if i < len(args) {
			if k, ok := args[i].(*ssa.Const); ok && k.Value != nil && k.Value.Kind().String() == "Bool" {
				return k.Value.String() == "true", true
			}
		}
		return false, false
	})
	var out []RoundOp
	for _, op := range c.summaryConst(callee, ba, depth+1) {
		op.Via = name
		out = append(out, op)
	}
	return out
}

func returnsValueType(fn *ssa.Function) bool {
	res := fn.Signature.Results()
	for i := 0; i < res.Len(); i++ {
		if isValueType(res.At(i).Type()) {
			return true
		}
	}
	return false
}

func isValueType(t types.Type) bool {
	if p, ok := t.(*types.Pointer); ok {
		t = p.Elem()
	}
	if n, ok := t.(*types.Named); ok && n.Obj().Pkg() != nil {
		return valueTypes[ir.PkgShort(n.Obj().Pkg().Path())+"."+n.Obj().Name()]
	}
	if a, ok := t.(*types.Alias); ok {
		return isValueType(types.Unalias(a))
	}
	return false
}

// summary lists the inexact operations of fn's body. boolArgs gives the constant boolean arguments of the call
// being summarised (parameter name -> value): operations in blocks that are only reachable under the opposite
// value of such a parameter are skipped, so `CalcAmount0Delta(..., true)` contributes only its round-up branch.
func (c *Ctx) summary(fn *ssa.Function, depth int) []RoundOp { return c.summaryConst(fn, nil, depth) }

func (c *Ctx) summaryConst(fn *ssa.Function, boolArgs map[string]bool, depth int) []RoundOp {
	key := fn
	if len(boolArgs) == 0 {
		if s, ok := summaryMemo[key]; ok {
			return s
		}
	}
	if summaryBusy[fn] {
		return nil
	}
	summaryBusy[fn] = true
	defer delete(summaryBusy, fn)
	f := c.Wrap(fn)
	var out []RoundOp
	for _, call := range f.Calls() {
		if len(boolArgs) > 0 && infeasible(f, call.Block(), boolArgs) {
			continue
		}
		out = append(out, c.opsOfCall(f, call, depth)...)
	}
	if len(boolArgs) == 0 {
		summaryMemo[key] = out
	}
	return out
}

// infeasible: block b is dominated by a branch on a boolean parameter whose required value contradicts boolArgs.
func infeasible(f *ir.Func, b *ssa.BasicBlock, boolArgs map[string]bool) bool {
	for _, g := range f.GuardsAt(b) {
		cond := g.Cond
		pol := g.Polarity
		for {
			if u, ok := cond.(*ssa.UnOp); ok && u.Op.String() == "!" {
				cond, pol = u.X, !pol
				continue
			}
			break
		}
		if p, ok := cond.(*ssa.Parameter); ok {
			if v, has := boolArgs[p.Name()]; has && v != pol {
				return true
			}
		}
	}
	return false
}

// constBoolArgs: the constant boolean arguments of a call, by callee parameter name.
func constBoolArgs(callee *ssa.Function, argIsConst func(i int) (bool, bool)) map[string]bool {
	out := map[string]bool{}
	for i, p := range callee.Params {
		if b, ok := p.Type().Underlying().(*types.Basic); !ok || b.Kind() != types.Bool {
			continue
		}
		if v, isConst := argIsConst(i); isConst {
			out[p.Name()] = v
		}
	}
	return out
}

func parseClasses(s string) map[string]bool {
	m := map[string]bool{EXACT: true}
	for _, x := range strings.Split(s, ",") {
		m[strings.TrimSpace(x)] = true
	}
	return m
}

// RoundRegion: inside fn — in the blocks where cond is established ("" = the whole function) — every inexact
// arithmetic operation (directly or through osmosis helpers) has one of the allowed classes; `except` lists callee
// names exempt with a reason given in desc. At least min operations must be found.
func (c *Ctx) RoundRegion(fnSpec, cond, allowed string, except []string, min int, desc string) {
	role := "round/" + cond + "/" + allowed
	cond = c.X(cond)
	f := c.Fn(fnSpec)
	if f == nil {
		return
	}
	allow := parseClasses(allowed)
	ex := map[string]bool{}
	for _, e := range except {
		ex[e] = true
	}
	var found []string
	n := 0
	for _, call := range f.Calls() {
		if cond != "" {
			if ok, _ := condHolds(f, call.Block(), cond); !ok {
				continue
			}
		}
		for _, op := range c.opsOfCall(f, call, 0) {
			n++
			label := op.Name + ":" + op.Class
			if op.Via != "" {
				label += " via " + op.Via
			}
			found = append(found, label)
			if !allow[op.Class] && !ex[op.Name] && !(op.Via != "" && ex[op.Via]) {
				c.add("R", fnSpec, role, desc, report.Violated, fmt.Sprintf("%s is %s; allowed here: %s", op.Name, op.Class, allowed)+viaText(op), orStr(op.Pos, c.posOf(call)))
				return
			}
		}
	}
	if n < min {
		c.add("R", fnSpec, role, desc, report.Violated, fmt.Sprintf("only %d rounding operation(s) found in the region, expected at least %d", n, min), c.fnPos(f))
		return
	}
	sort.Strings(found)
	c.add("R", fnSpec, role, desc, report.OK, short(strings.Join(uniq(found), " ")), c.fnPos(f))
}

func viaText(op RoundOp) string {
	if op.Via != "" {
		return " (reached through " + op.Via + ")"
	}
	return ""
}

func orStr(a, b string) string {
	if a != "" {
		return a
	}
	return b
}

// termOps lists the inexact operations in a term (the backward slice of a value as far as origin terms reach).
func (c *Ctx) termOps(t *ir.Term, out *[]RoundOp) {
	t.Walk(func(s *ir.Term) bool {
		if s.Op == "call" {
			if cl, ok := ClassOfName(s.Name); ok {
				if cl != EXACT {
					*out = append(*out, RoundOp{Name: s.Name, Class: cl})
				}
			} else if fn := c.funcByCanonical(s.Name); fn != nil && returnsValueType(fn) {
				args := s.Args
				ba := constBoolArgs(fn, func(i int) (bool, bool) {
					if i < len(args) && args[i].Op == "const" && (args[i].Name == "true" || args[i].Name == "false") {
						return args[i].Name == "true", true
					}
					return false, false
				})
				for _, op := range c.summaryConst(fn, ba, 1) {
					op.Via = s.Name
					*out = append(*out, op)
				}
			}
		}
		return true
	})
}

var canonIndex map[string]*ssa.Function

func (c *Ctx) funcByCanonical(name string) *ssa.Function {
	if canonIndex == nil {
		canonIndex = map[string]*ssa.Function{}
		for _, fn := range c.P.AllFuncs() {
			if fn.Parent() == nil {
				canonIndex[ir.FuncName(fn)] = fn
			}
		}
	}
	return canonIndex[name]
}

// RoundValue: the value selected by sel ("ret:i" = result i on success exits, "arg:callee:i" = argument i of every call
// to callee, "store:Field") is computed with operations of the allowed classes only, and (if last != "") its outermost
// inexact operation has class `last`.
func (c *Ctx) RoundValue(fnSpec, sel, allowed, last string, except []string, desc string) {
	role := "roundvalue/" + sel + "/" + allowed
	f := c.Fn(fnSpec)
	if f == nil {
		return
	}
	allow := parseClasses(allowed)
	ex := map[string]bool{}
	for _, e := range except {
		ex[e] = true
	}
	var terms []*ir.Term
	var pos string
	parts := strings.Split(c.X(sel), ":")
	switch parts[0] {
	case "ret":
		idx := 0
		fmt.Sscanf(parts[1], "%d", &idx)
		for _, b := range f.Fn.Blocks {
			ret, ok := b.Instrs[len(b.Instrs)-1].(*ssa.Return)
			if !ok || idx >= len(ret.Results) || b == f.Fn.Recover {
				continue
			}
			if k := f.ExitKindOf(b); k != ir.SuccessExit && k != ir.MaybeExit {
				continue
			}
			terms = append(terms, f.Term(ret.Results[idx]))
			pos = c.posOf(ret)
		}
	case "arg":
		idx := 0
		fmt.Sscanf(parts[len(parts)-1], "%d", &idx)
		callee := strings.Join(parts[1:len(parts)-1], ":")
		for _, call := range c.sites(f, callee) {
			args := f.CallArgs(call)
			if idx < len(args) {
				terms = append(terms, args[idx])
				pos = c.posOf(call)
			}
		}
	case "store":
		for _, st := range FieldStores(f, parts[1]) {
			terms = append(terms, f.Term(st.Val))
			pos = c.posOf(st)
		}
	}
	if len(terms) == 0 {
		c.add("R", fnSpec, role, desc, report.Violated, "no value selected by "+sel, c.fnPos(f))
		return
	}
	var all []string
	for _, t := range terms {
		var ops []RoundOp
		c.termOps(t, &ops)
		if len(ops) == 0 && last != "" {
			c.add("R", fnSpec, role, desc, report.Violated, "no rounding operation in "+short(t.String())+", expected a final "+last, pos)
			return
		}
		for _, op := range ops {
			all = append(all, op.Name+":"+op.Class)
			if !allow[op.Class] && !ex[op.Name] && !(op.Via != "" && ex[op.Via]) {
				c.add("R", fnSpec, role, desc, report.Violated, fmt.Sprintf("%s is %s; allowed: %s", op.Name, op.Class, allowed)+viaText(op)+" in "+short(t.String()), pos)
				return
			}
		}
		if last != "" && ops[0].Class != last {
			c.add("R", fnSpec, role, desc, report.Violated, fmt.Sprintf("outermost rounding operation is %s (%s), expected %s", ops[0].Name, ops[0].Class, last), pos)
			return
		}
	}
	sort.Strings(all)
	c.add("R", fnSpec, role, desc, report.OK, short(strings.Join(uniq(all), " ")), pos)
}

// ---------------------------------------------------------------------------
// D: direction inference for pure arithmetic functions.
//
// Abstract value per decimal object: EXACT (equals the real-number formula), GE (not below it), LE (not above
// it), ANY. Objects are identified by the SSA value that created them; *Mut methods update the object of their
// receiver in place (the result aliases it), so statements such as `denominator.AddMut(liquidity)` whose result is
// discarded are still accounted for. All operands are assumed positive (stated assumption of the rule instance).

type dirVal int

const (
	dExact dirVal = iota
	dGE
	dLE
	dAny
)

func (d dirVal) String() string { return [...]string{"EXACT", "GE", "LE", "ANY"}[d] }

func geLike(d dirVal) bool { return d == dExact || d == dGE }
func leLike(d dirVal) bool { return d == dExact || d == dLE }

func dirAdd(a, b dirVal) dirVal {
	switch {
	case a == dExact && b == dExact:
		return dExact
	case geLike(a) && geLike(b):
		return dGE
	case leLike(a) && leLike(b):
		return dLE
	}
	return dAny
}

func dirSub(a, b dirVal) dirVal {
	switch {
	case a == dExact && b == dExact:
		return dExact
	case geLike(a) && leLike(b):
		return dGE
	case leLike(a) && geLike(b):
		return dLE
	}
	return dAny
}

func dirMul(class string, a, b dirVal) dirVal {
	switch class {
	case UP:
		if geLike(a) && geLike(b) {
			return dGE
		}
	case DOWN:
		if leLike(a) && leLike(b) {
			return dLE
		}
	}
	return dAny
}

func dirQuo(class string, n, d dirVal) dirVal {
	switch class {
	case UP:
		if geLike(n) && leLike(d) {
			return dGE
		}
	case DOWN:
		if leLike(n) && geLike(d) {
			return dLE
		}
	}
	return dAny
}

// Direction: every value returned by fn (result 0) has direction want ("GE" or "LE") or is EXACT.
func (c *Ctx) Direction(fnSpec, want, desc string) {
	f := c.Fn(fnSpec)
	if f == nil {
		return
	}
	role := "direction/" + want
	dir := map[ssa.Value]dirVal{}
	var root func(v ssa.Value, depth int) ssa.Value
	root = func(v ssa.Value, depth int) ssa.Value {
		if depth > 10 {
			return v
		}
		switch x := v.(type) {
		case *ssa.Call:
			name := f.CalleeName(x)
			if strings.HasSuffix(name, "Mut") && len(x.Common().Args) > 0 && isValueType(x.Common().Args[0].Type()) {
				return root(x.Common().Args[0], depth+1)
			}
		case *ssa.UnOp:
			if a, ok := x.X.(*ssa.Alloc); ok {
				var st *ssa.Store
				n := 0
				for _, r := range *a.Referrers() {
					if s, ok := r.(*ssa.Store); ok && s.Addr == a {
						st, n = s, n+1
					}
				}
				if n == 1 {
					return root(st.Val, depth+1)
				}
			}
		case *ssa.ChangeType:
			return root(x.X, depth+1)
		}
		return v
	}
	get := func(v ssa.Value) dirVal {
		r := root(v, 0)
		if d, ok := dir[r]; ok {
			return d
		}
		switch r.(type) {
		case *ssa.Parameter, *ssa.Const:
			return dExact
		}
		if u, ok := r.(*ssa.UnOp); ok {
			if _, isGlobal := u.X.(*ssa.Global); isGlobal {
				return dExact
			}
		}
		return dAny
	}
	firstLoss := ""
	for _, b := range f.Fn.Blocks {
		for _, ins := range b.Instrs {
			call, ok := ins.(*ssa.Call)
			if !ok {
				continue
			}
			name := f.CalleeName(call)
			args := call.Common().Args
			if len(args) == 0 || !isValueType(args[0].Type()) {
				continue
			}
			i := strings.LastIndex(name, ".")
			m := name[i+1:]
			base := strings.TrimSuffix(m, "Mut")
			cls, _ := ClassOfName(name)
			var res dirVal
			a0 := get(args[0])
			a1 := dExact
			if len(args) > 1 && isValueType(args[1].Type()) {
				a1 = get(args[1])
			}
			switch {
			case base == "Add":
				res = dirAdd(a0, a1)
			case base == "Sub":
				res = dirSub(a0, a1)
			case base == "Clone" || base == "Abs" || m == "BigDecFromDec":
				res = a0
			case strings.HasPrefix(base, "Mul") && cls != NEAREST && cls != EXACT:
				res = dirMul(cls, a0, a1)
			case strings.HasPrefix(base, "Quo") && cls != NEAREST && cls != EXACT:
				res = dirQuo(cls, a0, a1)
			case base == "MulInt" || base == "MulInt64":
				res = a0
			case cls == UP && len(args) == 1: // Ceil, DecRoundUp
				if geLike(a0) {
					res = dGE
				} else {
					res = dAny
				}
			case cls == DOWN && len(args) == 1: // truncations
				if leLike(a0) {
					res = dLE
				} else {
					res = dAny
				}
			case cls == EXACT:
				if _, isBool := call.Type().Underlying().(*types.Basic); isBool {
					continue // comparison / predicate
				}
				res = a0
			default:
				res = dAny
			}
			if res == dAny && firstLoss == "" {
				firstLoss = fmt.Sprintf("%s(%s,%s) at %s", name, a0, a1, c.posOf(call))
			}
			if strings.HasSuffix(m, "Mut") {
				dir[root(args[0], 0)] = res
			} else {
				dir[call] = res
			}
		}
	}
	n := 0
	var got []string
	for _, b := range f.Fn.Blocks {
		ret, ok := b.Instrs[len(b.Instrs)-1].(*ssa.Return)
		if !ok || len(ret.Results) == 0 {
			continue
		}
		n++
		d := get(ret.Results[0])
		got = append(got, d.String())
		if d.String() != want && d != dExact {
			c.add("D", fnSpec, role, desc, report.Violated, fmt.Sprintf("returned value has direction %s, want %s; direction lost at %s", d, want, orStr(firstLoss, "?")), c.posOf(ret))
			return
		}
	}
	if n == 0 {
		c.add("D", fnSpec, role, desc, report.Violated, "no return", c.fnPos(f))
		return
	}
	c.add("D", fnSpec, role, desc, report.OK, "returns: "+strings.Join(got, ","), c.fnPos(f))
}

// summaryDepth: how deep helper bodies are summarised for rounding classes (deeper in the thorough tier).
func (c *Ctx) summaryDepth() int {
	if c.Tier == "thorough" {
		return 7
	}
	return 4
}
