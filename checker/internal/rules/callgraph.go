package rules

import (
	"go/types"
	"sort"

	"golang.org/x/tools/go/ssa"

	"osmolint/internal/ir"
	"osmolint/internal/load"
)

// CallGraph is a name-keyed call graph over non-test osmosis functions: static callees always,
// interface calls resolved by class-hierarchy analysis over the osmosis-defined concrete types.
type CallGraph struct {
	callers map[string][]CallerSite // callee canonical name -> call sites
	callees map[*ssa.Function][]Edge
	Funcs   int
	Edges   int
}

type CallerSite struct {
	Name string // root (non-closure) caller
	Fn   *ssa.Function
	Call ssa.CallInstruction
	Pos  string
}

type Edge struct {
	Call   ssa.CallInstruction
	Callee *ssa.Function
}

func rootFn(fn *ssa.Function) *ssa.Function {
	for fn.Parent() != nil {
		fn = fn.Parent()
	}
	return fn
}

func (c *Ctx) CallGraph() *CallGraph {
	if c.cg != nil {
		return c.cg
	}
	cg := &CallGraph{callers: map[string][]CallerSite{}, callees: map[*ssa.Function][]Edge{}}
	prog := c.P.SSA
	// concrete osmosis types with methods, for CHA
	type impl struct {
		t  types.Type
		ms *types.MethodSet
	}
	var impls []impl
	for _, pk := range c.P.Pkgs {
		if pk.Types == nil {
			continue
		}
		sc := pk.Types.Scope()
		for _, n := range sc.Names() {
			tn, ok := sc.Lookup(n).(*types.TypeName)
			if !ok || tn.IsAlias() {
				continue
			}
			if _, isIface := tn.Type().Underlying().(*types.Interface); isIface {
				continue
			}
			if named, ok := tn.Type().(*types.Named); ok && named.TypeParams().Len() > 0 {
				continue
			}
			for _, t := range []types.Type{tn.Type(), types.NewPointer(tn.Type())} {
				ms := prog.MethodSets.MethodSet(t)
				if ms.Len() > 0 {
					impls = append(impls, impl{t, ms})
				}
			}
		}
	}
	resolveInvoke := func(cc *ssa.CallCommon) []*ssa.Function {
		iface, ok := cc.Value.Type().Underlying().(*types.Interface)
		if !ok {
			return nil
		}
		var out []*ssa.Function
		seen := map[*ssa.Function]bool{}
		for _, im := range impls {
			sel := im.ms.Lookup(cc.Method.Pkg(), cc.Method.Name())
			if sel == nil {
				continue
			}
			if !types.Implements(im.t, iface) {
				continue
			}
			fn := prog.MethodValue(sel)
			if fn == nil || seen[fn] {
				continue
			}
			// wrapper/promoted methods: use the declared function
			seen[fn] = true
			out = append(out, fn)
		}
		return out
	}
	for _, fn := range c.P.AllFuncs() {
		file := c.P.File(rootFn(fn).Pos())
		if fn.Synthetic != "" && fn.Parent() == nil {
			// wrappers, bound methods, instantiations: keep (they forward to the real function)
			if file == "" {
				if fn.Origin() == nil {
					continue
				}
			}
		}
		if file != "" && !load.IsSubjectFile(file) {
			continue
		}
		cg.Funcs++
		for _, b := range fn.Blocks {
			for _, ins := range b.Instrs {
				call, ok := ins.(ssa.CallInstruction)
				if !ok {
					continue
				}
				cc := call.Common()
				var targets []*ssa.Function
				if cc.IsInvoke() {
					targets = resolveInvoke(cc)
				} else if callee := cc.StaticCallee(); callee != nil {
					targets = []*ssa.Function{callee}
				} else {
					continue
				}
				for _, t := range targets {
					name := ir.FuncName(t)
					cg.callers[name] = append(cg.callers[name], CallerSite{Name: ir.FuncName(rootFn(fn)), Fn: fn, Call: call, Pos: c.posOf(call)})
					cg.callees[fn] = append(cg.callees[fn], Edge{call, t})
					cg.Edges++
				}
				// function values passed as arguments / bound methods count as "may call"
				for _, a := range cc.Args {
					if fv := funcValue(a); fv != nil {
						name := ir.FuncName(fv)
						cg.callers[name] = append(cg.callers[name], CallerSite{Name: ir.FuncName(rootFn(fn)), Fn: fn, Call: call, Pos: c.posOf(call)})
						cg.callees[fn] = append(cg.callees[fn], Edge{call, fv})
					}
				}
			}
		}
	}
	for k := range cg.callers {
		s := cg.callers[k]
		sort.SliceStable(s, func(i, j int) bool { return s[i].Name < s[j].Name })
	}
	c.cg = cg
	return cg
}

func funcValue(v ssa.Value) *ssa.Function {
	switch x := v.(type) {
	case *ssa.Function:
		return x
	case *ssa.MakeClosure:
		if f, ok := x.Fn.(*ssa.Function); ok {
			// bound method wrapper: resolve to the method
			if f.Synthetic != "" {
				for _, b := range f.Blocks {
					for _, ins := range b.Instrs {
						if call, ok := ins.(*ssa.Call); ok {
							if callee := call.Common().StaticCallee(); callee != nil {
								return callee
							}
						}
					}
				}
			}
			return f
		}
	case *ssa.ChangeType:
		return funcValue(x.X)
	}
	return nil
}

// CallersOf returns the non-test call sites of a function given by spec ("x/lockup/keeper.Keeper.setLock")
// or canonical name.
func (cg *CallGraph) CallersOf(name string) []CallerSite {
	return cg.callers[name]
}

func (cg *CallGraph) CalleesOf(fn *ssa.Function) []Edge { return cg.callees[fn] }
