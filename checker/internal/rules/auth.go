package rules

// GI: interprocedural owner/admin guard propagation (property C20).
//
// Entries are the methods of generated MsgServer implementations; the actor of an entry is the message field
// named by its GetSigners method. A privileged sink must be reached only along call-graph paths on which some
// frame compares an actor-derived value with an owner-like value of a stored object and fails on mismatch
// before the next call of the path is made.

import (
	"fmt"
	"go/types"
	"os"
	"sort"
	"strings"

	"golang.org/x/tools/go/ssa"

	"osmolint/internal/ir"
	"osmolint/internal/load"
)

type AuthEntry struct {
	Fn     *ssa.Function
	Name   string
	Signer string // field of the message that names the signer
	MsgPar string // name of the message parameter
}

type AuthPath struct {
	Entry   string
	Sink    string
	Frames  []string
	Guarded bool
	GuardAt string // frame and condition
	Pos     string
}

var ownerFields = map[string]bool{"Owner": true, "Address": true, "Admin": true}

// MsgServerEntries finds the message handlers of a keeper package: methods of the named server type whose second
// parameter is a pointer to a Msg* struct; the signer field is read from the message's GetSigners method.
func (c *Ctx) MsgServerEntries(pkgRel, serverType string) []AuthEntry {
	sp := c.P.SSAPkg(pkgRel)
	if sp == nil {
		return nil
	}
	t := sp.Type(serverType)
	if t == nil {
		return nil
	}
	var out []AuthEntry
	for _, tt := range []types.Type{t.Type(), types.NewPointer(t.Type())} {
		ms := c.P.SSA.MethodSets.MethodSet(tt)
		for i := 0; i < ms.Len(); i++ {
			sel := ms.At(i)
			if len(sel.Index()) != 1 || sel.Obj().Pkg() != sp.Pkg {
				continue
			}
			fn := c.P.SSA.MethodValue(sel)
			if fn == nil || fn.Blocks == nil || len(fn.Params) != 3 {
				continue
			}
			mp := fn.Params[2]
			pt, ok := mp.Type().(*types.Pointer)
			if !ok {
				continue
			}
			named, ok := pt.Elem().(*types.Named)
			if !ok || !strings.HasPrefix(named.Obj().Name(), "Msg") {
				continue
			}
			signer := c.signerField(named)
			out = append(out, AuthEntry{Fn: fn, Name: ir.FuncName(fn), Signer: signer, MsgPar: mp.Name()})
		}
	}
	sort.Slice(out, func(i, j int) bool { return out[i].Name < out[j].Name })
	// dedupe (value and pointer method sets overlap)
	var ded []AuthEntry
	for i, e := range out {
		if i == 0 || e.Name != out[i-1].Name {
			ded = append(ded, e)
		}
	}
	return ded
}

// signerField: the field X such that GetSigners returns the address parsed from msg.X.
func (c *Ctx) signerField(msg *types.Named) string {
	for _, tt := range []types.Type{msg, types.NewPointer(msg)} {
		ms := c.P.SSA.MethodSets.MethodSet(tt)
		for i := 0; i < ms.Len(); i++ {
			if ms.At(i).Obj().Name() != "GetSigners" {
				continue
			}
			fn := c.P.SSA.MethodValue(ms.At(i))
			if fn == nil || fn.Blocks == nil {
				continue
			}
			f := c.Wrap(fn)
			for _, call := range f.Calls() {
				if f.CalleeName(call) == "sdk.AccAddressFromBech32" {
					args := f.CallArgs(call)
					if len(args) == 1 && args[0].Op == "field" {
						return args[0].Name
					}
				}
			}
		}
	}
	return ""
}

type authState struct {
	c         *Ctx
	sinks     map[string]bool
	maxDep    int
	paths     []AuthPath
	visited   map[string]bool
	entryByFn map[*ssa.Function]AuthEntry
}

// identity-preserving wrappers: the result still denotes the same account
var identityWrappers = map[string]bool{"sdk.AccAddress.String": true, "sdk.AccAddressFromBech32": true, "sdk.MustAccAddressFromBech32": true,
	"sdk.AccAddress.Bytes": true, "sdk.ValAddress.String": true, "conv:AccAddress": true, "conv:string": true}

// actorDerived: the term denotes the actor's identity: an actor parameter, the signer field of the message, or one
// of these wrapped in identity-preserving conversions. (A value merely computed from the actor — e.g. a lock id
// looked up through the actor's account index — is not the actor.)
func actorDerived(t *ir.Term, actors map[string]bool, msgPar, signer string) bool {
	switch t.Op {
	case "param":
		return actors[t.Name]
	case "field":
		return t.Name == signer && signer != "" && len(t.Args) == 1 && t.Args[0].Op == "param" && t.Args[0].Name == msgPar
	case "extract":
		return t.Idx == 0 && actorDerived(t.Args[0], actors, msgPar, signer)
	case "call":
		if identityWrappers[t.Name] && len(t.Args) >= 1 {
			return actorDerived(t.Args[0], actors, msgPar, signer)
		}
	case "phi":
		if len(t.Args) == 0 {
			return false
		}
		for _, a := range t.Args {
			if !actorDerived(a, actors, msgPar, signer) {
				return false
			}
		}
		return true
	}
	return false
}

// mentionsActor: some sub-term is the actor's identity.
func mentionsActor(t *ir.Term, actors map[string]bool, msgPar, signer string) bool {
	found := false
	t.Walk(func(s *ir.Term) bool {
		if !found && actorDerived(s, actors, msgPar, signer) {
			found = true
		}
		return !found
	})
	return found
}

func ownerLike(t *ir.Term, actors map[string]bool, msgPar, signer string) bool {
	found := false
	t.Walk(func(s *ir.Term) bool {
		if found {
			return false
		}
		if s.Op == "field" && ownerFields[s.Name] && !actorDerived(s, actors, msgPar, signer) {
			found = true
		}
		if s.Op == "call" && (strings.HasSuffix(s.Name, ".GetAdmin") || strings.HasSuffix(s.Name, ".GetOwner") || strings.HasSuffix(s.Name, ".OwnerAddress")) {
			found = true
		}
		return !found
	})
	return found
}

// ownerGuards: the failing branches of f that compare an actor-derived value with an owner-like value and fail on
// mismatch.
func ownerGuards(f *ir.Func, actors map[string]bool, msgPar, signer string) []failBranch {
	var out []failBranch
	for _, fb := range failBranches(f) {
		cd := fb.Cond
		if cd.Op != "eq" || cd.Pol { // fails when the two are NOT equal
			continue
		}
		a, b := cd.A, cd.B
		if actorDerived(a, actors, msgPar, signer) && ownerLike(b, actors, msgPar, signer) ||
			actorDerived(b, actors, msgPar, signer) && ownerLike(a, actors, msgPar, signer) {
			out = append(out, fb)
		}
	}
	return out
}

// guardHelper: callee g, called with actor-derived arguments, contains an owner guard on every success path
// (depth-limited recursion through further helpers).
func (st *authState) guardHelper(g *ssa.Function, actorArgs map[int]bool, depth int) bool {
	if g == nil || g.Blocks == nil || depth > 3 {
		return false
	}
	f := st.c.Wrap(g)
	actors := map[string]bool{}
	for i, p := range g.Params {
		if actorArgs[i] {
			actors[p.Name()] = true
		}
	}
	if len(actors) == 0 {
		return false
	}
	for _, fb := range ownerGuards(f, actors, "", "") {
		if f.MustPassOnSuccess(fb.If.Block()) {
			return true
		}
	}
	// through a further checked helper call that lies on every success path
	for _, call := range f.Calls() {
		callee := call.Common().StaticCallee()
		if callee == nil || callee == g || !ErrChecked(f, call) || !f.MustPassOnSuccess(call.Block()) {
			continue
		}
		aa := map[int]bool{}
		for i, a := range call.Common().Args {
			if actorDerived(f.Term(a), actors, "", "") {
				aa[i] = true
			}
		}
		if len(aa) > 0 && st.guardHelper(callee, aa, depth+1) {
			return true
		}
	}
	return false
}

func (st *authState) walk(entry AuthEntry, fn *ssa.Function, actors map[string]bool, msgPar, signer string, frames []string, guardedAt string, depth int) {
	if depth > st.maxDep {
		return
	}
	f := st.c.Wrap(fn)
	guards := ownerGuards(f, actors, msgPar, signer)
	// checked calls to guard helpers act as guards too
	type hguard struct {
		call ssa.CallInstruction
		name string
	}
	var helpers []hguard
	for _, call := range f.Calls() {
		callee := call.Common().StaticCallee()
		if callee == nil || !ErrChecked(f, call) {
			continue
		}
		aa := map[int]bool{}
		for i, a := range call.Common().Args {
			if actorDerived(f.Term(a), actors, msgPar, signer) {
				aa[i] = true
			}
		}
		if len(aa) > 0 && st.guardHelper(callee, aa, 0) {
			helpers = append(helpers, hguard{call, ir.FuncName(callee)})
		}
	}
	for _, e := range st.c.CallGraph().CalleesOf(fn) {
		callee := e.Callee
		if callee == nil || callee.Blocks == nil {
			continue
		}
		cfile := st.c.P.File(rootFn(callee).Pos())
		if cfile == "" || !load.IsSubjectFile(cfile) {
			continue
		}
		name := ir.FuncName(callee)
		// is this call site guarded in the current frame?
		g := guardedAt
		if g == "" {
			for _, fb := range guards {
				if ir.InstrDominates(fb.If, e.Call) {
					g = ir.FuncName(fn) + ": fails when " + fb.Cond.String()
					break
				}
			}
		}
		if g == "" && len(guards) > 0 {
			// every path to the call passes an owner guard or the true edge of "actor is a module account" (e.g. governance)
			if guardedModuloPrivilege(f, guards, e.Call, actors, msgPar, signer) {
				g = ir.FuncName(fn) + ": fails when " + guards[0].Cond.String() + " unless the actor is a module account (governance)"
			}
		}
		if g == "" {
			for _, h := range helpers {
				if h.call != e.Call && ir.InstrDominates(h.call, e.Call) {
					g = ir.FuncName(fn) + ": checked guard helper " + h.name
					break
				}
			}
		}
		if st.sinks[name] {
			st.paths = append(st.paths, AuthPath{Entry: entry.Name, Sink: name, Frames: append(append([]string{}, frames...), ir.FuncName(fn)), Guarded: g != "", GuardAt: g, Pos: st.c.posOf(e.Call)})
			// a sink may itself contain the guard (keeper-level owner checks): look inside
			if g == "" {
				aa := map[int]bool{}
				args := e.Call.Common().Args
				for i, a := range args {
					if actorDerived(f.Term(a), actors, msgPar, signer) {
						aa[i] = true
					}
				}
				if os.Getenv("AUTH_DEBUG") != "" {
					fmt.Fprintf(os.Stderr, "sink %s from %s actors=%v aa=%v helper=%v\n", name, ir.FuncName(fn), actors, aa, st.guardHelper(callee, aa, 0))
				}
				if len(aa) > 0 && st.guardHelper(callee, aa, 0) {
					p := &st.paths[len(st.paths)-1]
					p.Guarded, p.GuardAt = true, name+": guard inside the sink on every success path"
				}
			}
			continue
		}
		key := fmt.Sprintf("%s|%s|%v|%d", entry.Name, name, g != "", depth)
		if st.visited[key] {
			continue
		}
		st.visited[key] = true
		// a handler invoking another module's handler with a message built from the actor
		if ne, ok := st.entryByFn[callee]; ok {
			args := e.Call.Common().Args
			if len(args) >= 2 && setsFieldToActor(f.Term(args[len(args)-1]), ne.Signer, actors, msgPar, signer) {
				st.walk(entry, callee, map[string]bool{}, ne.MsgPar, ne.Signer, append(append([]string{}, frames...), ir.FuncName(fn)), g, depth+1)
				continue
			}
		}
		// actor parameters of the callee
		ca := map[string]bool{}
		args := e.Call.Common().Args
		off := 0
		if e.Call.Common().IsInvoke() {
			off = 1 // receiver is not in Args for invoke calls; callee.Params[0] is the receiver
		}
		for i, a := range args {
			pi := i + off
			if pi < len(callee.Params) && actorDerived(f.Term(a), actors, msgPar, signer) {
				ca[callee.Params[pi].Name()] = true
			}
		}
		st.walk(entry, callee, ca, "", "", append(append([]string{}, frames...), ir.FuncName(fn)), g, depth+1)
	}
}

// AuthPaths enumerates entry→sink call paths and whether each carries an owner guard.
func (c *Ctx) AuthPaths(entries []AuthEntry, sinks []string, maxDepth int) []AuthPath {
	st := &authState{c: c, sinks: map[string]bool{}, maxDep: maxDepth, visited: map[string]bool{}, entryByFn: map[*ssa.Function]AuthEntry{}}
	for _, s := range sinks {
		st.sinks[s] = true
	}
	for _, e := range entries {
		st.entryByFn[e.Fn] = e
	}
	for _, e := range entries {
		st.walk(e, e.Fn, map[string]bool{}, e.MsgPar, e.Signer, nil, "", 0)
	}
	return st.paths
}

// setsFieldToActor: the (message) value t is built with field `field` set to the actor's identity.
func setsFieldToActor(t *ir.Term, field string, actors map[string]bool, msgPar, signer string) bool {
	found := false
	t.Walk(func(s *ir.Term) bool {
		if !found && s.Op == "call" && s.Name == "with:"+field && len(s.Args) == 2 && actorDerived(s.Args[1], actors, msgPar, signer) {
			found = true
		}
		return !found
	})
	return found
}

// guardedModuloPrivilege: the call is unreachable from the function entry once the owner-guard branches and the
// "actor equals a module account address" true-edges are removed from the control-flow graph.
func guardedModuloPrivilege(f *ir.Func, guards []failBranch, call ssa.CallInstruction, actors map[string]bool, msgPar, signer string) bool {
	blocked := map[*ssa.BasicBlock]bool{}
	for _, g := range guards {
		blocked[g.If.Block()] = true
	}
	type edge struct{ from, to *ssa.BasicBlock }
	cut := map[edge]bool{}
	n := 0
	for _, b := range f.Fn.Blocks {
		iff, ok := b.Instrs[len(b.Instrs)-1].(*ssa.If)
		if !ok {
			continue
		}
		cd := Normalize(f.Term(iff.Cond), true)
		if cd.Op != "eq" {
			continue
		}
		isModuleAddr := func(t *ir.Term) bool {
			found := false
			t.Walk(func(s *ir.Term) bool {
				if s.Op == "call" && (strings.HasSuffix(s.Name, ".GetModuleAccount") || strings.HasSuffix(s.Name, ".GetModuleAddress") || strings.HasSuffix(s.Name, ".NewModuleAddress")) {
					found = true
				}
				return !found
			})
			return found
		}
		if actorDerived(cd.A, actors, msgPar, signer) && isModuleAddr(cd.B) || actorDerived(cd.B, actors, msgPar, signer) && isModuleAddr(cd.A) {
			// the edge on which equality holds
			if cd.Pol {
				cut[edge{b, b.Succs[0]}] = true
			} else {
				cut[edge{b, b.Succs[1]}] = true
			}
			n++
		}
	}
	if n == 0 {
		return false
	}
	target := call.Block()
	entry := f.Fn.Blocks[0]
	if blocked[entry] {
		return true
	}
	seen := map[*ssa.BasicBlock]bool{entry: true}
	work := []*ssa.BasicBlock{entry}
	for len(work) > 0 {
		b := work[len(work)-1]
		work = work[:len(work)-1]
		if b == target {
			return false
		}
		for _, s := range b.Succs {
			if cut[edge{b, s}] || blocked[s] || seen[s] {
				continue
			}
			seen[s] = true
			work = append(work, s)
		}
	}
	return true
}
