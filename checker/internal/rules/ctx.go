// Package rules implements the generic, table-driven rule kinds.
package rules

import (
	"fmt"
	"go/token"
	"go/types"
	"math/big"
	"os"
	"sort"
	"strconv"
	"strings"

	"golang.org/x/tools/go/ssa"

	"osmolint/internal/ir"
	"osmolint/internal/load"
	"osmolint/internal/report"
)

type Ctx struct {
	P    *load.Program
	R    *report.Result
	Prop string
	Tier string
	fns  map[*ssa.Function]*ir.Func
	cg   *CallGraph
	lets map[string]string
	// delegs: subject functions that delegate to a new function (see delegate)
	delegs map[*ssa.Function]*ir.Func
}

// Let defines a textual macro usable as {NAME} in patterns and callee names.
func (c *Ctx) Let(name, text string) {
	if c.lets == nil {
		c.lets = map[string]string{}
	}
	c.lets[name] = c.X(text)
}

// X expands macros.
func (c *Ctx) X(s string) string {
	for i := 0; i < 4 && strings.Contains(s, "{"); i++ {
		for k, v := range c.lets {
			s = strings.ReplaceAll(s, "{"+k+"}", v)
		}
	}
	return s
}

func NewCtx(p *load.Program, prop, tier string, r *report.Result) *Ctx {
	return &Ctx{P: p, R: r, Prop: prop, Tier: tier, fns: map[*ssa.Function]*ir.Func{}}
}

// Fn resolves a function spec; an unresolvable anchor is recorded as undecided (check broken).
func (c *Ctx) Fn(spec string) *ir.Func {
	fn := c.P.Func(spec)
	if fn == nil || fn.Blocks == nil {
		c.add("anchor", spec, "resolve", "function exists in /repo", report.Undecided, "anchor does not resolve: "+spec, "")
		return nil
	}
	if d := c.delegate(fn); d != nil {
		ir.RegisterHelpers(d)
		return d
	}
	f := c.Wrap(fn)
	ir.RegisterHelpers(f)
	return f
}

// delegate: when the subject function has become a thin wrapper — its body is a single call to a function that is
// not in the function inventory (the body was moved into a new helper or a closure became a named method), with the
// wrapper's own parameters / captured variables as arguments — the rules are evaluated on that function, whose
// parameters are printed as the wrapper's arguments.
func (c *Ctx) delegate(fn *ssa.Function) *ir.Func {
	if f, ok := c.delegs[fn]; ok {
		return f
	}
	if c.delegs == nil {
		c.delegs = map[*ssa.Function]*ir.Func{}
	}
	c.delegs[fn] = nil
	var call *ssa.Call
	for _, b := range fn.Blocks {
		for _, ins := range b.Instrs {
			switch x := ins.(type) {
			case *ssa.Call:
				if call != nil {
					return nil
				}
				call = x
			case *ssa.UnOp, *ssa.Return, *ssa.Extract, *ssa.DebugRef, *ssa.FieldAddr, *ssa.Field, *ssa.Alloc, *ssa.Store, *ssa.MakeInterface, *ssa.ChangeType:
			default:
				return nil
			}
		}
	}
	if call == nil || len(fn.Blocks) != 1 {
		return nil
	}
	g := call.Common().StaticCallee()
	if g == nil || !ir.IsNewFunc(g) || len(call.Common().Args) != len(g.Params) {
		return nil
	}
	outer := c.Wrap(fn)
	df := ir.NewFunc(g)
	df.Org.ParamSubst = map[*ssa.Parameter]*ir.Term{}
	for i, p := range g.Params {
		df.Org.ParamSubst[p] = outer.Term(call.Common().Args[i])
	}
	c.R.FuncsTouched[ir.FuncName(g)] = true
	c.delegs[fn] = df
	return df
}

// FnOpt resolves a function spec without complaint.
func (c *Ctx) FnOpt(spec string) *ir.Func {
	fn := c.P.Func(spec)
	if fn == nil || fn.Blocks == nil {
		return nil
	}
	return c.Wrap(fn)
}

func (c *Ctx) Wrap(fn *ssa.Function) *ir.Func {
	if f, ok := c.fns[fn]; ok {
		return f
	}
	f := ir.NewFunc(fn)
	c.fns[fn] = f
	c.R.FuncsTouched[ir.FuncName(fn)] = true
	return f
}

func (c *Ctx) Pos(p interface{ Pos() interface{} }) string { return "" }

func (c *Ctx) add(kind, subject, role, desc string, st report.Status, detail, pos string) {
	key := c.Prop + "/" + kind + "/" + subject + "/" + role
	c.R.Obligations = append(c.R.Obligations, report.Obligation{Key: key, Kind: kind, Subject: subject, Desc: desc, Status: st, Detail: detail, Pos: pos})
}

// Record adds an obligation decided by the caller.
func (c *Ctx) Record(kind, subject, role, desc string, ok bool, detail, pos string) {
	st := report.OK
	if !ok {
		st = report.Violated
	}
	c.add(kind, subject, role, desc, st, detail, pos)
}

func (c *Ctx) Undecided(kind, subject, role, desc, detail, pos string) {
	c.add(kind, subject, role, desc, report.Undecided, detail, pos)
}

func (c *Ctx) Broken(msg string) { c.R.Broken = append(c.R.Broken, msg) }

func (c *Ctx) posOf(ins ssa.Instruction) string {
	if ins == nil {
		return ""
	}
	p := ins.Pos()
	if !p.IsValid() {
		// fall back to the function position
		if ins.Parent() != nil {
			return c.P.Rel(ins.Parent().Pos())
		}
		return ""
	}
	return c.P.Rel(p)
}

func (c *Ctx) fnPos(f *ir.Func) string { return c.P.Rel(f.Fn.Pos()) }

// ---------------------------------------------------------------------------
// selection of call sites

// Sel selects call sites in a function.
type Sel struct {
	Callee string   // canonical callee name, or "*.Suffix"
	Where  []string // optional: "i=pattern" constraints on arguments that select the site (not checked as obligations)
}

// sites returns the calls in f to callee. callee is a '|'-separated list of canonical names, each optionally
// followed by a selector "[i=pattern]" restricting the sites to those whose argument i matches.
func (c *Ctx) sites(f *ir.Func, callee string) []ssa.CallInstruction {
	var out []ssa.CallInstruction
	for _, alt := range splitTop(callee) {
		name := alt
		var sels []string
		if i := strings.Index(alt, "["); i > 0 && strings.HasSuffix(alt, "]") {
			name = alt[:i]
			// one or more selectors: [i=pattern][j=pattern]
			rest := alt[i:]
			depth, st := 0, 0
			for k := 0; k < len(rest); k++ {
				switch rest[k] {
				case '[':
					if depth == 0 {
						st = k + 1
					}
					depth++
				case ']':
					depth--
					if depth == 0 {
						sels = append(sels, rest[st:k])
					}
				}
			}
		}
		var cands []ssa.CallInstruction
		cands = append(cands, f.CallsTo(name)...)
		for _, h := range ir.HelpersOf(f) {
			cands = append(cands, h.HF.CallsTo(name)...)
		}
		for _, call := range cands {
			ok := true
			for _, sel := range sels {
				k := strings.Index(sel, "=")
				idx := 0
				fmt.Sscanf(sel[:k], "%d", &idx)
				args := f.CallArgs(call)
				if idx >= len(args) || !ir.MatchAny(sel[k+1:], args[idx]) {
					ok = false
				}
			}
			if ok {
				out = append(out, call)
			}
		}
	}
	c.R.CallSites += len(out)
	return out
}

// splitTop splits on '|' outside brackets/parentheses.
func splitTop(s string) []string {
	var out []string
	depth, st := 0, 0
	for i := 0; i < len(s); i++ {
		switch s[i] {
		case '(', '[':
			depth++
		case ')', ']':
			depth--
		case '|':
			if depth == 0 && !(i > 0 && s[i-1] == ' ') {
				out = append(out, s[st:i])
				st = i + 1
			}
		}
	}
	return append(out, s[st:])
}

func (c *Ctx) xs(in []string) []string {
	out := make([]string, len(in))
	for i, s := range in {
		out[i] = c.X(s)
	}
	return out
}

func short(s string) string {
	if len(s) > 300 && os.Getenv("VERIF_LONG") == "" {
		return s[:300] + "…"
	}
	return s
}

func joinTerms(ts []*ir.Term) string {
	var s []string
	for _, t := range ts {
		s = append(s, t.String())
	}
	return strings.Join(s, ", ")
}

// ---------------------------------------------------------------------------
// A: argument origin

// CallArg: every call to callee in fn (at least min of them) has argument idx matching pattern.
// Receiver is argument 0 for methods.
func (c *Ctx) CallArg(fnSpec, callee string, idx int, pattern string, desc string) {
	c.CallArgN(fnSpec, callee, idx, pattern, desc, 1, "")
}

// CallArgN is CallArg with a floor on the number of sites and a role suffix to keep keys unique.
func (c *Ctx) CallArgN(fnSpec, callee string, idx int, pattern string, desc string, min int, role string) {
	r := fmt.Sprintf("%s/arg%d%s", callee, idx, role)
	callee, pattern = c.X(callee), c.X(pattern)
	f := c.Fn(fnSpec)
	if f == nil {
		return
	}
	subject := fnSpec
	cs := c.sites(f, callee)
	if len(cs) < min {
		c.add("A", subject, r, desc, report.Violated, fmt.Sprintf("expected >=%d call(s) to %s, found %d", min, callee, len(cs)), c.fnPos(f))
		return
	}
	var found []string
	for _, call := range cs {
		args := f.CallArgs(call)
		if idx >= len(args) {
			c.add("A", subject, r, desc, report.Undecided, fmt.Sprintf("call has %d args", len(args)), c.posOf(call))
			return
		}
		found = append(found, args[idx].String())
		if !ir.MatchAny(pattern, args[idx]) {
			c.add("A", subject, r, desc, report.Violated, fmt.Sprintf("argument %d of %s is %s, want %s", idx, callee, short(args[idx].String()), pattern), c.posOf(call))
			return
		}
	}
	c.add("A", subject, r, desc, report.OK, short(strings.Join(found, " ; ")), c.posOf(cs[0]))
}

// CallWhere selects the calls to callee whose argument selIdx matches selPat (exactly `want` of them must
// exist) and requires argument idx to match pattern.
func (c *Ctx) CallWhere(fnSpec, callee string, selIdx int, selPat string, idx int, pattern, desc, role string) {
	r := fmt.Sprintf("%s/%s", callee, role)
	callee, pattern, selPat = c.X(callee), c.X(pattern), c.X(selPat)
	f := c.Fn(fnSpec)
	if f == nil {
		return
	}
	var hit []ssa.CallInstruction
	for _, call := range c.sites(f, callee) {
		args := f.CallArgs(call)
		if selIdx < len(args) && ir.MatchAny(selPat, args[selIdx]) {
			hit = append(hit, call)
		}
	}
	if len(hit) == 0 {
		c.add("A", fnSpec, r, desc, report.Violated, fmt.Sprintf("no call to %s with arg%d matching %s", callee, selIdx, selPat), c.fnPos(f))
		return
	}
	var found []string
	for _, call := range hit {
		args := f.CallArgs(call)
		if idx >= len(args) || !ir.MatchAny(pattern, args[idx]) {
			got := "?"
			if idx < len(args) {
				got = args[idx].String()
			}
			c.add("A", fnSpec, r, desc, report.Violated, fmt.Sprintf("argument %d of %s is %s, want %s", idx, callee, short(got), pattern), c.posOf(call))
			return
		}
		found = append(found, args[idx].String())
	}
	c.add("A", fnSpec, r, desc, report.OK, short(strings.Join(found, " ; ")), c.posOf(hit[0]))
}

// HasCall: fn contains a call to callee whose arguments match the given patterns ("" = any), and
// (if onSuccess) every success path passes through such a call.
func (c *Ctx) HasCall(fnSpec, callee string, argPats []string, onSuccess bool, desc, role string) {
	r := callee + "/" + role
	callee = c.X(callee)
	argPats = c.xs(argPats)
	f := c.Fn(fnSpec)
	if f == nil {
		return
	}
	kind := "M"
	var hits []ssa.CallInstruction
	var seen []string
	for _, call := range c.sites(f, callee) {
		args := f.CallArgs(call)
		seen = append(seen, "("+joinTerms(args)+")")
		ok := true
		for i, p := range argPats {
			if p == "" {
				continue
			}
			if i >= len(args) || !ir.MatchAny(p, args[i]) {
				ok = false
				break
			}
		}
		if ok {
			hits = append(hits, call)
		}
	}
	if len(hits) == 0 {
		c.add(kind, fnSpec, r, desc, report.Violated, fmt.Sprintf("no call %s(%s); calls seen: %s", callee, strings.Join(argPats, ", "), short(strings.Join(seen, " ; "))), c.fnPos(f))
		return
	}
	if onSuccess {
		if !c.MustPassAny(f, hits) {
			c.add(kind, fnSpec, r, desc, report.Violated, fmt.Sprintf("a success path avoids every call %s(%s)", callee, strings.Join(argPats, ", ")), c.posOf(hits[0]))
			return
		}
	}
	c.add(kind, fnSpec, r, desc, report.OK, short(f.CalleeName(hits[0])+"("+joinTerms(f.CallArgs(hits[0]))+")"), c.posOf(hits[0]))
}

// mustPassAny: every entry→success path passes through the block of at least one of the calls.
func (c *Ctx) MustPassAny(f *ir.Func, calls []ssa.CallInstruction) bool {
	blocks := map[*ssa.BasicBlock]bool{}
	inHelper := map[*ssa.Function]map[*ssa.BasicBlock]bool{}
	for _, call := range calls {
		b := call.Block()
		if b.Parent() != f.Fn {
			if inHelper[b.Parent()] == nil {
				inHelper[b.Parent()] = map[*ssa.BasicBlock]bool{}
			}
			inHelper[b.Parent()][b] = true
			continue
		}
		blocks[b] = true
	}
	// calls inside a registered helper happen where the helper is called, provided the helper cannot succeed
	// without passing one of them (jointly: an if/else inside the helper may make one call on each branch)
	for fn, bs := range inHelper {
		h := ir.HelperOf(f, fn)
		if h == nil || !mustPassWithin(h.HF, bs) {
			continue
		}
		for b := range bs {
			blocks[f.OuterBlock(b)] = true
			break
		}
	}
	return mustPassWithin(f, blocks)
}

// mustPassWithin: every path of f's own CFG from entry to a success (or maybe) exit passes one of the blocks.
func mustPassWithin(f *ir.Func, blocks map[*ssa.BasicBlock]bool) bool {
	entry := f.Fn.Blocks[0]
	if blocks[entry] {
		return true
	}
	seen := map[*ssa.BasicBlock]bool{entry: true}
	work := []*ssa.BasicBlock{entry}
	for len(work) > 0 {
		b := work[len(work)-1]
		work = work[:len(work)-1]
		k := f.ExitKindOf(b)
		if k == ir.SuccessExit || k == ir.MaybeExit {
			return false
		}
		for _, s := range ir.FeasibleSuccs(b) {
			if !seen[s] && !blocks[s] {
				seen[s] = true
				work = append(work, s)
			}
		}
	}
	return true
}

// NoCall: fn contains no call to callee.
func (c *Ctx) NoCall(fnSpec, callee, desc string) {
	f := c.Fn(fnSpec)
	if f == nil {
		return
	}
	cs := c.sites(f, callee)
	if len(cs) > 0 {
		c.add("W", fnSpec, "nocall/"+callee, desc, report.Violated, "call to "+callee, c.posOf(cs[0]))
		return
	}
	c.add("W", fnSpec, "nocall/"+callee, desc, report.OK, "no call", c.fnPos(f))
}

// ---------------------------------------------------------------------------
// O: order

// Order: every call to `later` in fn is dominated by a call to `earlier` (and both exist).
func (c *Ctx) Order(fnSpec, earlier, later, desc string) {
	f := c.Fn(fnSpec)
	if f == nil {
		return
	}
	r := earlier + "<" + later
	es, ls := c.sites(f, earlier), c.sites(f, later)
	if len(es) == 0 || len(ls) == 0 {
		c.add("O", fnSpec, r, desc, report.Violated, fmt.Sprintf("calls found: %s=%d %s=%d", earlier, len(es), later, len(ls)), c.fnPos(f))
		return
	}
	for _, l := range ls {
		ok := false
		for _, e := range es {
			if ir.InstrDominates(e, l) {
				ok = true
				break
			}
		}
		if !ok {
			c.add("O", fnSpec, r, desc, report.Violated, fmt.Sprintf("%s is not preceded by %s on every path", later, earlier), c.posOf(l))
			return
		}
	}
	c.add("O", fnSpec, r, desc, report.OK, fmt.Sprintf("%d/%d sites", len(es), len(ls)), c.posOf(ls[0]))
}

// ---------------------------------------------------------------------------
// returns / stores

// Returns: every success exit of fn returns, at result idx, a term matching pattern.
func (c *Ctx) Returns(fnSpec string, idx int, pattern, desc, role string) {
	pattern = c.X(pattern)
	f := c.Fn(fnSpec)
	if f == nil {
		return
	}
	r := fmt.Sprintf("ret%d%s", idx, role)
	n := 0
	var found, bad []string
	var badPos string
	for _, b := range retBlocks(f) {
		ret, ok := b.Instrs[len(b.Instrs)-1].(*ssa.Return)
		if !ok {
			continue
		}
		k := f.ExitKindOf(b)
		if k != ir.SuccessExit && k != ir.MaybeExit {
			continue
		}
		if b == f.Fn.Recover {
			continue
		}
		if idx >= len(ret.Results) {
			c.add("A", fnSpec, r, desc, report.Undecided, "result index out of range", c.posOf(ret))
			return
		}
		t := f.Term(ret.Results[idx])
		n++
		found = append(found, t.String())
		if !ir.MatchAny(pattern, t) {
			bad = append(bad, short(t.String()))
			if badPos == "" {
				badPos = c.posOf(ret)
			}
		}
	}
	if len(bad) > 0 {
		// all offending returns are listed so that a known finding can name exactly the ones it covers
		c.add("A", fnSpec, r, desc, report.Violated, fmt.Sprintf("result %d is {%s}, want %s", idx, strings.Join(bad, " ;; "), pattern), badPos)
		return
	}
	if n == 0 {
		c.add("A", fnSpec, r, desc, report.Violated, "no success exit", c.fnPos(f))
		return
	}
	c.add("A", fnSpec, r, desc, report.OK, short(strings.Join(found, " ; ")), c.fnPos(f))
}

// FieldStores returns the stores in fn to a field with the given name (any base).
func FieldStores(f *ir.Func, field string) []*ssa.Store {
	var out []*ssa.Store
	for _, b := range f.Fn.Blocks {
		for _, ins := range b.Instrs {
			if st, ok := ins.(*ssa.Store); ok {
				if fa, ok := st.Addr.(*ssa.FieldAddr); ok {
					if ir.FieldNameOf(fa) == field {
						out = append(out, st)
					}
				}
			}
		}
	}
	return out
}

// StoreField: fn stores to field `field` (at least once) and every such store's value matches pattern.
func (c *Ctx) StoreField(fnSpec, field, pattern, desc string) {
	pattern = c.X(pattern)
	f := c.Fn(fnSpec)
	if f == nil {
		return
	}
	r := "store/" + field
	sts := FieldStores(f, field)
	if len(sts) == 0 {
		c.add("A", fnSpec, r, desc, report.Violated, "no store to field "+field, c.fnPos(f))
		return
	}
	var found []string
	for _, st := range sts {
		t := f.Term(st.Val)
		found = append(found, t.String())
		if !ir.MatchAny(pattern, t) {
			c.add("A", fnSpec, r, desc, report.Violated, fmt.Sprintf("%s := %s, want %s", field, short(t.String()), pattern), c.posOf(st))
			return
		}
	}
	c.add("A", fnSpec, r, desc, report.OK, short(strings.Join(found, " ; ")), c.posOf(sts[0]))
}

// ---------------------------------------------------------------------------
// W: who may call

// WhoMayCall: the set of non-test functions calling target (static or via interface method of the same
// name on the keeper interfaces) is a subset of allowed, and every allowed caller marked required exists.
func (c *Ctx) WhoMayCall(target string, allowed []string, desc string) {
	tf := c.P.Func(target)
	if tf == nil {
		c.add("W", target, "callers", desc, report.Undecided, "anchor does not resolve: "+target, "")
		return
	}
	cg := c.CallGraph()
	callers := cg.CallersOf(ir.FuncName(tf))
	allow := map[string]bool{}
	for _, a := range allowed {
		allow[a] = true
	}
	// a caller that is not in the function inventory was introduced by a later refactor (an extracted helper): it is
	// transparent, its own callers are judged instead (three levels)
	for depth := 0; depth < 3; depth++ {
		var next []CallerSite
		changed := false
		for _, cr := range callers {
			root := cr.Fn
			for root != nil && root.Parent() != nil {
				root = root.Parent()
			}
			if !allow[cr.Name] && root != nil && ir.IsNewFunc(root) {
				up := cg.CallersOf(cr.Name)
				if len(up) > 0 {
					next = append(next, up...)
					changed = true
					continue
				}
			}
			next = append(next, cr)
		}
		callers = next
		if !changed {
			break
		}
	}
	var names []string
	for _, cr := range callers {
		names = append(names, cr.Name)
		if !allow[cr.Name] {
			c.add("W", target, "callers", desc, report.Violated, fmt.Sprintf("unexpected caller %s (allowed: %s)", cr.Name, strings.Join(allowed, ", ")), cr.Pos)
			return
		}
	}
	sort.Strings(names)
	c.add("W", target, "callers", desc, report.OK, strings.Join(uniq(names), ", "), "")
}

func uniq(s []string) []string {
	var out []string
	for i, x := range s {
		if i == 0 || x != s[i-1] {
			out = append(out, x)
		}
	}
	return out
}

// StoreOrder: every store to field `field` in fn is preceded (dominated) by a call to `before` (if non-empty)
// and followed on every success path by a call to each of `after` (the store dominates them).
func (c *Ctx) StoreOrder(fnSpec, field, before string, after []string, desc string) {
	f := c.Fn(fnSpec)
	if f == nil {
		return
	}
	r := "storeorder/" + field
	sts := FieldStores(f, field)
	if len(sts) == 0 {
		c.add("O", fnSpec, r, desc, report.Violated, "no store to field "+field, c.fnPos(f))
		return
	}
	for _, st := range sts {
		if before != "" {
			ok := false
			for _, call := range c.sites(f, before) {
				if ir.InstrDominates(call, st) {
					ok = true
				}
			}
			if !ok {
				c.add("O", fnSpec, r, desc, report.Violated, "store to "+field+" is not preceded by "+before, c.posOf(st))
				return
			}
		}
		for _, a := range after {
			if !c.followedBy(f, st, c.sites(f, a)) {
				c.add("O", fnSpec, r, desc, report.Violated, "store to "+field+" is not followed by "+a+" on every success path", c.posOf(st))
				return
			}
		}
	}
	c.add("O", fnSpec, r, desc, report.OK, fmt.Sprintf("%d store(s)", len(sts)), c.posOf(sts[0]))
}

// followedBy: every path from instruction `from` to a success exit passes one of the calls.
// FollowedBy: on every path from `from` to a successful exit one of the calls executes.
func (c *Ctx) FollowedBy(f *ir.Func, from ssa.Instruction, calls []ssa.CallInstruction) bool {
	return c.followedBy(f, from, calls)
}

func (c *Ctx) followedBy(f *ir.Func, from ssa.Instruction, calls []ssa.CallInstruction) bool {
	if from.Parent() != f.Fn || anyOutside(f, calls) {
		// positions inside registered helpers are taken at the call that reaches them
		from = f.OuterInstr(from)
		var mapped []ssa.CallInstruction
		for _, cl := range calls {
			if cl.Parent() == f.Fn {
				mapped = append(mapped, cl)
			} else if h := ir.HelperOf(f, cl.Parent()); h != nil && h.HF.MustPassOnSuccess(cl.Block()) {
				if oc, ok := f.OuterInstr(cl).(ssa.CallInstruction); ok {
					mapped = append(mapped, oc)
				}
			}
		}
		calls = mapped
		for _, cl := range calls {
			if cl == from {
				return true // both inside the same helper call: decided within the helper
			}
		}
	}
	blocks := map[*ssa.BasicBlock]bool{}
	for _, call := range calls {
		if call.Block() == from.Block() {
			// same block: after `from`?
			after := false
			for _, ins := range from.Block().Instrs {
				if ins == from {
					after = true
				} else if ins == call.(ssa.Instruction) && after {
					return true
				}
			}
			continue
		}
		blocks[call.Block()] = true
	}
	start := from.Block()
	seen := map[*ssa.BasicBlock]bool{}
	work := []*ssa.BasicBlock{}
	k := f.ExitKindOf(start)
	if k == ir.SuccessExit || k == ir.MaybeExit {
		return false
	}
	for _, s := range start.Succs {
		if !blocks[s] && !seen[s] {
			seen[s] = true
			work = append(work, s)
		}
	}
	for len(work) > 0 {
		b := work[len(work)-1]
		work = work[:len(work)-1]
		k := f.ExitKindOf(b)
		if k == ir.SuccessExit || k == ir.MaybeExit {
			return false
		}
		for _, s := range b.Succs {
			if !seen[s] && !blocks[s] {
				seen[s] = true
				work = append(work, s)
			}
		}
	}
	return true
}

// NeverAfter: no execution of fn calls `later` after having called `earlier`... i.e. no call to `second` is reachable
// from a call to `first` (used as: NeverAfter(fn, first=B, second=A) = "A never happens after B").
func (c *Ctx) NeverAfter(fnSpec, first, second, desc string) {
	r := "neverafter/" + first + ">" + second
	first, second = c.X(first), c.X(second)
	f := c.Fn(fnSpec)
	if f == nil {
		return
	}
	fs, ss := c.sites(f, first), c.sites(f, second)
	if len(fs) == 0 || len(ss) == 0 {
		c.add("O", fnSpec, r, desc, report.Violated, fmt.Sprintf("calls found: %s=%d %s=%d", first, len(fs), second, len(ss)), c.fnPos(f))
		return
	}
	for _, a := range fs {
		for _, b := range ss {
			if instrReaches(a, b) {
				c.add("O", fnSpec, r, desc, report.Violated, second+" can execute after "+first, c.posOf(b))
				return
			}
		}
	}
	c.add("O", fnSpec, r, desc, report.OK, fmt.Sprintf("%d×%d site pairs", len(fs), len(ss)), c.posOf(fs[0]))
}

func anyOutside(f *ir.Func, calls []ssa.CallInstruction) bool {
	for _, cl := range calls {
		if cl.Parent() != f.Fn {
			return true
		}
	}
	return false
}

// instrReaches: can b execute after a?
func instrReaches(a, b ssa.Instruction) bool {
	if a.Parent() != b.Parent() {
		return crossReaches(a, b)
	}
	if a.Block() == b.Block() {
		ia, ib := -1, -1
		for i, ins := range a.Block().Instrs {
			if ins == a {
				ia = i
			}
			if ins == b {
				ib = i
			}
		}
		if ia < ib {
			return true
		}
	}
	seen := map[*ssa.BasicBlock]bool{}
	work := append([]*ssa.BasicBlock{}, a.Block().Succs...)
	for len(work) > 0 {
		x := work[len(work)-1]
		work = work[:len(work)-1]
		if seen[x] {
			continue
		}
		seen[x] = true
		if x == b.Block() {
			return true
		}
		work = append(work, x.Succs...)
	}
	return false
}

// LoopFree: the control-flow graph of fn has no cycle.
func (c *Ctx) LoopFree(fnSpec, desc string) {
	f := c.Fn(fnSpec)
	if f == nil {
		return
	}
	color := map[*ssa.BasicBlock]int{}
	var cyc *ssa.BasicBlock
	var dfs func(b *ssa.BasicBlock)
	dfs = func(b *ssa.BasicBlock) {
		color[b] = 1
		for _, s := range b.Succs {
			if color[s] == 1 {
				cyc = s
			} else if color[s] == 0 {
				dfs(s)
			}
		}
		color[b] = 2
	}
	dfs(f.Fn.Blocks[0])
	if cyc != nil {
		pos := c.fnPos(f)
		for _, ins := range cyc.Instrs {
			if ins.Pos().IsValid() {
				pos = c.P.Rel(ins.Pos())
				break
			}
		}
		c.add("O", fnSpec, "loopfree", desc, report.Violated, "the function contains a loop", pos)
		return
	}
	c.add("O", fnSpec, "loopfree", desc, report.OK, fmt.Sprintf("%d blocks, no cycle", len(f.Fn.Blocks)), c.fnPos(f))
}

// LoopNoEarlyExit: no return, panic or jump out of a loop body of fn other than through the loop header's exit edge
// (every element of the iterated collection is visited).
func (c *Ctx) LoopNoEarlyExit(fnSpec, desc string) {
	f := c.Fn(fnSpec)
	if f == nil {
		return
	}
	n := 0
	for _, h := range f.Fn.Blocks {
		// loop header: has a predecessor it dominates
		var latch []*ssa.BasicBlock
		for _, p := range h.Preds {
			if h.Dominates(p) {
				latch = append(latch, p)
			}
		}
		if len(latch) == 0 {
			continue
		}
		n++
		// natural loop body
		body := map[*ssa.BasicBlock]bool{h: true}
		work := append([]*ssa.BasicBlock{}, latch...)
		for len(work) > 0 {
			b := work[len(work)-1]
			work = work[:len(work)-1]
			if body[b] {
				continue
			}
			body[b] = true
			work = append(work, b.Preds...)
		}
		for b := range body {
			if b == h {
				continue
			}
			for _, s := range b.Succs {
				if !body[s] {
					c.add("O", fnSpec, "loopnoexit", desc, report.Violated, "the loop body can leave the loop early", c.blockPos(b, f))
					return
				}
			}
			if len(b.Succs) == 0 {
				c.add("O", fnSpec, "loopnoexit", desc, report.Violated, "the loop body returns or panics", c.blockPos(b, f))
				return
			}
		}
	}
	if n == 0 {
		c.add("O", fnSpec, "loopnoexit", desc, report.Violated, "no loop found", c.fnPos(f))
		return
	}
	c.add("O", fnSpec, "loopnoexit", desc, report.OK, fmt.Sprintf("%d loop(s)", n), c.fnPos(f))
}

// LoopOnlyFailExits: every way out of a loop body of fn other than the header's exit edge ends in failure
// (a successful run visits every element of the iterated collection).
func (c *Ctx) LoopOnlyFailExits(fnSpec, desc string) {
	f := c.Fn(fnSpec)
	if f == nil {
		return
	}
	n := 0
	allBlocks := append([]*ssa.BasicBlock{}, f.Fn.Blocks...)
	for _, hc := range ir.HelpersOf(f) {
		allBlocks = append(allBlocks, hc.HF.Fn.Blocks...)
	}
	for _, h := range allBlocks {
		body, _ := NaturalLoop(h)
		if body == nil {
			continue
		}
		n++
		for _, b := range h.Parent().Blocks {
			if !body[b] || b == h {
				continue
			}
			for _, s := range b.Succs {
				if !body[s] && f.CanSucceed(s) {
					c.add("O", fnSpec, "looponlyfail", desc, report.Violated, "the loop body can leave the loop early and still succeed", c.blockPos(b, f))
					return
				}
			}
			if len(b.Succs) == 0 && f.CanSucceed(b) {
				c.add("O", fnSpec, "looponlyfail", desc, report.Violated, "the loop body returns successfully", c.blockPos(b, f))
				return
			}
		}
	}
	if n == 0 {
		c.add("O", fnSpec, "looponlyfail", desc, report.Violated, "no loop found", c.fnPos(f))
		return
	}
	c.add("O", fnSpec, "looponlyfail", desc, report.OK, fmt.Sprintf("%d loop(s)", n), c.fnPos(f))
}

func (c *Ctx) blockPos(b *ssa.BasicBlock, f *ir.Func) string {
	for _, ins := range b.Instrs {
		if ins.Pos().IsValid() {
			return c.P.Rel(ins.Pos())
		}
	}
	return c.fnPos(f)
}

// InitStore: the package-level variable pkgRel.name is initialised (exactly once, in the package initialiser)
// with a value matching pattern.
func (c *Ctx) InitStore(pkgRel, name, pattern, desc string) {
	pattern = c.X(pattern)
	sp := c.P.SSAPkg(pkgRel)
	subject := pkgRel + "." + name
	if sp == nil {
		c.add("C", subject, "init", desc, report.Undecided, "package not loaded", "")
		return
	}
	initFn := sp.Func("init")
	g, _ := sp.Members[name].(*ssa.Global)
	if initFn == nil || g == nil {
		c.add("C", subject, "init", desc, report.Undecided, "anchor does not resolve", "")
		return
	}
	f := c.Wrap(initFn)
	var sts []*ssa.Store
	for _, b := range initFn.Blocks {
		for _, ins := range b.Instrs {
			if st, ok := ins.(*ssa.Store); ok && st.Addr == g {
				sts = append(sts, st)
			}
		}
	}
	if len(sts) != 1 {
		c.add("C", subject, "init", desc, report.Violated, fmt.Sprintf("%d initialising stores", len(sts)), c.P.Rel(g.Pos()))
		return
	}
	t := f.Term(sts[0].Val)
	if !ir.MatchAny(pattern, t) {
		c.add("C", subject, "init", desc, report.Violated, fmt.Sprintf("initialised with %s, want %s", short(t.String()), pattern), c.P.Rel(g.Pos()))
		return
	}
	c.add("C", subject, "init", desc, report.OK, short(t.String()), c.P.Rel(g.Pos()))
}

// ConstValue: the declared constant pkgRel.name has the given exact value.
func (c *Ctx) ConstValue(pkgRel, name, want string) {
	subject := pkgRel + "." + name
	pk := c.P.Pkg(pkgRel)
	if pk == nil || pk.Types == nil {
		c.add("C", subject, "const", "constant has the documented value "+want, report.Undecided, "package not loaded", "")
		return
	}
	obj, _ := pk.Types.Scope().Lookup(name).(*types.Const)
	if obj == nil {
		c.add("C", subject, "const", "constant has the documented value "+want, report.Undecided, "anchor does not resolve", "")
		return
	}
	got := obj.Val().ExactString()
	c.add("C", subject, "const", "constant has the documented value "+want, map[bool]report.Status{true: report.OK, false: report.Violated}[got == want], got, c.P.Rel(obj.Pos()))
}

// SendersFrom: in package pkgRel, every call to callee whose argument idx mentions one of the given account getters
// (a pool-owned account as the source of funds) occurs in one of the allowed functions.
func (c *Ctx) SendersFrom(pkgRel, callee string, idx int, getters []string, allowed []string, desc string) {
	sp := c.P.SSAPkg(pkgRel)
	if sp == nil {
		c.add("W", pkgRel, "sendersfrom/"+callee, desc, report.Undecided, "package not loaded", "")
		return
	}
	allow := map[string]bool{}
	for _, a := range allowed {
		allow[a] = true
	}
	n := 0
	var found []string
	for _, fn := range c.P.AllFuncs() {
		if fn.Pkg != sp || !load.IsSubjectFile(c.P.File(fn.Pos())) {
			continue
		}
		f := c.Wrap(fn)
		for _, call := range f.CallsTo(callee) {
			args := f.CallArgs(call)
			if idx >= len(args) {
				continue
			}
			hit := false
			args[idx].Walk(func(t *ir.Term) bool {
				if t.Op == "call" {
					for _, g := range getters {
						if strings.HasSuffix(t.Name, "."+g) {
							hit = true
						}
					}
				}
				return !hit
			})
			// a parameter named sender may be a pool account too (helpers): those helpers are in the allow-list by name
			if !hit {
				continue
			}
			n++
			root := ir.FuncName(rootFn(fn))
			// a function that is not in the inventory was extracted later: the send is judged at its callers
			roots := []string{root}
			if !allow[root] && ir.IsNewFunc(rootFn(fn)) {
				cur := []string{root}
				for depth := 0; depth < 3; depth++ {
					var up []string
					for _, nm := range cur {
						for _, cr := range c.CallGraph().CallersOf(nm) {
							r := cr.Fn
							for r != nil && r.Parent() != nil {
								r = r.Parent()
							}
							if !allow[cr.Name] && r != nil && ir.IsNewFunc(r) && depth < 2 {
								up = append(up, cr.Name)
							} else {
								roots = append(roots, cr.Name)
							}
						}
					}
					if len(up) == 0 {
						break
					}
					cur = up
				}
				if len(roots) > 1 {
					roots = roots[1:]
				}
			}
			for _, root := range roots {
				found = append(found, root)
				if !allow[root] {
					c.add("W", pkgRel, "sendersfrom/"+callee, desc, report.Violated, "funds are sent from a pool-owned account in "+root, c.posOf(call))
					return
				}
			}
		}
	}
	if n == 0 {
		c.add("W", pkgRel, "sendersfrom/"+callee, desc, report.Violated, "no send from a pool-owned account found (rule matches nothing)", "")
		return
	}
	sort.Strings(found)
	c.add("W", pkgRel, "sendersfrom/"+callee, desc, report.OK, strings.Join(uniq(found), ", "), "")
}

// PairedArg (rule M): for every call to first in fn, argument i of it is also passed (the same origin term) as some
// argument of a later call to second that lies on every success path from the first call: "what is paid is booked".
func (c *Ctx) PairedArg(fnSpec, first string, i int, second, desc string) {
	role := "paired/" + first + "/" + second
	first, second = c.X(first), c.X(second)
	f := c.Fn(fnSpec)
	if f == nil {
		return
	}
	fs := c.sites(f, first)
	if len(fs) == 0 {
		c.add("M", fnSpec, role, desc, report.Violated, "no call to "+first, c.fnPos(f))
		return
	}
	for _, a := range fs {
		args := f.CallArgs(a)
		if i >= len(args) {
			c.add("M", fnSpec, role, desc, report.Undecided, "argument index out of range", c.posOf(a))
			return
		}
		want := args[i].String()
		var hits []ssa.CallInstruction
		for _, b := range c.sites(f, second) {
			for _, t := range f.CallArgs(b) {
				if t.String() == want {
					hits = append(hits, b)
				}
			}
		}
		if len(hits) == 0 || !c.followedBy(f, a, hits) {
			c.add("M", fnSpec, role, desc, report.Violated, fmt.Sprintf("the value %s passed to %s is not passed to %s on every success path afterwards", short(want), first, second), c.posOf(a))
			return
		}
	}
	c.add("M", fnSpec, role, desc, report.OK, fmt.Sprintf("%d site(s)", len(fs)), c.posOf(fs[0]))
}

// ConstValueOrInit: pkgRel.name is a declared constant with the given value, or a package variable initialised
// with a constant / term matching the pattern.
func (c *Ctx) ConstValueOrInit(pkgRel, name, want string) {
	pk := c.P.Pkg(pkgRel)
	if pk != nil && pk.Types != nil {
		if obj, ok := pk.Types.Scope().Lookup(name).(*types.Const); ok {
			got := obj.Val().ExactString()
			okv := false
			for _, alt := range strings.Split(want, " | ") {
				if got == strings.TrimSpace(alt) {
					okv = true
				}
			}
			c.add("C", pkgRel+"."+name, "const", "declared bound has the documented value "+want, map[bool]report.Status{true: report.OK, false: report.Violated}[okv], got, c.P.Rel(obj.Pos()))
			return
		}
	}
	c.InitStore(pkgRel, name, want, "declared bound has the documented value")
}

// PairedArgN (rule M): every value-typed result component of the call to `first` that is used is passed on to
// `second`, and the coin/share arguments of `second` are results of `first` or arguments given to `first`.
func (c *Ctx) PairedArgN(fnSpec, first, second, desc string) {
	role := "pairedres/" + first + "/" + second
	f := c.Fn(fnSpec)
	if f == nil {
		return
	}
	fs, ss := c.sites(f, first), c.sites(f, second)
	if len(fs) == 0 || len(ss) == 0 {
		c.add("M", fnSpec, role, desc, report.Violated, fmt.Sprintf("calls found: %s=%d %s=%d", first, len(fs), second, len(ss)), c.fnPos(f))
		return
	}
	ft := f.Term(fs[0].Value()).String()
	fargs := map[string]bool{}
	for _, a := range f.CallArgs(fs[0]) {
		fargs[a.String()] = true
	}
	for _, s := range ss {
		args := f.CallArgs(s)
		// the last two arguments of the state-change helpers are (numShares, coins)
		for _, a := range args[len(args)-2:] {
			str := a.String()
			isResult := str == ft
			for k := 0; k < 4 && !isResult; k++ {
				if str == fmt.Sprintf("%s#%d", ft, k) {
					isResult = true
				}
			}
			// a single coin wrapped into a coin set is the same value
			if (a.Op == "op" && a.Name == "list" || a.Op == "call" && a.Name == "sdk.NewCoins") && len(a.Args) == 1 && fargs[a.Args[0].String()] {
				isResult = true
			}
			if !isResult && !fargs[str] {
				c.add("M", fnSpec, role, desc, report.Violated, fmt.Sprintf("argument %s of %s is neither a result of %s nor an argument given to it", short(str), second, first), c.posOf(s))
				return
			}
		}
	}
	c.add("M", fnSpec, role, desc, report.OK, fmt.Sprintf("%d site(s)", len(ss)), c.posOf(ss[0]))
}

// SameSubterm: in fn, result 1 (the fee) contains result 0's amount term (the fee is the difference to the very
// value that is returned as the after-fee amount).
func (c *Ctx) SameSubterm(fnSpec, desc string) {
	f := c.Fn(fnSpec)
	if f == nil {
		return
	}
	for _, b := range f.Fn.Blocks {
		ret, ok := b.Instrs[len(b.Instrs)-1].(*ssa.Return)
		if !ok || len(ret.Results) < 2 {
			continue
		}
		t0, t1 := f.Term(ret.Results[0]), f.Term(ret.Results[1])
		// amount of result 0
		amt := ""
		t0.Walk(func(s *ir.Term) bool {
			if s.Op == "call" && s.Name == "with:Amount" && len(s.Args) == 2 && amt == "" {
				amt = s.Args[1].String()
			}
			return amt == ""
		})
		if amt == "" || !strings.Contains(t1.String(), amt) {
			c.add("A", fnSpec, "samesubterm", desc, report.Violated, "the fee term does not contain the returned after-fee amount", c.posOf(ret))
			return
		}
		c.add("A", fnSpec, "samesubterm", desc, report.OK, short(amt), c.posOf(ret))
		return
	}
	c.add("A", fnSpec, "samesubterm", desc, report.Violated, "no return with two results", c.fnPos(f))
}

// StoreFieldN: fn stores to field `field` exactly len(patterns) times and the i-th pattern matches some store, each
// store matching some pattern.
func (c *Ctx) StoreFieldN(fnSpec, field string, patterns []string, desc string) {
	f := c.Fn(fnSpec)
	if f == nil {
		return
	}
	r := "storeN/" + field
	sts := FieldStores(f, field)
	if len(sts) != len(patterns) {
		c.add("A", fnSpec, r, desc, report.Violated, fmt.Sprintf("%d stores to %s, expected %d", len(sts), field, len(patterns)), c.fnPos(f))
		return
	}
	used := map[int]bool{}
	for _, st := range sts {
		t := f.Term(st.Val)
		ok := false
		for i, p := range patterns {
			if !used[i] && ir.MatchAny(c.X(p), t) {
				used[i], ok = true, true
				break
			}
		}
		if !ok {
			c.add("A", fnSpec, r, desc, report.Violated, fmt.Sprintf("%s := %s matches none of the expected updates", field, short(t.String())), c.posOf(st))
			return
		}
	}
	c.add("A", fnSpec, r, desc, report.OK, fmt.Sprintf("%d stores", len(sts)), c.posOf(sts[0]))
}

// MapFieldFilled: the map stored to the given struct field by fn is filled by a map update whose key and value
// match the patterns, executed unconditionally on every iteration of a loop (one entry per element ranged over).
func (c *Ctx) MapFieldFilled(fnSpec, field, keyPat, valPat, desc string) {
	keyPat, valPat = c.X(keyPat), c.X(valPat)
	f := c.Fn(fnSpec)
	if f == nil {
		return
	}
	r := "mapfill/" + field
	sts := FieldStores(f, field)
	if len(sts) != 1 {
		c.add("A", fnSpec, r, desc, report.Violated, fmt.Sprintf("%d stores to field %s, want exactly one", len(sts), field), c.fnPos(f))
		return
	}
	m := sts[0].Val
	if ch, ok := m.(*ssa.ChangeType); ok {
		m = ch.X
	}
	var ups []*ssa.MapUpdate
	for _, b := range f.Fn.Blocks {
		for _, ins := range b.Instrs {
			if mu, ok := ins.(*ssa.MapUpdate); ok && mu.Map == m {
				ups = append(ups, mu)
			}
		}
	}
	if len(ups) == 0 {
		c.add("A", fnSpec, r, desc, report.Violated, "the map stored to "+field+" is never filled", c.posOf(sts[0]))
		return
	}
	okAny := false
	var seen []string
	for _, mu := range ups {
		k, v := f.Term(mu.Key), f.Term(mu.Value)
		seen = append(seen, "["+k.String()+"] = "+v.String())
		if ir.MatchAny(keyPat, k) && ir.MatchAny(valPat, v) && everyIteration(mu.Block()) {
			okAny = true
		}
	}
	if !okAny {
		c.add("A", fnSpec, r, desc, report.Violated, "no per-iteration update with key "+keyPat+" and value "+valPat+"; seen: "+short(strings.Join(seen, " ; ")), c.posOf(ups[0]))
		return
	}
	c.add("A", fnSpec, r, desc, report.OK, short(strings.Join(seen, " ; ")), c.posOf(ups[0]))
}

// ForEach: some call to callee in fn is executed once for every element of the collection matching collPat: the
// call sits in a loop whose header ranges over the collection, it dominates every back edge of that loop (no
// iteration skips it), the loop is left early only by failing, and (unless conditional) every successful run
// passes the loop header.
func (c *Ctx) ForEach(fnSpec, callee, collPat, desc string, conditional bool) {
	collPat = c.X(collPat)
	f := c.Fn(fnSpec)
	if f == nil {
		return
	}
	role := "foreach/" + callee + "/" + collPat
	calls := c.sites(f, c.X(callee))
	if len(calls) == 0 {
		c.add("O", fnSpec, role, desc, report.Violated, "no call to "+callee, c.fnPos(f))
		return
	}
	why := ""
	for _, call := range calls {
		b := call.Block()
		if b.Parent() != f.Fn {
			// a call inside a registered helper happens where the helper is called, provided the helper cannot
			// succeed without it (the loop body was extracted into the helper)
			if h := ir.HelperOf(f, b.Parent()); h != nil && h.HF.MustPassOnSuccess(b) {
				b = f.OuterBlock(b)
			}
		}
		var body map[*ssa.BasicBlock]bool
		var latch []*ssa.BasicBlock
		var head *ssa.BasicBlock
		for _, h := range b.Parent().Blocks {
			bd, l := NaturalLoop(h)
			if bd == nil || !bd[b] {
				continue
			}
			if body == nil || len(bd) < len(body) {
				body, latch, head = bd, l, h
			}
		}
		if body == nil {
			why = "the call is not inside a loop"
			continue
		}
		iff, ok := head.Instrs[len(head.Instrs)-1].(*ssa.If)
		if !ok {
			why = "loop header has no range condition"
			continue
		}
		ct := f.Term(iff.Cond)
		if !ir.MatchAny("lt(add(phi(-1,add(#self,1)),1),len("+collPat+")) | lt(phi(0,add(#self,1)),len("+collPat+")) | next(range("+collPat+"))#0", ct) {
			why = "the loop ranges over " + short(ct.String()) + ", want " + collPat
			continue
		}
		dom := true
		for _, l := range latch {
			if !b.Dominates(l) {
				dom = false
			}
		}
		if !dom {
			why = "an iteration can skip the call"
			continue
		}
		early := false
		for _, x := range head.Parent().Blocks {
			if !body[x] || x == head {
				continue
			}
			for _, s := range x.Succs {
				if !body[s] && f.CanSucceed(s) {
					early = true
				}
			}
			if len(x.Succs) == 0 && f.CanSucceed(x) {
				early = true
			}
		}
		if early {
			why = "the loop can be left early on a successful run"
			continue
		}
		if !conditional && !f.MustPassOnSuccess(head) {
			why = "a successful run can avoid the loop"
			continue
		}
		c.add("O", fnSpec, role, desc, report.OK, "loop over "+short(ct.String()), c.posOf(call))
		return
	}
	c.add("O", fnSpec, role, desc, report.Violated, why, c.posOf(calls[0]))
}

// FreshRead: the value passed as argument idx of sink in fn is derived from a call to reader, and no call to one of
// the mutators ('|'-separated) can execute between that read and the sink (the sink never sees a copy that a
// mutator has made stale).
func (c *Ctx) FreshRead(fnSpec, reader, mutators, sink string, idx int, desc string) {
	role := "fresh/" + reader + ">" + sink
	f := c.Fn(fnSpec)
	if f == nil {
		return
	}
	sinks := c.sites(f, c.X(sink))
	if len(sinks) == 0 {
		c.add("O", fnSpec, role, desc, report.Violated, "no call to "+sink, c.fnPos(f))
		return
	}
	muts := c.sites(f, c.X(mutators))
	readers := map[ssa.Value]ssa.CallInstruction{}
	for _, r := range c.sites(f, c.X(reader)) {
		if v := r.Value(); v != nil {
			readers[v] = r
		}
	}
	n := 0
	for _, s := range sinks {
		var args []ssa.Value
		if cc := s.Common(); cc.IsInvoke() {
			args = append([]ssa.Value{cc.Value}, cc.Args...)
		} else {
			args = cc.Args
		}
		if idx >= len(args) {
			c.add("O", fnSpec, role, desc, report.Violated, "sink has no such argument", c.posOf(s))
			return
		}
		// walk back from the argument to the reads it derives from
		var srcs []ssa.CallInstruction
		seen := map[ssa.Value]bool{}
		opaque := ""
		var walk func(v ssa.Value)
		walk = func(v ssa.Value) {
			if seen[v] {
				return
			}
			seen[v] = true
			if r, ok := readers[v]; ok {
				srcs = append(srcs, r)
				return
			}
			switch x := v.(type) {
			case *ssa.Extract:
				walk(x.Tuple)
			case *ssa.UnOp:
				walk(x.X)
			case *ssa.Phi:
				for _, e := range x.Edges {
					walk(e)
				}
			case *ssa.ChangeType:
				walk(x.X)
			case *ssa.MakeInterface:
				walk(x.X)
			case *ssa.Alloc:
				for _, ref := range *x.Referrers() {
					if st, ok := ref.(*ssa.Store); ok && st.Addr == x {
						walk(st.Val)
					}
				}
			default:
				opaque = f.Term(v).String()
			}
		}
		walk(args[idx])
		if len(srcs) == 0 || opaque != "" {
			c.add("O", fnSpec, role, desc, report.Violated, "argument is not (only) the result of "+reader+": "+short(f.Term(args[idx]).String()), c.posOf(s))
			return
		}
		for _, r := range srcs {
			for _, m := range muts {
				// m reachable from r and s reachable from m?
				if reachesAvoiding(r, m, nil) && reachesAvoiding(m, s, r) {
					c.add("O", fnSpec, role, desc, report.Violated, "the value read by "+f.CalleeName(r)+" can be made stale by "+f.CalleeName(m)+" before it reaches "+f.CalleeName(s), c.posOf(m))
					return
				}
			}
			n++
		}
	}
	c.add("O", fnSpec, role, desc, report.OK, fmt.Sprintf("%d read(s), %d mutator call(s), none in between", n, len(muts)), c.posOf(sinks[0]))
}

// reachesAvoiding: b can execute after a on a path that does not execute `avoid` in between (re-executing the read
// refreshes the value). avoid may be nil.
func reachesAvoiding(a, b, avoid ssa.Instruction) bool {
	// position of an instruction in its block
	idx := func(x ssa.Instruction) int {
		for i, ins := range x.Block().Instrs {
			if ins == x {
				return i
			}
		}
		return -1
	}
	if a.Block() == b.Block() && idx(a) < idx(b) {
		if avoid == nil || avoid.Block() != a.Block() || !(idx(avoid) > idx(a) && idx(avoid) < idx(b)) {
			return true
		}
	}
	// leaving a's block: blocked if avoid sits after a in the same block
	if avoid != nil && avoid.Block() == a.Block() && idx(avoid) > idx(a) {
		return false
	}
	seen := map[*ssa.BasicBlock]bool{}
	work := append([]*ssa.BasicBlock{}, a.Block().Succs...)
	for len(work) > 0 {
		x := work[len(work)-1]
		work = work[:len(work)-1]
		if seen[x] {
			continue
		}
		seen[x] = true
		if x == b.Block() {
			if avoid == nil || avoid.Block() != x || idx(avoid) > idx(b) {
				return true
			}
			continue // avoid executes before b in this block
		}
		if avoid != nil && avoid.Block() == x {
			continue
		}
		work = append(work, x.Succs...)
	}
	return false
}

// reaches: instruction b can execute after instruction a (same block later, or through the CFG).
func reaches(a, b ssa.Instruction) bool {
	if a.Block() == b.Block() {
		for _, ins := range a.Block().Instrs {
			if ins == a {
				return true && a != b
			}
			if ins == b {
				break
			}
		}
	}
	seen := map[*ssa.BasicBlock]bool{}
	work := append([]*ssa.BasicBlock{}, a.Block().Succs...)
	for len(work) > 0 {
		x := work[len(work)-1]
		work = work[:len(work)-1]
		if seen[x] {
			continue
		}
		seen[x] = true
		if x == b.Block() {
			return true
		}
		work = append(work, x.Succs...)
	}
	return false
}

// MapKeys: every map update and every map lookup in fn whose map is a local (make:map or a value looked up from
// one) or a map parameter uses a key matching one of the allowed patterns; at least min such accesses exist.
func (c *Ctx) MapKeys(fnSpec, allowed string, min int, desc string) {
	allowed = c.X(allowed)
	f := c.Fn(fnSpec)
	if f == nil {
		return
	}
	n := 0
	var seen []string
	for _, b := range subjectBlocks(f) {
		for _, ins := range b.Instrs {
			var key ssa.Value
			var m ssa.Value
			switch x := ins.(type) {
			case *ssa.MapUpdate:
				key, m = x.Key, x.Map
			case *ssa.Lookup:
				if _, ok := x.X.Type().Underlying().(*types.Map); !ok {
					continue
				}
				key, m = x.Index, x.X
			default:
				continue
			}
			mtt := f.Term(m)
			if !strings.Contains(mtt.String(), "make:map") && mtt.Op != "param" {
				continue
			}
			n++
			kt := f.Term(key)
			if !ir.MatchAny(allowed, kt) {
				c.add("A", fnSpec, "mapkeys", desc, report.Violated, "map key "+short(kt.String())+" is not one of "+allowed, c.posOf(ins))
				return
			}
			seen = append(seen, kt.String())
		}
	}
	if n < min {
		c.add("A", fnSpec, "mapkeys", desc, report.Violated, fmt.Sprintf("%d keyed accesses to local maps, expected at least %d", n, min), c.fnPos(f))
		return
	}
	c.add("A", fnSpec, "mapkeys", desc, report.OK, fmt.Sprintf("%d accesses", n), c.fnPos(f))
}

// FreshPerIteration: argument idx of every call to callee in fn, a call that sits in a loop L, does not carry a
// value over from an earlier iteration of L: walking back through joins (phi nodes and conversions, not through
// calls) never reaches a join at L's header. An accumulator consumed once per iteration is therefore re-initialised
// in each iteration.
func (c *Ctx) FreshPerIteration(fnSpec, callee string, idx int, desc string) {
	role := fmt.Sprintf("freshiter/%s/arg%d", callee, idx)
	f := c.Fn(fnSpec)
	if f == nil {
		return
	}
	calls := c.sites(f, c.X(callee))
	if len(calls) == 0 {
		c.add("O", fnSpec, role, desc, report.Violated, "no call to "+callee, c.fnPos(f))
		return
	}
	for _, call := range calls {
		var head *ssa.BasicBlock
		var body map[*ssa.BasicBlock]bool
		for _, h := range f.Fn.Blocks {
			bd, _ := NaturalLoop(h)
			if bd == nil || !bd[call.Block()] {
				continue
			}
			if body == nil || len(bd) < len(body) {
				body, head = bd, h
			}
		}
		if head == nil {
			c.add("O", fnSpec, role, desc, report.Violated, "the call is not inside a loop", c.posOf(call))
			return
		}
		var args []ssa.Value
		if cc := call.Common(); cc.IsInvoke() {
			args = append([]ssa.Value{cc.Value}, cc.Args...)
		} else {
			args = cc.Args
		}
		if idx >= len(args) {
			c.add("O", fnSpec, role, desc, report.Violated, "no such argument", c.posOf(call))
			return
		}
		seen := map[ssa.Value]bool{}
		bad := false
		var walk func(v ssa.Value)
		walk = func(v ssa.Value) {
			if seen[v] || bad {
				return
			}
			seen[v] = true
			switch x := v.(type) {
			case *ssa.Phi:
				if x.Block() == head {
					bad = true
					return
				}
				for _, e := range x.Edges {
					walk(e)
				}
			case *ssa.ChangeType:
				walk(x.X)
			case *ssa.Convert:
				walk(x.X)
			case *ssa.MakeInterface:
				walk(x.X)
			}
		}
		walk(args[idx])
		if bad {
			c.add("O", fnSpec, role, desc, report.Violated, "the value is carried over from the previous iteration of the enclosing loop (not re-initialised per iteration)", c.posOf(call))
			return
		}
	}
	c.add("O", fnSpec, role, desc, report.OK, fmt.Sprintf("%d site(s)", len(calls)), c.posOf(calls[0]))
}

// ExactlyOnce: on every successful run of fn exactly one call out of the callee set ('|'-separated) executes: every
// success path passes one of the sites, and no site can execute after another (or after itself, in a loop).
func (c *Ctx) ExactlyOnce(fnSpec, calleeSet, desc string) {
	role := "exactlyonce/" + calleeSet
	f := c.Fn(fnSpec)
	if f == nil {
		return
	}
	sites := c.sites(f, c.X(calleeSet))
	if len(sites) == 0 {
		c.add("O", fnSpec, role, desc, report.Violated, "no call to any of "+calleeSet, c.fnPos(f))
		return
	}
	for _, a := range sites {
		for _, b := range sites {
			if a == b {
				// a site inside a loop can repeat
				for _, h := range f.Fn.Blocks {
					if body, _ := NaturalLoop(h); body != nil && body[a.Block()] {
						c.add("O", fnSpec, role, desc, report.Violated, f.CalleeName(a)+" sits in a loop and can execute more than once", c.posOf(a))
						return
					}
				}
				continue
			}
			if instrReaches(a, b) {
				c.add("O", fnSpec, role, desc, report.Violated, f.CalleeName(b)+" can execute after "+f.CalleeName(a)+": the state would be changed twice", c.posOf(b))
				return
			}
		}
	}
	if !c.MustPassAny(f, sites) {
		c.add("O", fnSpec, role, desc, report.Violated, "a successful run can avoid every call of the set", c.posOf(sites[0]))
		return
	}
	var names []string
	for _, s := range sites {
		names = append(names, f.CalleeName(s))
	}
	c.add("O", fnSpec, role, desc, report.OK, strings.Join(names, ", "), c.posOf(sites[0]))
}

// NoWrap: the fixed-width unsigned integer expression passed (possibly through a widening conversion) as argument
// idx of callee in fn cannot wrap around for any value of the fields/parameters it is computed from: interval
// evaluation over [0, 2^w-1] leaves of +, -, *, /, <<, >> with w-bit results; a result interval leaving the type's
// range is reported.
func (c *Ctx) NoWrap(fnSpec, callee string, idx int, desc string) {
	role := fmt.Sprintf("nowrap/%s/arg%d", callee, idx)
	f := c.Fn(fnSpec)
	if f == nil {
		return
	}
	calls := c.sites(f, c.X(callee))
	if len(calls) == 0 {
		c.add("A", fnSpec, role, desc, report.Violated, "no call to "+callee, c.fnPos(f))
		return
	}
	type iv struct{ lo, hi *big.Int }
	width := func(t types.Type) (int, bool) {
		b, ok := t.Underlying().(*types.Basic)
		if !ok {
			return 0, false
		}
		switch b.Kind() {
		case types.Uint8:
			return 8, true
		case types.Uint16:
			return 16, true
		case types.Uint32:
			return 32, true
		case types.Uint64, types.Uint, types.Uintptr:
			return 64, true
		}
		return 0, false
	}
	var bad string
	var eval func(v ssa.Value, depth int) *iv
	eval = func(v ssa.Value, depth int) *iv {
		w, unsigned := width(v.Type())
		full := func() *iv {
			if !unsigned {
				return nil
			}
			return &iv{big.NewInt(0), new(big.Int).Sub(new(big.Int).Lsh(big.NewInt(1), uint(w)), big.NewInt(1))}
		}
		if depth > 12 {
			return full()
		}
		switch x := v.(type) {
		case *ssa.Const:
			if x.Value != nil {
				if n, ok := new(big.Int).SetString(x.Value.ExactString(), 10); ok {
					return &iv{n, n}
				}
			}
			return full()
		case *ssa.Convert:
			return eval(x.X, depth+1)
		case *ssa.ChangeType:
			return eval(x.X, depth+1)
		case *ssa.BinOp:
			a, b := eval(x.X, depth+1), eval(x.Y, depth+1)
			if a == nil || b == nil || !unsigned {
				return full()
			}
			var lo, hi *big.Int
			switch x.Op {
			case token.ADD:
				lo, hi = new(big.Int).Add(a.lo, b.lo), new(big.Int).Add(a.hi, b.hi)
			case token.SUB:
				lo, hi = new(big.Int).Sub(a.lo, b.hi), new(big.Int).Sub(a.hi, b.lo)
			case token.MUL:
				lo, hi = new(big.Int).Mul(a.lo, b.lo), new(big.Int).Mul(a.hi, b.hi)
			case token.QUO:
				if b.lo.Sign() == 0 {
					lo, hi = big.NewInt(0), a.hi
				} else {
					lo, hi = new(big.Int).Quo(a.lo, b.hi), new(big.Int).Quo(a.hi, b.lo)
				}
			case token.SHR:
				lo, hi = big.NewInt(0), a.hi
			default:
				return full()
			}
			max := new(big.Int).Sub(new(big.Int).Lsh(big.NewInt(1), uint(w)), big.NewInt(1))
			if lo.Sign() < 0 || hi.Cmp(max) > 0 {
				if bad == "" {
					bad = fmt.Sprintf("%s of %d-bit operands ranges over [%s, %s] and can wrap", x.Op, w, lo, hi)
				}
				return full()
			}
			return &iv{lo, hi}
		}
		return full()
	}
	for _, call := range calls {
		var args []ssa.Value
		if cc := call.Common(); cc.IsInvoke() {
			args = append([]ssa.Value{cc.Value}, cc.Args...)
		} else {
			args = cc.Args
		}
		if idx >= len(args) {
			c.add("A", fnSpec, role, desc, report.Violated, "no such argument", c.posOf(call))
			return
		}
		eval(args[idx], 0)
		if bad != "" {
			c.add("A", fnSpec, role, desc, report.Violated, bad+": "+short(f.Term(args[idx]).String()), c.posOf(call))
			return
		}
	}
	c.add("A", fnSpec, role, desc, report.OK, short(f.Term(calls[0].Common().Args[0]).String()), c.posOf(calls[0]))
}

// StoresOnlyFields: every store in fn into a value of the named struct type that is not a fresh local (a stored or
// shared object: reached through a pointer, slice element or field) writes one of the allowed fields; whole-struct
// overwrites and writes to other fields are reported. At least one allowed store exists.
func (c *Ctx) StoresOnlyFields(fnSpec, typeName string, allowed []string, desc string) {
	f := c.Fn(fnSpec)
	if f == nil {
		return
	}
	role := "storesonly/" + typeName
	ok := map[string]bool{}
	for _, a := range allowed {
		ok[a] = true
	}
	isT := func(t types.Type) bool {
		if p, isP := t.Underlying().(*types.Pointer); isP {
			t = p.Elem()
		}
		n, isN := t.(*types.Named)
		return isN && n.Obj().Name() == typeName
	}
	localRoot := func(v ssa.Value) bool {
		for {
			switch x := v.(type) {
			case *ssa.Alloc:
				return !x.Heap || true && strings.HasPrefix(x.Comment, "complit") || x.Comment != "" && !x.Heap
			case *ssa.FieldAddr:
				v = x.X
			case *ssa.IndexAddr:
				return false
			default:
				return false
			}
		}
	}
	n := 0
	for _, b := range f.Fn.Blocks {
		for _, ins := range b.Instrs {
			st, isSt := ins.(*ssa.Store)
			if !isSt {
				continue
			}
			switch a := st.Addr.(type) {
			case *ssa.FieldAddr:
				if !isT(a.X.Type()) || localRoot(a.X) {
					continue
				}
				fld := fieldNameOf(a.X.Type(), a.Field)
				if !ok[fld] {
					c.add("A", fnSpec, role, desc, report.Violated, "field "+fld+" of a shared "+typeName+" is written", c.posOf(st))
					return
				}
				n++
			case *ssa.IndexAddr:
				if isT(st.Val.Type()) {
					c.add("A", fnSpec, role, desc, report.Violated, "a whole "+typeName+" element is overwritten with "+short(f.Term(st.Val).String()), c.posOf(st))
					return
				}
			default:
				if isT(st.Val.Type()) && !localRoot(st.Addr) {
					if _, isAlloc := st.Addr.(*ssa.Alloc); !isAlloc {
						c.add("A", fnSpec, role, desc, report.Violated, "a whole "+typeName+" is overwritten through a pointer", c.posOf(st))
						return
					}
				}
			}
		}
	}
	if n == 0 {
		c.add("A", fnSpec, role, desc, report.Violated, "no store to an allowed field found", c.fnPos(f))
		return
	}
	c.add("A", fnSpec, role, desc, report.OK, fmt.Sprintf("%d store(s), all to %s", n, strings.Join(allowed, ",")), c.fnPos(f))
}

func fieldNameOf(t types.Type, i int) string {
	if p, ok := t.Underlying().(*types.Pointer); ok {
		t = p.Elem()
	}
	if st, ok := t.Underlying().(*types.Struct); ok && i < st.NumFields() {
		return st.Field(i).Name()
	}
	return fmt.Sprint(i)
}

// crossReaches: reachability between instructions of a subject function and of helpers it calls: the helper's
// instruction is placed at the call that reaches it.
func crossReaches(a, b ssa.Instruction) bool {
	for i := 0; i < 3 && a.Parent() != b.Parent(); i++ {
		if ha := ir.HelperByFn(a.Parent()); ha != nil && encloses(ha.Outer.Parent(), b.Parent()) {
			a = ha.Outer
			continue
		}
		if hb := ir.HelperByFn(b.Parent()); hb != nil {
			if hb.Outer == a {
				return true
			}
			b = hb.Outer
			continue
		}
		return false
	}
	if a.Parent() != b.Parent() {
		return false
	}
	if a == b {
		return false
	}
	return instrReaches(a, b)
}

func encloses(outer, fn *ssa.Function) bool {
	for i := 0; i < 4 && fn != nil; i++ {
		if fn == outer {
			return true
		}
		h := ir.HelperByFn(fn)
		if h == nil {
			return false
		}
		fn = h.Outer.Parent()
	}
	return false
}

// retBlocks lists the blocks ending in a return statement of f, where a `return H(...)` that forwards all results of a
// registered helper H is replaced by H's own return blocks (facts about them combine H's facts with those at the call).
func retBlocks(f *ir.Func) []*ssa.BasicBlock {
	var out []*ssa.BasicBlock
	var visit func(fn *ssa.Function, depth int)
	visit = func(fn *ssa.Function, depth int) {
		for _, b := range fn.Blocks {
			ret, ok := b.Instrs[len(b.Instrs)-1].(*ssa.Return)
			if !ok {
				continue
			}
			if h := forwardedHelper(f, ret); h != nil && depth < 3 {
				visit(h.HF.Fn, depth+1)
				continue
			}
			out = append(out, b)
		}
	}
	visit(f.Fn, 0)
	return out
}

func forwardedHelper(f *ir.Func, ret *ssa.Return) *ir.HelperCtx {
	if len(ret.Results) == 0 {
		return nil
	}
	var call *ssa.Call
	for i, r := range ret.Results {
		var c *ssa.Call
		switch x := r.(type) {
		case *ssa.Call:
			if len(ret.Results) != 1 {
				return nil
			}
			c = x
		case *ssa.Extract:
			cc, ok := x.Tuple.(*ssa.Call)
			if !ok || x.Index != i {
				return nil
			}
			c = cc
		default:
			return nil
		}
		if call != nil && c != call {
			return nil
		}
		call = c
	}
	if call == nil || call.Block() != ret.Block() {
		return nil
	}
	g := call.Common().StaticCallee()
	if g == nil {
		return nil
	}
	h := ir.HelperOf(f, g)
	if h == nil || h.Outer != ssa.CallInstruction(call) {
		return nil
	}
	if g.Signature.Results().Len() != len(ret.Results) {
		return nil
	}
	return h
}

// MapAccumulate (rule A): for every comma-ok lookup `cur, ok := m[k]` in fn on a map with scalar values whose
// presence flag is branched on, every path from the "present" edge to the end of the iteration (or a successful
// return) writes m[k] again, and the value written on that path — control-flow joins resolved along the path — is
// cur + inc (either operand order) with inc matching incPat: a second contribution for the same key is added to the
// first, never dropped and never overwriting it.
func (c *Ctx) MapAccumulate(fnSpec, incPat string, min int, desc string) {
	role := "mapaccumulate"
	incPat = c.X(incPat)
	f := c.Fn(fnSpec)
	if f == nil {
		return
	}
	n := 0
	for _, b := range subjectBlocks(f) {
		for _, ins := range b.Instrs {
			lk, ok := ins.(*ssa.Lookup)
			if !ok || !lk.CommaOk {
				continue
			}
			mt, ok := lk.X.Type().Underlying().(*types.Map)
			if !ok {
				continue
			}
			if _, isMap := mt.Elem().Underlying().(*types.Map); isMap {
				continue
			}
			var cur, present ssa.Value
			for _, r := range *lk.Referrers() {
				if ex, ok := r.(*ssa.Extract); ok {
					if ex.Index == 0 {
						cur = ex
					} else {
						present = ex
					}
				}
			}
			if present == nil {
				continue
			}
			var iff *ssa.If
			for _, r := range *present.Referrers() {
				if x, ok := r.(*ssa.If); ok {
					iff = x
				}
			}
			if iff == nil {
				c.add("A", fnSpec, role, desc, report.Undecided, "presence flag of a map lookup is not branched on directly", c.posOf(lk))
				return
			}
			n++
			M, K := f.Term(lk.X).String(), f.Term(lk.Index).String()
			if cur == nil {
				c.add("A", fnSpec, role, desc, report.Violated, "the value already stored under the key is never read", c.posOf(lk))
				return
			}
			var path []*ssa.BasicBlock
			org := pathOrigins(f, b.Parent())
			org.PhiChoice = func(phi *ssa.Phi) ssa.Value {
				at := -1
				for i, pb := range path {
					if pb == phi.Block() {
						at = i
					}
				}
				if at <= 0 {
					return nil
				}
				for i, p := range phi.Block().Preds {
					if p == path[at-1] {
						return phi.Edges[i]
					}
				}
				return nil
			}
			head := iff.Block()
			steps := 0
			bad, badPos := "", ""
			var dfs func(b *ssa.BasicBlock)
			dfs = func(b *ssa.BasicBlock) {
				steps++
				if bad != "" || steps > 5000 {
					return
				}
				path = append(path, b)
				defer func() { path = path[:len(path)-1] }()
				for _, in := range b.Instrs {
					u, ok := in.(*ssa.MapUpdate)
					if !ok || f.Term(u.Map).String() != M || f.Term(u.Key).String() != K {
						continue
					}
					org.ResetMemo()
					vt, ct := org.Of(u.Value), org.Of(cur).String()
					okv := false
					if ((vt.Op == "call" && strings.HasSuffix(vt.Name, ".Add")) || (vt.Op == "op" && vt.Name == "add")) && len(vt.Args) == 2 {
						for i := 0; i < 2; i++ {
							if vt.Args[i].String() == ct && ir.MatchAny(incPat, vt.Args[1-i]) {
								okv = true
							}
						}
					}
					if !okv {
						bad, badPos = "with the key present, the entry is overwritten with "+short(vt.String())+" (want the stored value plus "+incPat+")", c.posOf(u)
					}
					return
				}
				if k := f.ExitKindOf(b); k == ir.SuccessExit || k == ir.MaybeExit {
					bad, badPos = "with the key present, a path returns without updating the entry", c.posOf(lk)
					return
				}
				for _, s := range ir.FeasibleSuccs(b) {
					if s == head || s.Dominates(head) {
						bad, badPos = "with the key present, a path ends the iteration without updating the entry", c.posOf(lk)
						return
					}
					dfs(s)
				}
			}
			path = append(path, head)
			dfs(head.Succs[0])
			path = path[:0]
			if steps > 5000 {
				c.add("A", fnSpec, role, desc, report.Undecided, "too many paths", c.posOf(lk))
				return
			}
			if bad != "" {
				c.add("A", fnSpec, role, desc, report.Violated, bad, badPos)
				return
			}
		}
	}
	// converse: an entry of a map that may already hold the key is written only after the presence of that very key
	// in that very map was tested (a map created in the same block is empty: its first entry needs no test)
	for _, b := range subjectBlocks(f) {
		for _, ins := range b.Instrs {
			u, ok := ins.(*ssa.MapUpdate)
			if !ok {
				continue
			}
			mt, ok := u.Map.Type().Underlying().(*types.Map)
			if !ok {
				continue
			}
			if _, isMap := mt.Elem().Underlying().(*types.Map); isMap {
				continue
			}
			if mk, ok := u.Map.(*ssa.MakeMap); ok && mk.Block() == b {
				continue
			}
			M, K := f.Term(u.Map).String(), f.Term(u.Key).String()
			tested := false
			for _, lb := range b.Parent().Blocks {
				for _, li := range lb.Instrs {
					lk, ok := li.(*ssa.Lookup)
					if !ok || !lk.CommaOk || !(lb == b || lb.Dominates(b)) {
						continue
					}
					if f.Term(lk.X).String() == M && f.Term(lk.Index).String() == K {
						tested = true
					}
				}
			}
			if !tested {
				c.add("A", fnSpec, role, desc, report.Violated, "entry "+short(K)+" is written without a preceding presence test of the same key in the same map", c.posOf(u))
				return
			}
		}
	}
	if n < min {
		c.add("A", fnSpec, role, desc, report.Violated, fmt.Sprintf("%d presence-tested lookups on scalar-valued maps, expected at least %d", n, min), c.fnPos(f))
		return
	}
	c.add("A", fnSpec, role, desc, report.OK, fmt.Sprintf("%d lookup(s): present ⇒ stored value + increment is written back", n), c.fnPos(f))
}

// KeyLayout (rule Y): the byte string fn returns, rendered symbolically — constant text verbatim, every other
// component as <origin term>, formatting calls (fmt.Sprintf / fmt.Fprintf into a local buffer / string
// concatenation) expanded verb by verb — equals want. The layout (which separators follow which variable-length
// component) is what makes a prefix scan select exactly one pool's or pair's records.
func (c *Ctx) KeyLayout(fnSpec, want, desc string) {
	role := "keylayout"
	f := c.Fn(fnSpec)
	if f == nil {
		return
	}
	var render func(t *ir.Term, depth int) (string, bool)
	expand := func(format *ir.Term, args []*ir.Term, depth int) (string, bool) {
		if format.Op != "const" || !strings.HasPrefix(format.Name, "\"") {
			return "", false
		}
		fs, err := strconv.Unquote(format.Name)
		if err != nil {
			return "", false
		}
		var sb strings.Builder
		ai := 0
		for i := 0; i < len(fs); i++ {
			if fs[i] != '%' {
				sb.WriteByte(fs[i])
				continue
			}
			i++
			if i >= len(fs) {
				return "", false
			}
			if fs[i] == '%' {
				sb.WriteByte('%')
				continue
			}
			if !strings.ContainsRune("sdvq", rune(fs[i])) || ai >= len(args) {
				return "", false // width/flags or missing operand: not modelled
			}
			s, ok := render(args[ai], depth+1)
			if !ok {
				return "", false
			}
			sb.WriteString(s)
			ai++
		}
		if ai != len(args) {
			return "", false
		}
		return sb.String(), true
	}
	render = func(t *ir.Term, depth int) (string, bool) {
		if depth > 6 {
			return "", false
		}
		switch {
		case t.Op == "const" && strings.HasPrefix(t.Name, "\""):
			s, err := strconv.Unquote(t.Name)
			return s, err == nil
		case t.Op == "call" && t.Name == "fmt.Sprintf" && len(t.Args) >= 1:
			return expand(t.Args[0], t.Args[1:], depth)
		case t.Op == "op" && t.Name == "add" && len(t.Args) == 2:
			a, ok1 := render(t.Args[0], depth+1)
			b, ok2 := render(t.Args[1], depth+1)
			return a + b, ok1 && ok2
		case t.Op == "call" && t.Name == "bytes.Buffer.Bytes" && len(t.Args) == 1:
			if len(f.Fn.Blocks) != 1 {
				return "", false
			}
			var sb strings.Builder
			// the calls of the subject in order, a call to a registered (new, single-block) helper replaced by the
			// helper's own calls — their argument terms carry the call site's substitution
			var seq []ssa.CallInstruction
			for _, call := range f.Calls() {
				var hc *ir.HelperCtx
				for _, h := range ir.HelpersOf(f) {
					if h.Outer == call {
						hc = h
					}
				}
				if hc != nil && len(hc.HF.Fn.Blocks) == 1 {
					seq = append(seq, hc.HF.Calls()...)
					continue
				}
				seq = append(seq, call)
			}
			for _, call := range seq {
				args := f.CallArgs(call)
				if len(args) == 0 || args[0].String() != t.Args[0].String() {
					continue
				}
				switch f.CalleeName(call) {
				case "fmt.Fprintf":
					if len(args) < 2 {
						return "", false
					}
					s, ok := expand(args[1], args[2:], depth)
					if !ok {
						return "", false
					}
					sb.WriteString(s)
				case "bytes.Buffer.WriteString", "bytes.Buffer.Write":
					s, ok := render(args[1], depth+1)
					if !ok {
						return "", false
					}
					sb.WriteString(s)
				case "bytes.Buffer.Bytes":
				default:
					return "", false
				}
			}
			return sb.String(), true
		}
		return "<" + t.String() + ">", true
	}
	n := 0
	for _, b := range f.Fn.Blocks {
		ret, ok := b.Instrs[len(b.Instrs)-1].(*ssa.Return)
		if !ok || len(ret.Results) == 0 {
			continue
		}
		n++
		t := f.Term(ret.Results[0])
		got, ok := render(t, 0)
		if !ok {
			c.add("Y", fnSpec, role, desc, report.Undecided, "key construction not modelled: "+short(t.String()), c.posOf(ret))
			return
		}
		if got != want {
			c.add("Y", fnSpec, role, desc, report.Violated, fmt.Sprintf("key layout is %q, want %q", got, want), c.posOf(ret))
			return
		}
	}
	if n == 0 {
		c.add("Y", fnSpec, role, desc, report.Undecided, "no return", c.fnPos(f))
		return
	}
	c.add("Y", fnSpec, role, desc, report.OK, want, c.fnPos(f))
}

// subjectBlocks: the blocks of f followed by the blocks of its registered (virtually inlined) helpers.
func subjectBlocks(f *ir.Func) []*ssa.BasicBlock {
	blocks := append([]*ssa.BasicBlock{}, f.Fn.Blocks...)
	for _, h := range ir.HelpersOf(f) {
		blocks = append(blocks, h.HF.Fn.Blocks...)
	}
	return blocks
}

// pathOrigins: a private Origins for the function that contains b (the subject or one of its helpers, keeping the
// helper's parameter substitution), for path-resolved terms.
func pathOrigins(f *ir.Func, fn *ssa.Function) *ir.Origins {
	org := ir.NewOrigins(fn)
	if fn != f.Fn {
		if h := ir.HelperOf(f, fn); h != nil && h.HF.Org != nil {
			org.ParamSubst = h.HF.Org.ParamSubst
		}
	}
	return org
}

// StoredObjectIsPassed (rule M): every store to field `field` in fn writes into a local object (the root of the
// address chain: an Alloc, or the slice/pointer a loaded element belongs to) that is afterwards handed — itself or a
// part of it, by address — as argument idx to a call of callee which the store dominates: the modified object, not an
// unmodified original next to a modified copy, is what gets persisted.
func (c *Ctx) StoredObjectIsPassed(fnSpec, field, callee string, idx int, desc string) {
	role := "storedpassed/" + field + "/" + callee
	f := c.Fn(fnSpec)
	if f == nil {
		return
	}
	sts := FieldStores(f, field)
	if len(sts) == 0 {
		c.add("M", fnSpec, role, desc, report.Violated, "no store to field "+field, c.fnPos(f))
		return
	}
	root := func(v ssa.Value) ssa.Value {
		for i := 0; i < 8; i++ {
			switch x := v.(type) {
			case *ssa.FieldAddr:
				v = x.X
			case *ssa.IndexAddr:
				v = x.X
			case *ssa.UnOp:
				if x.Op.String() == "*" {
					v = x.X
				} else {
					return v
				}
			case *ssa.ChangeType:
				v = x.X
			default:
				return v
			}
		}
		return v
	}
	calls := c.sites(f, c.X(callee))
	for _, st := range sts {
		r := root(st.Addr)
		ok := false
		for _, call := range calls {
			args := call.Common().Args
			if call.Common().IsInvoke() {
				args = append([]ssa.Value{call.Common().Value}, args...)
			}
			if idx >= len(args) || call.Parent() != f.Fn {
				continue
			}
			if root(args[idx]) == r && ir.InstrDominates(st, call) {
				ok = true
			}
		}
		if !ok {
			c.add("M", fnSpec, role, desc, report.Violated, "the object whose "+field+" is written is not the one passed to "+callee+" afterwards", c.posOf(st))
			return
		}
	}
	c.add("M", fnSpec, role, desc, report.OK, fmt.Sprintf("%d store(s)", len(sts)), c.posOf(sts[0]))
}

// MustStore (rule M): every successful run of fn stores to field `field` a value matching pattern (the store sits on
// every entry→success path): the bookkeeping update cannot be skipped by an early "nothing to do" return.
func (c *Ctx) MustStore(fnSpec, field, pattern, desc string) {
	role := "muststore/" + field
	pattern = c.X(pattern)
	f := c.Fn(fnSpec)
	if f == nil {
		return
	}
	blocks := map[*ssa.BasicBlock]bool{}
	var seen []string
	for _, st := range FieldStores(f, field) {
		t := f.Term(st.Val)
		seen = append(seen, t.String())
		if ir.MatchAny(pattern, t) {
			blocks[st.Block()] = true
		}
	}
	if len(blocks) == 0 {
		c.add("M", fnSpec, role, desc, report.Violated, "no store of "+pattern+" to "+field+"; stores: "+short(strings.Join(seen, " ; ")), c.fnPos(f))
		return
	}
	if !mustPassWithin(f, blocks) {
		c.add("M", fnSpec, role, desc, report.Violated, "a successful path avoids the store to "+field, c.fnPos(f))
		return
	}
	c.add("M", fnSpec, role, desc, report.OK, fmt.Sprintf("%d store block(s) on every success path", len(blocks)), c.fnPos(f))
}

// LoopBodyStraight (rule O): in every loop of fn each block of the body either lies on every path to the loop's back
// edge (it dominates all latches) or cannot reach a successful exit: no iteration skips part of the body (a
// `continue` that drops an element) and none leaves the loop early on a successful run.
func (c *Ctx) LoopBodyStraight(fnSpec, desc string) {
	f := c.Fn(fnSpec)
	if f == nil {
		return
	}
	n := 0
	for _, h := range f.Fn.Blocks {
		body, latch := NaturalLoop(h)
		if body == nil {
			continue
		}
		n++
		for _, b := range f.Fn.Blocks {
			if !body[b] || b == h {
				continue
			}
			dom := true
			for _, l := range latch {
				if !(b == l || b.Dominates(l)) {
					dom = false
				}
			}
			if !dom && f.CanSucceed(b) {
				c.add("O", fnSpec, "loopstraight", desc, report.Violated, "part of the loop body is skipped on some iterations", c.blockPos(b, f))
				return
			}
		}
	}
	if n == 0 {
		c.add("O", fnSpec, "loopstraight", desc, report.Violated, "no loop found", c.fnPos(f))
		return
	}
	c.add("O", fnSpec, "loopstraight", desc, report.OK, fmt.Sprintf("%d loop(s)", n), c.fnPos(f))
}

