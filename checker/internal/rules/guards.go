package rules

import (
	"fmt"
	"go/types"
	"os"
	"sort"
	"strings"

	"golang.org/x/tools/go/ssa"

	"osmolint/internal/ir"
	"osmolint/internal/load"
	"osmolint/internal/report"
)

// Cond is a branch condition in canonical form: Op ∈ {eq, lt, le, bool}; for lt/le the
// polarity is always true (negations are rewritten), eq and bool carry a polarity.
type Cond struct {
	Op   string
	A, B *ir.Term
	Pol  bool
}

func (c Cond) String() string {
	s := ""
	if !c.Pol {
		s = "!"
	}
	if c.Op == "bool" {
		return s + c.A.String()
	}
	return fmt.Sprintf("%s%s(%s,%s)", s, c.Op, c.A, c.B)
}

var cmpMethods = map[string]string{
	"LT": "lt", "GT": "gt", "LTE": "le", "GTE": "ge", "Equal": "eq", "Equals": "eq", "Before": "lt", "After": "gt",
	"IsEqual": "eq",
}
var unaryMethods = map[string]string{"IsZero": "eq0", "IsNegative": "lt0", "IsPositive": "gt0"}

var cmpRecv = map[string]bool{"sdkmath.Int": true, "sdkmath.LegacyDec": true, "osmomath.BigDec": true, "osmomath.BigInt": true,
	"time.Time": true, "sdk.AccAddress": true, "sdkmath.Uint": true, "sdk.Coin": true, "sdk.DecCoin": true}

func zero() *ir.Term { return &ir.Term{Op: "const", Name: "0"} }

// Normalize rewrites a boolean term (holding with polarity pol) into canonical form.
func Normalize(t *ir.Term, pol bool) Cond {
	switch t.Op {
	case "op":
		switch t.Name {
		case "not":
			return Normalize(t.Args[0], !pol)
		case "eq", "ne", "lt", "le", "gt", "ge":
			a, b := t.Args[0], t.Args[1]
			// comparison with boolean constants
			if t.Name == "eq" || t.Name == "ne" {
				for _, pr := range [][2]*ir.Term{{a, b}, {b, a}} {
					if pr[1].Op == "const" && (pr[1].Name == "true" || pr[1].Name == "false") {
						p := pol
						if (pr[1].Name == "false") != (t.Name == "ne") {
							p = !p
						}
						return Normalize(pr[0], p)
					}
				}
			}
			return canonCmp(t.Name, a, b, pol)
		}
	case "call":
		i := strings.LastIndex(t.Name, ".")
		if i > 0 {
			recv, m := t.Name[:i], t.Name[i+1:]
			if cmpRecv[recv] {
				if op, ok := cmpMethods[m]; ok && len(t.Args) == 2 {
					return canonCmp(op, t.Args[0], t.Args[1], pol)
				}
				if op, ok := unaryMethods[m]; ok && len(t.Args) == 1 {
					switch op {
					case "eq0":
						return canonCmp("eq", t.Args[0], zero(), pol)
					case "lt0":
						return canonCmp("lt", t.Args[0], zero(), pol)
					case "gt0":
						return canonCmp("gt", t.Args[0], zero(), pol)
					}
				}
			}
		}
		if t.Name == "bytes.Equal" && len(t.Args) == 2 {
			return canonCmp("eq", t.Args[0], t.Args[1], pol)
		}
	}
	return Cond{Op: "bool", A: t, Pol: pol}
}

func canonCmp(op string, a, b *ir.Term, pol bool) Cond {
	switch op {
	case "ne":
		op, pol = "eq", !pol
	case "gt":
		op, a, b = "lt", b, a
	case "ge":
		op, a, b = "le", b, a
	}
	if op == "eq" {
		if a.String() > b.String() {
			a, b = b, a
		}
		return Cond{Op: "eq", A: a, B: b, Pol: pol}
	}
	if !pol { // !(a<b) == b<=a ; !(a<=b) == b<a
		if op == "lt" {
			return Cond{Op: "le", A: b, B: a, Pol: true}
		}
		return Cond{Op: "lt", A: b, B: a, Pol: true}
	}
	return Cond{Op: op, A: a, B: b, Pol: true}
}

// MatchCond: does actual condition c match pattern p (p's terms are patterns)?
func MatchCond(p, c Cond) bool {
	if p.Op != c.Op || p.Pol != c.Pol {
		return false
	}
	if p.Op == "bool" {
		return ir.Match(p.A, c.A, map[string]*ir.Term{})
	}
	env := map[string]*ir.Term{}
	if ir.Match(p.A, c.A, env) && ir.Match(p.B, c.B, env) {
		return true
	}
	if p.Op == "eq" {
		env = map[string]*ir.Term{}
		return ir.Match(p.A, c.B, env) && ir.Match(p.B, c.A, env)
	}
	return false
}

// ParseCond parses a condition pattern such as "lt(a,b)", "not(eq(x,y))", "sdkmath.Int.IsZero(x)".
func ParseCond(s string) Cond {
	return Normalize(ir.MustPattern(s), true)
}

func matchCondAny(pats string, c Cond) bool {
	for _, alt := range strings.Split(pats, " | ") {
		if MatchCond(ParseCond(strings.TrimSpace(alt)), c) {
			return true
		}
	}
	return false
}

// failConds lists, for every If of f with exactly one failing successor, the condition under
// which the function fails at that branch.
type failBranch struct {
	If   *ssa.If
	Cond Cond // holds on the failing edge
	Pol  bool // polarity of the If's condition on the failing edge
}

func failBranches(f *ir.Func) []failBranch {
	out := failBranchesOf(f)
	for _, h := range ir.HelpersOf(f) {
		// the helper's failures are the subject's failures when its error result is checked at the call
		caller := f
		if h.Outer.Parent() != f.Fn {
			if hh := ir.HelperOf(f, h.Outer.Parent()); hh != nil {
				caller = hh.HF
			}
		}
		if !ErrChecked(caller, h.Outer) {
			continue
		}
		out = append(out, failBranchesOf(h.HF)...)
	}
	return out
}

func failBranchesOf(f *ir.Func) []failBranch {
	var out []failBranch
	for _, b := range f.Fn.Blocks {
		iff, ok := b.Instrs[len(b.Instrs)-1].(*ssa.If)
		if !ok {
			continue
		}
		t, e := b.Succs[0], b.Succs[1]
		ft, fe := !f.CanSucceed(t), !f.CanSucceed(e)
		if ft == fe {
			continue
		}
		out = append(out, failBranch{iff, Normalize(f.Term(iff.Cond), ft), ft})
	}
	return out
}

// joinImpliesFail: the failing branch tests a join of boolean alternatives (`ok := a && b; if !ok { fail }`, the De
// Morgan form of `if !a || !b`). Its failing-edge condition is expanded into a disjunction over the join's edges; the
// branch fails whenever cond holds iff that disjunction, restricted to cond (disjuncts contradicting cond dropped,
// cond and the facts common to all disjuncts removed), is valid.
func joinImpliesFail(f *ir.Func, fb failBranch, cond string) bool {
	if strings.Contains(cond, " | ") || strings.Contains(cond, " & ") || fb.If.Block().Parent() != f.Fn {
		return false
	}
	dnf := expandCond(f, fb.If.Cond, fb.Pol, 0)
	if len(dnf) < 2 {
		return false
	}
	pc, npc := ParseCond(cond), ParseCond("not("+cond+")")
	common := map[string]bool{}
	for i, d := range dnf {
		have := map[string]bool{}
		for _, l := range d {
			have[l.String()] = true
		}
		if i == 0 {
			common = have
			continue
		}
		for k := range common {
			if !have[k] {
				delete(common, k)
			}
		}
	}
	var resid [][]Cond
	for _, d := range dnf {
		if contradictory(d) {
			continue
		}
		var r []Cond
		contra := false
		for _, l := range d {
			if MatchCond(npc, l) {
				contra = true
			}
			if MatchCond(pc, l) || common[l.String()] {
				continue
			}
			r = append(r, l)
		}
		if !contra {
			resid = append(resid, r)
		}
	}
	if len(resid) == 0 {
		return false
	}
	for _, d := range mergeDisjuncts(resid) {
		if len(d) == 0 {
			return true
		}
	}
	return false
}

// GuardOpt tunes FailsWhen.
type GuardOpt struct {
	Context     []string // conditions that may (must) additionally hold at the branch: "fails when ctx ∧ cond"
	Before      string   // callee name(s) ('|'-separated) every call of which must be dominated by the guard
	Conditional bool     // the guard need not lie on every success path (it sits inside a conditional region)
	EveryIter   bool     // the guard sits in a loop and is evaluated on every iteration (dominates every back edge of its loop); implies Conditional
	Role        string
}

// FailsWhen: fn has a branch that leads only to error/panic exits when cond holds; the branch lies on
// every success path (unless Conditional) and dominates every call to opt.Before.
func (c *Ctx) FailsWhen(fnSpec, cond, desc string, opt GuardOpt) {
	role := "failswhen/" + cond + opt.Role
	cond, opt.Before = c.X(cond), c.X(opt.Before)
	opt.Context = c.xs(opt.Context)
	f := c.Fn(fnSpec)
	if f == nil {
		return
	}
	fbs := failBranches(f)
	var hits []failBranch
	var seen []string
	for _, fb := range fbs {
		seen = append(seen, fb.Cond.String())
		if !matchCondAny(cond, fb.Cond) && !joinImpliesFail(f, fb, cond) {
			continue
		}
		ok := true
		for _, cx := range opt.Context {
			found := false
			for _, g := range f.GuardsAt(fb.If.Block()) {
				if matchCondAny(cx, Normalize(f.Term(g.Cond), g.Polarity)) {
					found = true
					break
				}
			}
			if !found {
				ok = false
			}
		}
		if ok {
			hits = append(hits, fb)
		}
	}
	if len(hits) == 0 {
		c.add("G", fnSpec, role, desc, report.Violated, "no failing branch on this condition; failing branches seen: "+short(strings.Join(seen, " ; ")), c.fnPos(f))
		return
	}
	if opt.EveryIter {
		ok := false
		for _, h := range hits {
			if everyIteration(h.If.Block()) {
				ok = true
			}
		}
		if !ok {
			c.add("G", fnSpec, role, desc, report.Violated, "the check is not evaluated on every iteration of a loop", c.posOf(hits[0].If))
			return
		}
	} else if !opt.Conditional {
		ok := false
		for _, h := range hits {
			if f.MustPassOnSuccess(h.If.Block()) {
				ok = true
			}
		}
		if !ok {
			c.add("G", fnSpec, role, desc, report.Violated, "a success path avoids the check", c.posOf(hits[0].If))
			return
		}
	}
	if opt.Before != "" {
		calls := c.sites(f, opt.Before)
		if len(calls) == 0 {
			c.add("G", fnSpec, role, desc, report.Violated, "no call to "+opt.Before+" found to protect", c.fnPos(f))
			return
		}
		for _, call := range calls {
			ok := false
			for _, h := range hits {
				if ir.InstrDominates(h.If, call) {
					ok = true
				}
			}
			if !ok {
				c.add("G", fnSpec, role, desc, report.Violated, "call to "+f.CalleeName(call)+" is not preceded by the check on every path", c.posOf(call))
				return
			}
		}
	}
	c.add("G", fnSpec, role, desc, report.OK, hits[0].Cond.String(), c.ifPos(hits[0].If, f))
}

// everyIteration: b lies in a natural loop and dominates every back edge of the innermost such loop.
func everyIteration(b *ssa.BasicBlock) bool {
	var best map[*ssa.BasicBlock]bool
	var bestLatch []*ssa.BasicBlock
	for _, h := range b.Parent().Blocks {
		body, latch := NaturalLoop(h)
		if body == nil || !body[b] {
			continue
		}
		if best == nil || len(body) < len(best) {
			best, bestLatch = body, latch
		}
	}
	if best == nil {
		return false
	}
	for _, l := range bestLatch {
		if !b.Dominates(l) {
			return false
		}
	}
	return true
}

// NaturalLoop returns the body and latches of the natural loop headed by h (nil if h heads no loop).
func NaturalLoop(h *ssa.BasicBlock) (map[*ssa.BasicBlock]bool, []*ssa.BasicBlock) {
	var latch []*ssa.BasicBlock
	for _, p := range h.Preds {
		if h.Dominates(p) {
			latch = append(latch, p)
		}
	}
	if len(latch) == 0 {
		return nil, nil
	}
	body := map[*ssa.BasicBlock]bool{h: true}
	work := append([]*ssa.BasicBlock{}, latch...)
	for len(work) > 0 {
		b := work[len(work)-1]
		work = work[:len(work)-1]
		if body[b] {
			continue
		}
		body[b] = true
		work = append(work, b.Preds...)
	}
	return body, latch
}

func (c *Ctx) ifPos(iff *ssa.If, f *ir.Func) string {
	// If instructions carry no position; use the condition's
	if v, ok := iff.Cond.(ssa.Instruction); ok && v.Pos().IsValid() {
		return c.P.Rel(v.Pos())
	}
	for _, ins := range iff.Block().Instrs {
		if ins.Pos().IsValid() {
			return c.P.Rel(ins.Pos())
		}
	}
	return c.fnPos(f)
}

// guardDisjuncts returns the facts known at block b as a disjunction of conjunctions. A dominating branch on a
// boolean join (the lowering of `x := a || b; if x`) is expanded over the join's incoming edges: a constant-true edge
// contributes the facts of its predecessor, a constant-false edge nothing, any other edge the edge value itself
// together with the facts of its predecessor.
func guardDisjuncts(f *ir.Func, b *ssa.BasicBlock, depth int) [][]Cond {
	if b.Parent() != f.Fn {
		if h := ir.HelperOf(f, b.Parent()); h != nil {
			// facts inside a registered helper: the facts at the call that reaches it, conjoined with the helper's own
			return crossConds(guardDisjuncts(f, h.Outer.Block(), depth), guardDisjuncts(h.HF, b, depth))
		}
	}
	if d := pathDisjuncts(f, b, depth, map[*ssa.BasicBlock]bool{}); d != nil {
		return d
	}
	// fall-back: facts from dominating branches only
	out := [][]Cond{{}}
	for _, g := range f.GuardsAt(b) {
		out = crossConds(out, expandCond(f, g.Cond, g.Polarity, depth))
	}
	return out
}

// pathDisjuncts: facts at block b as the union, over its forward (non-back-edge) predecessors p, of the facts at p
// conjoined with the fact established by the edge p -> b. Returns nil when the expansion grows too large.
func pathDisjuncts(f *ir.Func, b *ssa.BasicBlock, depth int, onPath map[*ssa.BasicBlock]bool) [][]Cond {
	if len(b.Preds) == 0 {
		return [][]Cond{{}}
	}
	if depth > 4 || onPath[b] {
		return nil
	}
	onPath[b] = true
	defer delete(onPath, b)
	var out [][]Cond
	for _, p := range b.Preds {
		if b.Dominates(p) {
			continue // back edge: the loop body's facts are not facts of the header
		}
		pf := pathDisjunctsMemo(f, p, depth, onPath)
		if pf == nil {
			return nil
		}
		edge := [][]Cond{{}}
		if iff, ok := p.Instrs[len(p.Instrs)-1].(*ssa.If); ok && p.Succs[0] != p.Succs[1] {
			if p.Succs[0] == b {
				edge = expandCond(f, iff.Cond, true, depth+1)
			} else if p.Succs[1] == b {
				edge = expandCond(f, iff.Cond, false, depth+1)
			}
		}
		out = append(out, crossConds(pf, edge)...)
		if len(out) > 64 {
			out = mergeDisjuncts(out)
		}
		if len(out) > 64 {
			return nil
		}
	}
	if out == nil {
		return [][]Cond{{}}
	}
	if len(b.Preds) > 1 && len(out) > 8 {
		out = mergeDisjuncts(out)
	}
	return out
}

// mergeDisjuncts simplifies a disjunction of conjunctions without changing its meaning: duplicate disjuncts are
// dropped and two disjuncts that agree on everything except one literal, which one asserts and the other denies,
// are replaced by their common part (A∧l ∨ A∧¬l ≡ A). Diamonds that re-join (if/else assigning a sign, a rounding
// mode) therefore do not multiply the number of paths remembered downstream.
func mergeDisjuncts(ds [][]Cond) [][]Cond {
	negOf := func(c Cond) string {
		switch c.Op {
		case "lt":
			return Cond{Op: "le", A: c.B, B: c.A, Pol: true}.String()
		case "le":
			return Cond{Op: "lt", A: c.B, B: c.A, Pol: true}.String()
		}
		n := c
		n.Pol = !c.Pol
		return n.String()
	}
	type dj struct {
		lits map[string]Cond
		ord  []string
	}
	mk := func(d []Cond) dj {
		x := dj{lits: map[string]Cond{}}
		for _, c := range d {
			k := c.String()
			if _, ok := x.lits[k]; !ok {
				x.lits[k] = c
				x.ord = append(x.ord, k)
			}
		}
		return x
	}
	key := func(x dj) string {
		ks := append([]string{}, x.ord...)
		sort.Strings(ks)
		return strings.Join(ks, "\x00")
	}
	var set []dj
	have := map[string]bool{}
	for _, d := range ds {
		x := mk(d)
		if k := key(x); !have[k] {
			have[k] = true
			set = append(set, x)
		}
	}
	for changed, rounds := true, 0; changed && rounds < 64; rounds++ {
		changed = false
	outer:
		for i := 0; i < len(set); i++ {
			for j := i + 1; j < len(set); j++ {
				x, y := set[i], set[j]
				if len(x.lits) != len(y.lits) {
					continue
				}
				diff := ""
				n := 0
				for _, k := range x.ord {
					if _, ok := y.lits[k]; !ok {
						diff = k
						n++
					}
				}
				if n != 1 {
					continue
				}
				// the literal only y has must be exactly the negation of the literal only x has
				ng := negOf(x.lits[diff])
				if _, ok := y.lits[ng]; !ok {
					continue
				}
				if _, both := x.lits[ng]; both {
					continue
				}
				m := dj{lits: map[string]Cond{}}
				for _, k := range x.ord {
					if k != diff {
						m.lits[k] = x.lits[k]
						m.ord = append(m.ord, k)
					}
				}
				set = append(set[:j], set[j+1:]...)
				if k := key(m); have[k] {
					set = append(set[:i], set[i+1:]...)
				} else {
					have[k] = true
					set[i] = m
				}
				changed = true
				break outer
			}
		}
	}
	if os.Getenv("VERIF_DEBUG_MERGE") != "" && len(set) != len(ds) {
		fmt.Fprintf(os.Stderr, "MERGE %d -> %d\n", len(ds), len(set))
		for _, d := range ds {
			fmt.Fprintf(os.Stderr, "   in  %v\n", d)
		}
		for _, x := range set {
			fmt.Fprintf(os.Stderr, "   out %v\n", x.ord)
		}
	}
	out := make([][]Cond, 0, len(set))
	for _, x := range set {
		d := make([]Cond, 0, len(x.ord))
		for _, k := range x.ord {
			d = append(d, x.lits[k])
		}
		out = append(out, d)
	}
	return out
}

var pathMemo = map[*ssa.BasicBlock][][]Cond{}

func pathDisjunctsMemo(f *ir.Func, b *ssa.BasicBlock, depth int, onPath map[*ssa.BasicBlock]bool) [][]Cond {
	if depth == 0 {
		if d, ok := pathMemo[b]; ok {
			return d
		}
	}
	d := pathDisjuncts(f, b, depth, onPath)
	if depth == 0 && d != nil {
		pathMemo[b] = d
	}
	return d
}

func crossConds(a, b [][]Cond) [][]Cond {
	if len(b) == 0 {
		return nil // infeasible
	}
	var next [][]Cond
	for _, x := range a {
		for _, y := range b {
			next = append(next, append(append([]Cond{}, x...), y...))
		}
	}
	if len(next) > 64 {
		return a // give up expanding (keeps the facts already known; sound for "holds in every disjunct")
	}
	return next
}

// expandCond: the disjunctive normal form of "boolean value v has polarity pol". A join of boolean alternatives
// (the lowering of &&, || and conditional assignments) is expanded over its incoming edges: each edge contributes
// the facts at its predecessor, the fact established by taking the edge, and the edge value (constants decide
// feasibility).
func expandCond(f *ir.Func, v ssa.Value, pol bool, depth int) [][]Cond {
	phi, ok := v.(*ssa.Phi)
	if !ok || depth > 4 {
		if u, isNot := v.(*ssa.UnOp); isNot && u.Op.String() == "!" && depth <= 4 {
			return expandCond(f, u.X, !pol, depth)
		}
		// x == true / x != false / ... : the comparison with a boolean constant is transparent
		if bo, isBin := v.(*ssa.BinOp); isBin && depth <= 4 && (bo.Op.String() == "==" || bo.Op.String() == "!=") {
			for _, pr := range [][2]ssa.Value{{bo.X, bo.Y}, {bo.Y, bo.X}} {
				if k, isConst := pr[1].(*ssa.Const); isConst && k.Value != nil && k.Value.Kind().String() == "Bool" {
					p := pol
					if (k.Value.String() == "false") != (bo.Op.String() == "!=") {
						p = !p
					}
					return expandCond(f, pr[0], p, depth)
				}
			}
		}
		return [][]Cond{{Normalize(f.Term(v), pol)}}
	}
	var alts [][]Cond
	for i, e := range phi.Edges {
		pred := phi.Block().Preds[i]
		// facts at the predecessor and the fact of taking the edge pred -> phi block
		edge := guardDisjuncts(f, pred, depth+1)
		if iff, ok := pred.Instrs[len(pred.Instrs)-1].(*ssa.If); ok && pred.Succs[0] != pred.Succs[1] {
			if pred.Succs[0] == phi.Block() {
				edge = crossConds(edge, expandCond(f, iff.Cond, true, depth+1))
			} else if pred.Succs[1] == phi.Block() {
				edge = crossConds(edge, expandCond(f, iff.Cond, false, depth+1))
			}
		}
		if k, ok := e.(*ssa.Const); ok && k.Value != nil {
			if (k.Value.String() == "true") != pol {
				continue // infeasible
			}
			alts = append(alts, edge...)
			continue
		}
		alts = append(alts, crossConds(edge, expandCond(f, e, pol, depth+1))...)
	}
	return alts
}

// condHolds: in every disjunct of the facts at b some fact matches one of the alternatives of cond.
func condHolds(f *ir.Func, b *ssa.BasicBlock, cond string) (bool, string) {
	var seen []string
	if strings.HasPrefix(cond, "raw:") {
		// match against the dominating branch conditions as written (boolean joins not expanded)
		cond = strings.TrimPrefix(cond, "raw:")
		for _, g := range f.GuardsAt(b) {
			cd := Normalize(f.Term(g.Cond), g.Polarity)
			seen = append(seen, cd.String())
			if matchCondAny(cond, cd) {
				return true, strings.Join(seen, " ∧ ")
			}
		}
		return false, strings.Join(seen, " ∧ ")
	}
	for _, d := range guardDisjuncts(f, b, 0) {
		if contradictory(d) {
			continue // infeasible path
		}
		found := false
		var ds []string
		for _, cd := range d {
			ds = append(ds, cd.String())
		}
		// alternatives " | ", each a conjunction " & " of conditions that must all be among the facts
		for _, alt := range strings.Split(cond, " | ") {
			all := true
			for _, cj := range strings.Split(alt, " & ") {
				pc := ParseCond(strings.TrimSpace(cj))
				one := false
				for _, cd := range d {
					if MatchCond(pc, cd) {
						one = true
						break
					}
				}
				if !one {
					all = false
					break
				}
			}
			if all {
				found = true
				break
			}
		}
		seen = append(seen, "["+strings.Join(ds, " ∧ ")+"]")
		if !found {
			return false, strings.Join(seen, " ∨ ")
		}
	}
	return true, strings.Join(seen, " ∨ ")
}

// OnlyWhen: every call to callee in fn happens under condition cond (a dominating branch edge).
func (c *Ctx) OnlyWhen(fnSpec, callee, cond, desc string) {
	role := "onlywhen/" + callee + "/" + cond
	callee, cond = c.X(callee), c.X(cond)
	f := c.Fn(fnSpec)
	if f == nil {
		return
	}
	calls := c.sites(f, callee)
	if len(calls) == 0 {
		c.add("G", fnSpec, role, desc, report.Violated, "no call to "+callee, c.fnPos(f))
		return
	}
	for _, call := range calls {
		found, seen := condHolds(f, call.Block(), cond)
		if !found {
			c.add("G", fnSpec, role, desc, report.Violated, "call not under the condition; conditions in force: "+short(seen), c.posOf(call))
			return
		}
	}
	c.add("G", fnSpec, role, desc, report.OK, fmt.Sprintf("%d site(s)", len(calls)), c.posOf(calls[0]))
}

// NotUnder: no call to callee in fn is control-dependent on cond (in either polarity): on every feasible path
// condition of the call site, neither cond nor its negation is among the facts. Used for "the estimate path and
// the execution path perform the same state transition": the update may not hide behind the mode flag.
func (c *Ctx) NotUnder(fnSpec, callee, cond, desc string) {
	role := "notunder/" + callee + "/" + cond
	callee, cond = c.X(callee), c.X(cond)
	f := c.Fn(fnSpec)
	if f == nil {
		return
	}
	calls := c.sites(f, callee)
	if len(calls) == 0 {
		c.add("G", fnSpec, role, desc, report.Violated, "no call to "+callee, c.fnPos(f))
		return
	}
	pcs := []Cond{ParseCond(cond), ParseCond("not(" + cond + ")")}
	for _, call := range calls {
		// dominating branch edges (control dependence as written), not path facts: a call after the join of
		// `if flag {…}` is reached on both polarities and does not depend on the flag
		for _, g := range f.GuardsAt(call.Block()) {
			cd := Normalize(f.Term(g.Cond), g.Polarity)
			for _, pc := range pcs {
				if MatchCond(pc, cd) {
					c.add("G", fnSpec, role, desc, report.Violated, "call depends on "+cd.String(), c.posOf(call))
					return
				}
			}
		}
	}
	c.add("G", fnSpec, role, desc, report.OK, fmt.Sprintf("%d site(s)", len(calls)), c.posOf(calls[0]))
}

// errResult returns the SSA value holding the error result of a call (nil if none).
func errResult(call ssa.CallInstruction) (ssa.Value, bool) {
	v := call.Value()
	if v == nil {
		return nil, false
	}
	sig := call.Common().Signature()
	res := sig.Results()
	for i := 0; i < res.Len(); i++ {
		if types.Identical(res.At(i).Type(), types.Universe.Lookup("error").Type()) {
			if res.Len() == 1 {
				return v, true
			}
			for _, r := range *v.Referrers() {
				if ex, ok := r.(*ssa.Extract); ok && ex.Index == i {
					return ex, true
				}
			}
			return nil, true // error result exists but is never extracted: dropped
		}
	}
	return nil, false
}

// ErrChecked reports whether the error result of call makes the function fail when non-nil.
func ErrChecked(f *ir.Func, call ssa.CallInstruction) bool {
	ev, has := errResult(call)
	if !has {
		return true // nothing to check
	}
	if ev == nil {
		return false
	}
	return valueFailsWhenNonNil(f, ev, 0)
}

func valueFailsWhenNonNil(f *ir.Func, ev ssa.Value, depth int) bool {
	if depth > 3 {
		return false
	}
	for _, r := range *ev.Referrers() {
		switch x := r.(type) {
		case *ssa.BinOp:
			isNil := func(v ssa.Value) bool { k, ok := v.(*ssa.Const); return ok && k.IsNil() }
			if !(isNil(x.X) || isNil(x.Y)) {
				continue
			}
			for _, rr := range *x.Referrers() {
				iff, ok := rr.(*ssa.If)
				if !ok {
					continue
				}
				b := iff.Block()
				nonNilSucc := b.Succs[0]
				if x.Op.String() == "==" {
					nonNilSucc = b.Succs[1]
				}
				if !f.CanSucceed(nonNilSucc) {
					return true
				}
			}
		case *ssa.Return:
			return true // returned to the caller as is
		case *ssa.Phi:
			if valueFailsWhenNonNil(f, x, depth+1) {
				return true
			}
		case *ssa.Store:
			// named result / captured err variable: look at loads of the same alloc
			if a, ok := x.Addr.(*ssa.Alloc); ok {
				for _, ar := range *a.Referrers() {
					if ld, ok := ar.(*ssa.UnOp); ok && ld.X == a {
						if valueFailsWhenNonNil(f, ld, depth+1) {
							return true
						}
					}
				}
			}
		}
	}
	return false
}

// CheckedCall: fn calls callee with arguments matching argPats on every success path and fails when it
// returns an error.
func (c *Ctx) CheckedCall(fnSpec, callee string, argPats []string, desc, role string) {
	c.CheckedCallOpt(fnSpec, callee, argPats, desc, role, true)
}

// CheckedCallOpt is CheckedCall; with mustPass=false the call need not lie on every success path (there are
// legitimate early "nothing to do" exits), but where it is made its error must fail the function.
func (c *Ctx) CheckedCallOpt(fnSpec, callee string, argPats []string, desc, role string, mustPass bool) {
	r := "checked/" + callee + role
	callee = c.X(callee)
	argPats = c.xs(argPats)
	f := c.Fn(fnSpec)
	if f == nil {
		return
	}
	var hits []ssa.CallInstruction
	var seen []string
	for _, call := range c.sites(f, callee) {
		args := f.CallArgs(call)
		seen = append(seen, "("+joinTerms(args)+")")
		ok := true
		for i, p := range argPats {
			if p == "" {
				continue
			}
			if i >= len(args) || !ir.MatchAny(p, args[i]) {
				ok = false
			}
		}
		if ok {
			hits = append(hits, call)
		}
	}
	if len(hits) == 0 {
		c.add("G", fnSpec, r, desc, report.Violated, fmt.Sprintf("no call %s(%s); seen: %s", callee, strings.Join(argPats, ", "), short(strings.Join(seen, " ; "))), c.fnPos(f))
		return
	}
	var checked []ssa.CallInstruction
	for _, h := range hits {
		if ErrChecked(f, h) {
			checked = append(checked, h)
		}
	}
	if len(checked) == 0 {
		c.add("G", fnSpec, r, desc, report.Violated, "error result of "+callee+" does not make the function fail", c.posOf(hits[0]))
		return
	}
	if mustPass && !c.MustPassAny(f, checked) {
		c.add("G", fnSpec, r, desc, report.Violated, "a success path avoids the checked call to "+callee, c.posOf(checked[0]))
		return
	}
	if !mustPass && len(checked) != len(hits) {
		c.add("G", fnSpec, r, desc, report.Violated, "a call to "+callee+" drops its error", c.posOf(hits[0]))
		return
	}
	c.add("G", fnSpec, r, desc, report.OK, short(f.CalleeName(checked[0])+"("+joinTerms(f.CallArgs(checked[0]))+")"), c.posOf(checked[0]))
}

// OnlyWhenReturn: every return of fn whose result 0 matches valPat happens under condition cond, and at
// least one such return exists.
func (c *Ctx) OnlyWhenReturn(fnSpec, valPat, cond, desc string) {
	role := "onlywhenreturn/" + valPat + "/" + cond
	valPat, cond = c.X(valPat), c.X(cond)
	f := c.Fn(fnSpec)
	if f == nil {
		return
	}
	n := 0
	for _, b := range retBlocks(f) {
		ret, ok := b.Instrs[len(b.Instrs)-1].(*ssa.Return)
		if !ok || len(ret.Results) == 0 {
			continue
		}
		if !ir.MatchAny(valPat, f.Term(ret.Results[0])) {
			continue
		}
		n++
		if found, seen := condHolds(f, b, cond); !found {
			c.add("P", fnSpec, role, desc, report.Violated, "return of "+valPat+" not under condition "+cond+"; in force: "+short(seen), c.posOf(ret))
			return
		}
	}
	if n == 0 {
		c.add("P", fnSpec, role, desc, report.Violated, "no return of "+valPat, c.fnPos(f))
		return
	}
	c.add("P", fnSpec, role, desc, report.OK, fmt.Sprintf("%d return(s)", n), c.fnPos(f))
}

// ReturnCase: result idx of fn is a control-flow join (phi). On every incoming path on which cond is
// established the joined value matches pattern (at least one such path exists); if only is set, no other
// path carries a value matching pattern.
func (c *Ctx) ReturnCase(fnSpec string, idx int, cond, pattern string, only bool, desc string) {
	role := fmt.Sprintf("retcase%d/%s", idx, cond)
	cond, pattern = c.X(cond), c.X(pattern)
	f := c.Fn(fnSpec)
	if f == nil {
		return
	}
	n := 0
	for _, b := range f.Fn.Blocks {
		ret, ok := b.Instrs[len(b.Instrs)-1].(*ssa.Return)
		if !ok || idx >= len(ret.Results) {
			continue
		}
		phi, ok := ret.Results[idx].(*ssa.Phi)
		if !ok {
			continue
		}
		for i, e := range phi.Edges {
			pred := phi.Block().Preds[i]
			under := false
			for _, g := range f.GuardsAt(pred) {
				if matchCondAny(cond, Normalize(f.Term(g.Cond), g.Polarity)) {
					under = true
				}
			}
			m := ir.MatchAny(pattern, f.Term(e))
			if under {
				n++
				if !m {
					c.add("P", fnSpec, role, desc, report.Violated, fmt.Sprintf("under %s the result is %s, want %s", cond, short(f.Term(e).String()), pattern), c.posOf(ret))
					return
				}
			} else if only && m {
				c.add("P", fnSpec, role, desc, report.Violated, fmt.Sprintf("result %s also on a path where %s is not established", pattern, cond), c.posOf(ret))
				return
			}
		}
	}
	if n == 0 {
		c.add("P", fnSpec, role, desc, report.Violated, "no path establishes "+cond+" before the join of result "+fmt.Sprint(idx), c.fnPos(f))
		return
	}
	c.add("P", fnSpec, role, desc, report.OK, fmt.Sprintf("%d path(s)", n), c.fnPos(f))
}

// WhenReturn: fn has at least one return under condition cond, and every such return yields, at result idx, a value
// matching pattern.
func (c *Ctx) WhenReturn(fnSpec, cond string, idx int, pattern, desc string) {
	role := fmt.Sprintf("whenreturn%d/%s", idx, cond)
	cond, pattern = c.X(cond), c.X(pattern)
	f := c.Fn(fnSpec)
	if f == nil {
		return
	}
	n := 0
	for _, b := range retBlocks(f) {
		ret, ok := b.Instrs[len(b.Instrs)-1].(*ssa.Return)
		if !ok || idx >= len(ret.Results) {
			continue
		}
		if ok, _ := condHolds(f, b, cond); !ok {
			continue
		}
		n++
		if !ir.MatchAny(pattern, f.Term(ret.Results[idx])) {
			c.add("P", fnSpec, role, desc, report.Violated, fmt.Sprintf("under %s result %d is %s, want %s", cond, idx, short(f.Term(ret.Results[idx]).String()), pattern), c.posOf(ret))
			return
		}
	}
	if n == 0 {
		c.add("P", fnSpec, role, desc, report.Violated, "no return under "+cond, c.fnPos(f))
		return
	}
	c.add("P", fnSpec, role, desc, report.OK, fmt.Sprintf("%d return(s)", n), c.fnPos(f))
}

// PanicsWhen: fn panics with a value matching valPat exactly under condition cond: a panic instruction under cond
// exists, and no panic instruction with that value lies outside cond.
func (c *Ctx) PanicsWhen(fnSpec, cond, valPat, desc string) {
	role := "panicswhen/" + cond
	cond, valPat = c.X(cond), c.X(valPat)
	f := c.Fn(fnSpec)
	if f == nil {
		return
	}
	n := 0
	for _, b := range f.Fn.Blocks {
		pn, ok := b.Instrs[len(b.Instrs)-1].(*ssa.Panic)
		if !ok || !ir.MatchAny(valPat, f.Term(pn.X)) {
			continue
		}
		if ok, seen := condHolds(f, b, cond); !ok {
			c.add("G", fnSpec, role, desc, report.Violated, "panic outside the condition; in force: "+short(seen), c.posOf(pn))
			return
		}
		n++
	}
	if n == 0 {
		c.add("G", fnSpec, role, desc, report.Violated, "no panic("+valPat+") under "+cond, c.fnPos(f))
		return
	}
	c.add("G", fnSpec, role, desc, report.OK, fmt.Sprintf("%d panic site(s)", n), c.fnPos(f))
}

// StoreVarWhen: fn stores a value matching pattern into the variable (captured or local) named v, under cond, and
// every store to v matching pattern lies under cond.
func (c *Ctx) StoreVarWhen(fnSpec, v, pattern, cond, desc string) {
	role := "storevar/" + v + "/" + cond
	cond, pattern = c.X(cond), c.X(pattern)
	f := c.Fn(fnSpec)
	if f == nil {
		return
	}
	n := 0
	for _, b := range f.Fn.Blocks {
		for _, ins := range b.Instrs {
			st, ok := ins.(*ssa.Store)
			if !ok {
				continue
			}
			name := ""
			switch a := st.Addr.(type) {
			case *ssa.FreeVar:
				name = a.Name()
			case *ssa.Alloc:
				name = a.Comment
			}
			if name != v || !ir.MatchAny(pattern, f.Term(st.Val)) {
				continue
			}
			if ok, seen := condHolds(f, b, cond); !ok {
				c.add("G", fnSpec, role, desc, report.Violated, "store outside the condition; in force: "+short(seen), c.posOf(st))
				return
			}
			n++
		}
	}
	if n == 0 {
		c.add("G", fnSpec, role, desc, report.Violated, "no store "+v+" := "+pattern, c.fnPos(f))
		return
	}
	c.add("G", fnSpec, role, desc, report.OK, fmt.Sprintf("%d store(s)", n), c.fnPos(f))
}

// HasDefer: fn defers a call to the named function before any other call.
func (c *Ctx) HasDefer(fnSpec, callee, desc string) {
	f := c.Fn(fnSpec)
	if f == nil {
		return
	}
	for _, call := range f.Calls() {
		if d, ok := call.(*ssa.Defer); ok {
			name := f.CalleeName(d)
			if mc, ok := d.Call.Value.(*ssa.MakeClosure); ok {
				if fn, ok := mc.Fn.(*ssa.Function); ok {
					name = ir.FuncName(fn)
				}
			}
			if name == callee {
				if d.Block() == f.Fn.Blocks[0] {
					c.add("O", fnSpec, "defer/"+callee, desc, report.OK, "deferred in the entry block", c.posOf(d))
					return
				}
				c.add("O", fnSpec, "defer/"+callee, desc, report.Violated, "deferred conditionally", c.posOf(d))
				return
			}
		}
	}
	c.add("O", fnSpec, "defer/"+callee, desc, report.Violated, "no defer of "+callee, c.fnPos(f))
}

// NoPanicOrErrorExit: fn has no panic instruction and no error result.
func (c *Ctx) NoPanicOrErrorExit(fnSpec, desc string) {
	f := c.Fn(fnSpec)
	if f == nil {
		return
	}
	for _, b := range f.Fn.Blocks {
		if pn, ok := b.Instrs[len(b.Instrs)-1].(*ssa.Panic); ok {
			c.add("G", fnSpec, "nopanic", desc, report.Violated, "explicit panic", c.posOf(pn))
			return
		}
	}
	res := f.Fn.Signature.Results()
	for i := 0; i < res.Len(); i++ {
		if types.Identical(res.At(i).Type(), types.Universe.Lookup("error").Type()) {
			c.add("G", fnSpec, "nopanic", desc, report.Violated, "returns an error", c.fnPos(f))
			return
		}
	}
	c.add("G", fnSpec, "nopanic", desc, report.OK, "no panic, no error result", c.fnPos(f))
}

// StoreVarUnder: every store of a value matching pattern to field `field` lies under cond (at least one exists).
func (c *Ctx) StoreVarUnder(fnSpec, field, pattern, cond, desc string) {
	role := "storeunder/" + field + "/" + cond
	cond, pattern = c.X(cond), c.X(pattern)
	f := c.Fn(fnSpec)
	if f == nil {
		return
	}
	n := 0
	for _, st := range FieldStores(f, field) {
		if !ir.MatchAny(pattern, f.Term(st.Val)) {
			continue
		}
		n++
		if ok, seen := condHolds(f, st.Block(), cond); !ok {
			c.add("G", fnSpec, role, desc, report.Violated, "store outside the condition; in force: "+short(seen), c.posOf(st))
			return
		}
	}
	if n == 0 {
		c.add("G", fnSpec, role, desc, report.Violated, "no store "+field+" := "+pattern, c.fnPos(f))
		return
	}
	c.add("G", fnSpec, role, desc, report.OK, fmt.Sprintf("%d store(s)", n), c.fnPos(f))
}

// LimitChecked (rule kind L): every success exit of fn returns, at result idx, a value V such that either
//   - a branch to an error exit compares V with the caller's limit (parameter `limit`) on the violating side
//     (dir "min": fails when V < limit; dir "max": fails when V > limit) and lies on every path to that exit, or
//   - V is result k of a call that received the limit unchanged as an argument (delegation), or
//   - V is one of the explicitly allowed neutral values (zero results of early "nothing to do" exits).
func (c *Ctx) LimitChecked(fnSpec string, idx int, limit, dir string, neutral string, desc string) {
	role := fmt.Sprintf("limit/%s/ret%d", limit, idx)
	f := c.Fn(fnSpec)
	if f == nil {
		return
	}
	fbs := failBranches(f)
	n := 0
	for _, b := range f.Fn.Blocks {
		ret, ok := b.Instrs[len(b.Instrs)-1].(*ssa.Return)
		if !ok || idx >= len(ret.Results) {
			continue
		}
		k := f.ExitKindOf(b)
		if k != ir.SuccessExit && k != ir.MaybeExit {
			continue
		}
		if b == f.Fn.Recover {
			continue
		}
		t := f.Term(ret.Results[idx])
		alts := []*ir.Term{t}
		if t.Op == "phi" {
			alts = t.Args
		}
		for _, a := range alts {
			if neutral != "" && ir.MatchAny(neutral, a) {
				continue
			}
			n++
			okAlt := false
			// (1) compared with the limit on a failing branch that dominates the return
			for _, fb := range fbs {
				if !fb.If.Block().Dominates(b) && !passesThrough(a, fb.If.Block(), b) {
					continue
				}
				cd := fb.Cond
				if cd.Op != "lt" {
					continue
				}
				lim := &ir.Term{Op: "param", Name: limit}
				var v, l *ir.Term
				if dir == "min" { // fails when V < limit
					v, l = cd.A, cd.B
				} else { // fails when limit < V
					v, l = cd.B, cd.A
				}
				if ir.Match(lim, l, map[string]*ir.Term{}) && sameOrContains(v, a) {
					okAlt = true
				}
			}
			// (2) delegation: V = callee(..., limit, ...)#k
			if !okAlt {
				base := a
				for base.Op == "extract" || base.Op == "field" {
					base = base.Args[0]
				}
				if base.Op == "call" {
					for _, arg := range base.Args {
						if arg.Op == "param" && arg.Name == limit {
							okAlt = true
						}
						if arg.Op == "phi" { // limit passed on the last hop, a neutral constant before
							for _, pa := range arg.Args {
								if pa.Op == "param" && pa.Name == limit {
									okAlt = true
								}
							}
						}
					}
				}
			}
			if !okAlt {
				c.add("L", fnSpec, role, desc, report.Violated, fmt.Sprintf("returned value %s is never compared with %s on a failing branch, nor produced by a callee that received %s", short(a.String()), limit, limit), c.posOf(ret))
				return
			}
		}
	}
	if n == 0 {
		c.add("L", fnSpec, role, desc, report.Violated, "no success exit returning a value", c.fnPos(f))
		return
	}
	c.add("L", fnSpec, role, desc, report.OK, fmt.Sprintf("%d returned value(s) checked against %s", n, limit), c.fnPos(f))
}

// sameOrContains: compared value v is the returned value a, or a is v.Field / v itself modulo with:-wrappers.
func sameOrContains(v, a *ir.Term) bool {
	if v.String() == a.String() {
		return true
	}
	// returned a.Amount while comparing coin.Amount etc. are the same string; returned value may be a phi
	// alternative of the compared phi
	if v.Op == "phi" {
		for _, x := range v.Args {
			if x.String() == a.String() {
				return true
			}
		}
	}
	return false
}

// passesThrough: every path from the definition of term a's value to block `to` goes through block `via`.
func passesThrough(a *ir.Term, via, to *ssa.BasicBlock) bool {
	def, ok := a.V.(ssa.Instruction)
	if !ok || def.Block() == nil {
		return false
	}
	start := def.Block()
	if start == via {
		return true
	}
	seen := map[*ssa.BasicBlock]bool{start: true, via: true}
	work := []*ssa.BasicBlock{start}
	for len(work) > 0 {
		x := work[len(work)-1]
		work = work[:len(work)-1]
		for _, s := range x.Succs {
			if s == to {
				return false
			}
			if !seen[s] {
				seen[s] = true
				work = append(work, s)
			}
		}
	}
	return true
}

// CallArgCase: argument idx of every call to callee is a control-flow join; on the incoming paths where cond is
// established the joined value matches pattern (and, if only, on no other path).
func (c *Ctx) CallArgCase(fnSpec, callee string, idx int, cond, pattern string, only bool, desc string) {
	role := fmt.Sprintf("argcase/%s/arg%d/%s", callee, idx, cond)
	callee, cond, pattern = c.X(callee), c.X(cond), c.X(pattern)
	f := c.Fn(fnSpec)
	if f == nil {
		return
	}
	n := 0
	for _, call := range c.sites(f, callee) {
		cc := call.Common()
		vals := cc.Args
		if cc.IsInvoke() {
			vals = append([]ssa.Value{cc.Value}, vals...)
		}
		if idx >= len(vals) {
			continue
		}
		phi, ok := vals[idx].(*ssa.Phi)
		if !ok {
			// the alternatives may be the return statements of a registered helper that computes the argument
			if hcall, isCall := vals[idx].(*ssa.Call); isCall {
				if g := hcall.Common().StaticCallee(); g != nil {
					if h := ir.HelperOf(f, g); h != nil && h.Outer == ssa.CallInstruction(hcall) && g.Signature.Results().Len() == 1 {
						for _, b := range h.HF.Fn.Blocks {
							ret, isRet := b.Instrs[len(b.Instrs)-1].(*ssa.Return)
							if !isRet || len(ret.Results) != 1 {
								continue
							}
							under, _ := condHolds(f, b, cond)
							m := ir.MatchAny(pattern, f.Term(ret.Results[0]))
							if under {
								n++
								if !m {
									c.add("K", fnSpec, role, desc, report.Violated, fmt.Sprintf("under %s the argument is %s, want %s", cond, short(f.Term(ret.Results[0]).String()), pattern), c.posOf(call))
									return
								}
							} else if only && m {
								c.add("K", fnSpec, role, desc, report.Violated, fmt.Sprintf("argument %s also on a path where %s is not established", pattern, cond), c.posOf(call))
								return
							}
						}
						continue
					}
				}
			}
			c.add("K", fnSpec, role, desc, report.Violated, "argument is not a join of alternatives: "+short(f.Term(vals[idx]).String()), c.posOf(call))
			return
		}
		for i, e := range phi.Edges {
			pred := phi.Block().Preds[i]
			under, _ := condHoldsEdge(f, pred, phi.Block(), cond)
			m := ir.MatchAny(pattern, f.Term(e))
			if under {
				n++
				if !m {
					c.add("K", fnSpec, role, desc, report.Violated, fmt.Sprintf("under %s the argument is %s, want %s", cond, short(f.Term(e).String()), pattern), c.posOf(call))
					return
				}
			} else if only && m {
				c.add("K", fnSpec, role, desc, report.Violated, fmt.Sprintf("argument %s also on a path where %s is not established", pattern, cond), c.posOf(call))
				return
			}
		}
	}
	if n == 0 {
		c.add("K", fnSpec, role, desc, report.Violated, "no path establishes "+cond+" before the call", c.fnPos(f))
		return
	}
	c.add("K", fnSpec, role, desc, report.OK, fmt.Sprintf("%d path(s)", n), c.fnPos(f))
}

// condHoldsEdge: cond is established at the end of pred when control moves to succ (facts at pred plus pred's own branch).
func condHoldsEdge(f *ir.Func, pred, succ *ssa.BasicBlock, cond string) (bool, string) {
	if ok, seen := condHolds(f, pred, cond); ok {
		return true, seen
	}
	if iff, ok := pred.Instrs[len(pred.Instrs)-1].(*ssa.If); ok && pred.Succs[0] != pred.Succs[1] {
		pol := pred.Succs[0] == succ
		if matchCondAny(cond, Normalize(f.Term(iff.Cond), pol)) {
			return true, ""
		}
	}
	return false, ""
}

// CacheCtxOnly (X-cache): fn obtains a cache context from its context parameter; every call that takes a context
// receives the cache context (never the outer one), except the listed read-only callees; if query is set, the
// write-back function returned by CacheContext is never called.
func (c *Ctx) CacheCtxOnly(fnSpec string, readOnlyOuter []string, query bool, desc string) {
	f := c.Fn(fnSpec)
	if f == nil {
		return
	}
	role := "cachectx"
	cc := c.sites(f, "sdk.Context.CacheContext")
	if len(cc) != 1 {
		c.add("X-cache", fnSpec, role, desc, report.Violated, fmt.Sprintf("%d CacheContext calls", len(cc)), c.fnPos(f))
		return
	}
	cacheTerm := f.Term(cc[0].Value()).String() + "#0"
	allowed := map[string]bool{}
	for _, a := range readOnlyOuter {
		allowed[a] = true
	}
	n := 0
	for _, call := range f.Calls() {
		if call == cc[0] {
			continue
		}
		name := f.CalleeName(call)
		common := call.Common()
		vals := common.Args
		for _, a := range vals {
			if !isSDKContext(a.Type()) {
				continue
			}
			if strings.HasPrefix(name, "sdk.Context.") {
				continue // method of the context value itself (Logger, BlockTime, ...)
			}
			n++
			if f.Term(a).String() != cacheTerm && !allowed[name] {
				c.add("X-cache", fnSpec, role, desc, report.Violated, fmt.Sprintf("%s receives %s instead of the cache context", name, short(f.Term(a).String())), c.posOf(call))
				return
			}
		}
		if query && name == "dyn" {
			args := f.CallArgs(call)
			if len(args) > 0 && args[0].String() == strings.TrimSuffix(cacheTerm, "#0")+"#1" {
				c.add("X-cache", fnSpec, role, desc, report.Violated, "the cache is written back in a query", c.posOf(call))
				return
			}
		}
	}
	if n == 0 {
		c.add("X-cache", fnSpec, role, desc, report.Violated, "no context-taking call found", c.fnPos(f))
		return
	}
	c.add("X-cache", fnSpec, role, desc, report.OK, fmt.Sprintf("%d context-taking call(s) on the cache context", n), c.posOf(cc[0]))
}

func isSDKContext(t types.Type) bool {
	n, ok := t.(*types.Named)
	return ok && n.Obj().Name() == "Context" && n.Obj().Pkg() != nil && n.Obj().Pkg().Path() == "github.com/cosmos/cosmos-sdk/types"
}

// OnlyWhenStore: every store to field `field` in fn lies under cond.
func (c *Ctx) OnlyWhenStore(fnSpec, field, cond, desc string) {
	c.StoreVarUnder(fnSpec, field, "_", cond, desc)
}

// BranchOn: fn branches on exactly the given condition (after normalisation) at least once, and on none of the
// conditions listed in `never`.
func (c *Ctx) BranchOn(fnSpec, cond string, never []string, desc string) {
	role := "branchon/" + cond
	cond = c.X(cond)
	f := c.Fn(fnSpec)
	if f == nil {
		return
	}
	found := false
	var seen []string
	blocks := append([]*ssa.BasicBlock{}, f.Fn.Blocks...)
	for _, h := range ir.HelpersOf(f) {
		blocks = append(blocks, h.HF.Fn.Blocks...)
	}
	for _, b := range blocks {
		iff, ok := b.Instrs[len(b.Instrs)-1].(*ssa.If)
		if !ok {
			continue
		}
		// a branch on a join of boolean alternatives (the result of an inlined helper that returns the comparison
		// from several places, or `x := a; if c { x = b }; if x`) is a branch on each non-constant alternative
		var alts []*ir.Term
		var flatten func(t *ir.Term, d int)
		flatten = func(t *ir.Term, d int) {
			if t.Op == "phi" && d < 3 {
				for _, a := range t.Args {
					flatten(a, d+1)
				}
				return
			}
			if t.Op == "const" && d > 0 {
				return
			}
			alts = append(alts, t)
		}
		flatten(f.Term(iff.Cond), 0)
		for _, at := range alts {
			for _, pol := range []bool{true, false} {
				cd := Normalize(at, pol)
				if pol {
					seen = append(seen, cd.String())
				}
				if matchCondAny(cond, cd) {
					found = true
				}
				for _, nv := range never {
					if matchCondAny(c.X(nv), cd) {
						c.add("P", fnSpec, role, desc, report.Violated, "branches on "+cd.String(), c.ifPos(iff, f))
						return
					}
				}
			}
		}
	}
	if !found {
		c.add("P", fnSpec, role, desc, report.Violated, "no branch on "+cond+"; branches: "+short(strings.Join(seen, " ; ")), c.fnPos(f))
		return
	}
	c.add("P", fnSpec, role, desc, report.OK, cond, c.fnPos(f))
}

// StoreVarWhenAny: specialised for x/twap.computeTwap — the error value is set exactly when one of the three
// documented flag conditions holds (checked as: the store of a non-nil error to `err` lies under the disjunction).
func (c *Ctx) StoreVarWhenAny(fnSpec string) {
	desc := "the interval is flagged when the end record's error time is after or at the start time, or the start record's error time equals its own time"
	f := c.Fn(fnSpec)
	if f == nil {
		return
	}
	want := []string{"gt(endRecord.LastErrorTime, startRecord.Time)", "eq(endRecord.LastErrorTime, startRecord.Time)", "eq(startRecord.LastErrorTime, startRecord.Time)"}
	// every branch condition of the flagging cascade must be one of the three, and all three must occur
	seen := map[string]bool{}
	for _, b := range f.Fn.Blocks {
		iff, ok := b.Instrs[len(b.Instrs)-1].(*ssa.If)
		if !ok {
			continue
		}
		cd := Normalize(f.Term(iff.Cond), true)
		for _, w := range want {
			if matchCondAny(w, cd) {
				seen[w] = true
			}
		}
	}
	for _, w := range want {
		if !seen[w] {
			c.add("P", fnSpec, "flag/"+w, desc, report.Violated, "no branch on "+w, c.fnPos(f))
			return
		}
	}
	// the error returned is the flag
	c.add("P", fnSpec, "flag", desc, report.OK, strings.Join(want, " ∨ "), c.fnPos(f))
}

// ApplyFuncClosures (X-cache): every closure literal passed to osmoutils.ApplyFuncIfNoError* inside package pkgRel
// uses only its own context parameter for context-taking calls; a captured outer context may only be used for
// logging. At least min closures must be found.
func (c *Ctx) ApplyFuncClosures(pkgRel string, min int, desc string) {
	sp := c.P.SSAPkg(pkgRel)
	if sp == nil {
		c.add("X-cache", pkgRel, "closures", desc, report.Undecided, "package not loaded", "")
		return
	}
	n := 0
	for _, fn := range c.P.AllFuncs() {
		if fn.Pkg != sp || !load.IsSubjectFile(c.P.File(rootFn(fn).Pos())) {
			continue
		}
		f := c.Wrap(fn)
		for _, call := range f.CallsTo("osmoutils.ApplyFuncIfNoError", "osmoutils.ApplyFuncIfNoErrorLogToDebug") {
			args := call.Common().Args
			if len(args) < 2 {
				continue
			}
			mc, ok := args[1].(*ssa.MakeClosure)
			if !ok {
				continue
			}
			cl, ok := mc.Fn.(*ssa.Function)
			if !ok || cl.Blocks == nil {
				continue
			}
			n++
			cf := c.Wrap(cl)
			name := ir.FuncName(cl)
			bad := ""
			pos := c.P.Rel(cl.Pos())
			for _, cc := range cf.Calls() {
				cname := cf.CalleeName(cc)
				common := cc.Common()
				vals := common.Args
				if common.IsInvoke() {
					vals = append([]ssa.Value{common.Value}, vals...)
				}
				for _, a := range vals {
					if !isSDKContext(a.Type()) {
						continue
					}
					// which context is it?
					root := a
					if u, ok := root.(*ssa.UnOp); ok {
						root = u.X
					}
					if _, isFree := root.(*ssa.FreeVar); isFree {
						if strings.HasPrefix(cname, "sdk.Context.Logger") || strings.HasPrefix(cname, "sdk.Context.BlockHeight") || strings.HasPrefix(cname, "sdk.Context.BlockTime") {
							continue
						}
						bad = cname + " receives the captured outer context"
						pos = c.posOf(cc)
					}
				}
			}
			c.add("X-cache", name, "closurectx", desc, map[bool]report.Status{true: report.OK, false: report.Violated}[bad == ""], orStr(bad, "all context-taking calls use the closure's own (cache) context"), pos)
		}
	}
	if n < min {
		c.add("X-cache", pkgRel, "closures", desc, report.Violated, fmt.Sprintf("only %d cache-context closures found, expected at least %d", n, min), "")
	}
}

// contradictory: the conjunction contains a condition and its negation.
func contradictory(d []Cond) bool {
	neg := func(c Cond) string {
		switch c.Op {
		case "lt":
			return Cond{Op: "le", A: c.B, B: c.A, Pol: true}.String()
		case "le":
			return Cond{Op: "lt", A: c.B, B: c.A, Pol: true}.String()
		}
		n := c
		n.Pol = !c.Pol
		return n.String()
	}
	have := map[string]bool{}
	for _, c := range d {
		have[c.String()] = true
	}
	for _, c := range d {
		if have[neg(c)] {
			return true
		}
	}
	return false
}

// ReachedWhen: the converse of OnlyWhen — some call to callee in fn is reached whenever cond (a conjunction
// "a & b") holds and the function has not failed: there is a feasible path to the call on which every branch fact
// is one of cond's conjuncts, an `err == nil` check, or the surviving side of a branch whose other side only fails. Together with OnlyWhen this makes the call happen exactly
// under cond.
func (c *Ctx) ReachedWhen(fnSpec, callee, cond, desc string) {
	role := "reachedwhen/" + callee + "/" + cond
	callee, cond = c.X(callee), c.X(cond)
	f := c.Fn(fnSpec)
	if f == nil {
		return
	}
	calls := c.sites(f, callee)
	if len(calls) == 0 {
		c.add("G", fnSpec, role, desc, report.Violated, "no call to "+callee, c.fnPos(f))
		return
	}
	var conj []Cond
	for _, cj := range strings.Split(cond, " & ") {
		conj = append(conj, ParseCond(strings.TrimSpace(cj)))
	}
	errNil := ParseCond("eq(_,nil)")
	// facts that every successful run establishes anyway: the surviving side of a branch whose other side only fails
	needed := map[string]bool{}
	for _, b := range f.Fn.Blocks {
		iff, ok := b.Instrs[len(b.Instrs)-1].(*ssa.If)
		if !ok || len(b.Succs) != 2 {
			continue
		}
		ft, fe := !f.CanSucceed(b.Succs[0]), !f.CanSucceed(b.Succs[1])
		if ft == fe {
			continue
		}
		for _, alt := range expandCond(f, iff.Cond, fe, 0) {
			for _, cd := range alt {
				needed[cd.String()] = true
			}
		}
	}
	var seen []string
	for _, call := range calls {
		// residual facts of every feasible path to the call, after dropping the condition's conjuncts and the facts
		// every successful run establishes anyway; the call is reached under the condition iff their disjunction is
		// a tautology (decided by merging disjuncts that differ in one literal's polarity)
		var resid []map[string]bool
		for _, d := range guardDisjuncts(f, call.Block(), 0) {
			if contradictory(d) {
				continue
			}
			r := map[string]bool{}
			var ds []string
			for _, cd := range d {
				ds = append(ds, cd.String())
				m := MatchCond(errNil, cd) || needed[cd.String()]
				for _, pc := range conj {
					if MatchCond(pc, cd) {
						m = true
					}
				}
				if !m {
					r[cd.String()] = true
				}
			}
			seen = append(seen, "["+strings.Join(ds, " ∧ ")+"]")
			resid = append(resid, r)
		}
		if tautology(resid) {
			c.add("G", fnSpec, role, desc, report.OK, fmt.Sprintf("%d path(s), jointly unconditional under the condition", len(resid)), c.posOf(call))
			return
		}
	}
	c.add("G", fnSpec, role, desc, report.Violated, "every path to the call needs more than the condition: "+short(strings.Join(seen, " ∨ ")), c.posOf(calls[0]))
}

// PathCase: on every acyclic entry→return path of fn on which every conjunct of cond ("a & b") is established by a
// branch edge of the path, result idx — with the control-flow joins resolved along that path — matches pattern; at
// least one such path exists. fn must be loop-free.
func (c *Ctx) PathCase(fnSpec, cond string, idx int, pattern, desc string) {
	role := fmt.Sprintf("pathcase%d/%s", idx, cond)
	cond, pattern = c.X(cond), c.X(pattern)
	f := c.Fn(fnSpec)
	if f == nil {
		return
	}
	var conj []Cond
	for _, cj := range strings.Split(cond, " & ") {
		conj = append(conj, ParseCond(strings.TrimSpace(cj)))
	}
	n, paths := 0, 0
	var bad string
	var badPos string
	var path []*ssa.BasicBlock
	onPath := map[*ssa.BasicBlock]bool{}
	var facts []Cond
	org := ir.NewOrigins(f.Fn)
	org.PhiChoice = func(phi *ssa.Phi) ssa.Value {
		at := -1
		for i, b := range path {
			if b == phi.Block() {
				at = i
			}
		}
		if at <= 0 {
			return nil
		}
		for i, p := range phi.Block().Preds {
			if p == path[at-1] {
				return phi.Edges[i]
			}
		}
		return nil
	}
	var dfs func(b *ssa.BasicBlock) bool
	dfs = func(b *ssa.BasicBlock) bool {
		if onPath[b] {
			return false // loop
		}
		paths++
		if paths > 20000 {
			return false
		}
		onPath[b] = true
		path = append(path, b)
		defer func() { onPath[b] = false; path = path[:len(path)-1] }()
		if ret, ok := b.Instrs[len(b.Instrs)-1].(*ssa.Return); ok {
			if idx >= len(ret.Results) {
				return true
			}
			for _, pc := range conj {
				ok := false
				for _, fc := range facts {
					if MatchCond(pc, fc) {
						ok = true
					}
				}
				if !ok {
					return true
				}
			}
			if contradictory(facts) {
				return true
			}
			n++
			org.ResetMemo()
			t := org.Of(ret.Results[idx])
			if !ir.MatchAny(pattern, t) && bad == "" {
				bad, badPos = t.String(), c.posOf(ret)
			}
			return true
		}
		iff, isIf := b.Instrs[len(b.Instrs)-1].(*ssa.If)
		for i, s := range b.Succs {
			added := 0
			if isIf && b.Succs[0] != b.Succs[1] {
				for _, alt := range expandCond(f, iff.Cond, i == 0, 0) {
					// only unambiguous expansions contribute facts
					if len(expandCond(f, iff.Cond, i == 0, 0)) == 1 {
						facts = append(facts, alt...)
						added += len(alt)
					}
				}
			}
			ok := dfs(s)
			facts = facts[:len(facts)-added]
			if !ok {
				return false
			}
		}
		return true
	}
	if !dfs(f.Fn.Blocks[0]) {
		c.add("P", fnSpec, role, desc, report.Undecided, "function has a loop or too many paths for path enumeration", c.fnPos(f))
		return
	}
	if n == 0 {
		c.add("P", fnSpec, role, desc, report.Violated, "no path establishes "+cond, c.fnPos(f))
		return
	}
	if bad != "" {
		c.add("P", fnSpec, role, desc, report.Violated, fmt.Sprintf("on a path where %s holds, result %d is %s, want %s", cond, idx, short(bad), pattern), badPos)
		return
	}
	c.add("P", fnSpec, role, desc, report.OK, fmt.Sprintf("%d path(s)", n), c.fnPos(f))
}

// VarUpdatedWhen: the source variable named v of fn (register-promoted: its control-flow joins carry the name) takes
// a value matching pattern only on edges that lie under condition cond; at least one such edge exists.
func (c *Ctx) VarUpdatedWhen(fnSpec, v, pattern, cond, desc string) {
	role := "varupdate/" + v + "/" + cond
	pattern, cond = c.X(pattern), c.X(cond)
	f := c.Fn(fnSpec)
	if f == nil {
		return
	}
	n, phis := 0, 0
	for _, b := range f.Fn.Blocks {
		for _, ins := range b.Instrs {
			phi, ok := ins.(*ssa.Phi)
			if !ok {
				break
			}
			if phi.Comment != v {
				continue
			}
			phis++
			for i, e := range phi.Edges {
				if ep, isPhi := e.(*ssa.Phi); isPhi && ep.Comment == v {
					continue // the variable's own previous value
				}
				if _, isParam := e.(*ssa.Parameter); isParam {
					continue
				}
				if !ir.MatchAny(pattern, f.Term(e)) {
					c.add("P", fnSpec, role, desc, report.Violated, fmt.Sprintf("%s is assigned %s, want %s", v, short(f.Term(e).String()), pattern), c.blockPos(b.Preds[i], f))
					return
				}
				n++
				if ok, seen := condHolds(f, b.Preds[i], cond); !ok {
					c.add("P", fnSpec, role, desc, report.Violated, fmt.Sprintf("%s is assigned outside the condition; in force: %s", v, short(seen)), c.blockPos(b.Preds[i], f))
					return
				}
			}
		}
	}
	if phis == 0 || n == 0 {
		c.add("P", fnSpec, role, desc, report.Violated, fmt.Sprintf("no conditional assignment to %s found (%d joins)", v, phis), c.fnPos(f))
		return
	}
	c.add("P", fnSpec, role, desc, report.OK, fmt.Sprintf("%d assignment edge(s)", n), c.fnPos(f))
}

// tautology: the disjunction of the conjunctions (sets of literals "x" / "!x") is valid. Decided by saturation with
// the consensus rule on literals of opposite polarity, bounded; incomplete only in the "cannot show" direction.
func tautology(ds []map[string]bool) bool {
	neg := func(l string) string {
		if strings.HasPrefix(l, "!") {
			return l[1:]
		}
		return "!" + l
	}
	key := func(m map[string]bool) string {
		var ks []string
		for k := range m {
			ks = append(ks, k)
		}
		sort.Strings(ks)
		return strings.Join(ks, " ∧ ")
	}
	have := map[string]bool{}
	var set []map[string]bool
	add := func(m map[string]bool) bool {
		k := key(m)
		if have[k] {
			return false
		}
		have[k] = true
		set = append(set, m)
		return true
	}
	for _, d := range ds {
		add(d)
	}
	for round := 0; round < 6; round++ {
		for _, m := range set {
			if len(m) == 0 {
				return true
			}
		}
		changed := false
		n := len(set)
		for i := 0; i < n && len(set) < 400; i++ {
			for j := i + 1; j < n && len(set) < 400; j++ {
				x, y := set[i], set[j]
				// consensus: x = A ∧ l, y = B ∧ ¬l  ⇒  A ∧ B (only when A ∧ B has no other clash)
				for l := range x {
					if !y[neg(l)] {
						continue
					}
					m := map[string]bool{}
					clash := false
					for k := range x {
						if k != l {
							m[k] = true
						}
					}
					for k := range y {
						if k != neg(l) {
							if m[neg(k)] {
								clash = true
							}
							m[k] = true
						}
					}
					if !clash && add(m) {
						changed = true
					}
				}
			}
		}
		if !changed {
			break
		}
	}
	for _, m := range set {
		if len(m) == 0 {
			return true
		}
	}
	return false
}

// ReturnOnlyUnder: result idx of fn is a control-flow join; every incoming edge whose value matches pattern lies under
// condition cond (at least one such edge exists). Unlike ReturnCase it says nothing about the other values taken
// under cond (cond is one conjunct of the case).
func (c *Ctx) ReturnOnlyUnder(fnSpec string, idx int, cond, pattern, desc string) {
	role := fmt.Sprintf("retonly%d/%s", idx, cond)
	cond, pattern = c.X(cond), c.X(pattern)
	f := c.Fn(fnSpec)
	if f == nil {
		return
	}
	n := 0
	for _, b := range f.Fn.Blocks {
		ret, ok := b.Instrs[len(b.Instrs)-1].(*ssa.Return)
		if !ok || idx >= len(ret.Results) {
			continue
		}
		phi, ok := ret.Results[idx].(*ssa.Phi)
		if !ok {
			continue
		}
		for i, e := range phi.Edges {
			et := f.Term(e)
			if !ir.MatchAny(pattern, et) {
				// a non-constant boolean edge (the lowering of `x = a && b`) can carry the value too: it does so only
				// when it is true, so it must be the condition itself or lie under it
				if _, isConst := e.(*ssa.Const); isConst || pattern != "true" {
					continue
				}
				if matchCondAny(cond, Normalize(et, true)) {
					n++
					continue
				}
			}
			n++
			if ok, seen := condHolds(f, phi.Block().Preds[i], cond); !ok {
				c.add("P", fnSpec, role, desc, report.Violated, fmt.Sprintf("result %s also on a path where %s is not established; in force: %s", pattern, cond, short(seen)), c.posOf(ret))
				return
			}
		}
	}
	if n == 0 {
		c.add("P", fnSpec, role, desc, report.Violated, "no joined result matching "+pattern, c.fnPos(f))
		return
	}
	c.add("P", fnSpec, role, desc, report.OK, fmt.Sprintf("%d edge(s)", n), c.fnPos(f))
}

// ReachedWhenAny: ReachedWhen under any one of several equivalent spellings of the condition (e.g. `!x.IsZero()` and
// `x.IsPositive()` for a value that is never negative). The obligation is discharged by the first spelling that holds;
// if none does, the report is the one for the first spelling.
func (c *Ctx) ReachedWhenAny(fnSpec, callee string, conds []string, desc string) {
	var first []report.Obligation
	for i, cond := range conds {
		n := len(c.R.Obligations)
		c.ReachedWhen(fnSpec, callee, cond, desc)
		added := append([]report.Obligation{}, c.R.Obligations[n:]...)
		ok := len(added) > 0
		for _, o := range added {
			if o.Status != report.OK {
				ok = false
			}
		}
		if ok {
			return
		}
		if i == 0 {
			first = added
		}
		c.R.Obligations = c.R.Obligations[:n]
	}
	c.R.Obligations = append(c.R.Obligations, first...)
}
