package ir

import (
	_ "embed"
	"go/constant"
	"go/token"
	"go/types"
	"sort"
	"strconv"
	"strings"

	"golang.org/x/tools/go/ssa"
)

const maxDepth = 24

var pkgAlias = map[string]string{
	"cosmossdk.io/math":                         "sdkmath",
	"github.com/cosmos/cosmos-sdk/types":        "sdk",
	"cosmossdk.io/errors":                       "errorsmod",
	"cosmossdk.io/store/types":                  "storetypes",
	"cosmossdk.io/store/prefix":                 "prefix",
	"github.com/cosmos/cosmos-sdk/types/errors": "sdkerrors",
}

var dirAlias = map[string]string{
	"concentrated-liquidity": "cl",
	"pool-incentives":        "poolincentives",
	"pool-models":            "poolmodels",
	"valset-pref":            "valsetpref",
	"ibc-rate-limit":         "ibcratelimit",
	"ibc-hooks":              "ibchooks",
	"smart-account":          "smartaccount",
	"downtime-detector":      "downtimedetector",
}

var genericLast = map[string]bool{"keeper": true, "types": true, "math": true, "model": true, "client": true, "v2": true, "internal": true, "queryproto": true}

// PkgShort is the short, stable package name used in terms.
func PkgShort(path string) string {
	if a, ok := pkgAlias[path]; ok {
		return a
	}
	segs := strings.Split(path, "/")
	last := segs[len(segs)-1]
	if a, ok := dirAlias[last]; ok {
		last = a
	}
	if genericLast[last] && len(segs) >= 2 {
		par := segs[len(segs)-2]
		if a, ok := dirAlias[par]; ok {
			par = a
		}
		if par == "types" && len(segs) >= 3 { // x/foo/types/v2 style
			par = segs[len(segs)-3] + "types"
		}
		return par + last
	}
	return last
}

func stripTypeArgs(s string) string {
	if i := strings.Index(s, "["); i >= 0 {
		return s[:i]
	}
	return s
}

// FuncName is the canonical callee name: pkg.Func or pkg.Type.Method.
func FuncName(f *ssa.Function) string {
	if f == nil {
		return "dyn"
	}
	name := stripTypeArgs(f.Name())
	if f.Parent() != nil {
		return FuncName(f.Parent()) + "$" + strings.TrimPrefix(name, f.Parent().Name()+"$")
	}
	var pkg *types.Package
	if f.Pkg != nil {
		pkg = f.Pkg.Pkg
	} else if o := f.Object(); o != nil {
		pkg = o.Pkg()
	} else if f.Origin() != nil {
		return FuncName(f.Origin())
	}
	pk := "?"
	if pkg != nil {
		pk = PkgShort(pkg.Path())
	}
	if recv := f.Signature.Recv(); recv != nil {
		return pk + "." + typeName(recv.Type()) + "." + name
	}
	return pk + "." + name
}

func ObjFuncName(fn *types.Func) string {
	pk := "?"
	if fn.Pkg() != nil {
		pk = PkgShort(fn.Pkg().Path())
	}
	sig := fn.Type().(*types.Signature)
	if recv := sig.Recv(); recv != nil {
		return pk + "." + typeName(recv.Type()) + "." + fn.Name()
	}
	return pk + "." + fn.Name()
}

func typeName(t types.Type) string {
	if p, ok := t.(*types.Pointer); ok {
		t = p.Elem()
	}
	switch n := t.(type) {
	case *types.Named:
		return n.Obj().Name()
	case *types.Alias:
		return n.Obj().Name()
	}
	return stripTypeArgs(t.String())
}

var binopName = map[token.Token]string{
	token.ADD: "add", token.SUB: "sub", token.MUL: "mul", token.QUO: "quo", token.REM: "rem",
	token.AND: "and", token.OR: "or", token.XOR: "xor", token.SHL: "shl", token.SHR: "shr", token.AND_NOT: "andnot",
	token.EQL: "eq", token.NEQ: "ne", token.LSS: "lt", token.LEQ: "le", token.GTR: "gt", token.GEQ: "ge",
}

// Origins computes origin terms for the values of one function (memoised).
type Origins struct {
	Fn          *ssa.Function
	inprog      map[*ssa.Phi]bool
	inprogLocal map[localKey]bool
	memo        map[ssa.Value]*Term
	// stores per (struct type, field index) through non-local bases
	fieldStores map[fieldKey][]*ssa.Store
	built       bool
	// PhiChoice, when set, replaces a control-flow join by the edge value it returns (non-nil): terms resolved
	// along one path. Use on a private Origins and call ResetMemo between paths.
	PhiChoice func(*ssa.Phi) ssa.Value
	// ParamSubst, when set, replaces parameters by the given terms (virtual inlining of a helper at a call site,
	// or a subject function that merely delegates to a new function).
	ParamSubst map[*ssa.Parameter]*Term
	inlining   map[*ssa.Function]bool
}

// ResetMemo forgets memoised terms (needed when PhiChoice changes).
func (o *Origins) ResetMemo() { o.memo = map[ssa.Value]*Term{} }

type localKey struct {
	a     *ssa.Alloc
	field int
	at    ssa.Instruction
}

type fieldKey struct {
	t types.Type
	i int
}

func NewOrigins(fn *ssa.Function) *Origins {
	return &Origins{Fn: fn, memo: map[ssa.Value]*Term{}, inprog: map[*ssa.Phi]bool{}}
}

func (o *Origins) build() {
	if o.built {
		return
	}
	o.built = true
	o.fieldStores = map[fieldKey][]*ssa.Store{}
	for _, b := range o.Fn.Blocks {
		for _, ins := range b.Instrs {
			if st, ok := ins.(*ssa.Store); ok {
				if fa, ok := st.Addr.(*ssa.FieldAddr); ok {
					k := fieldKey{derefStruct(fa.X.Type()), fa.Field}
					o.fieldStores[k] = append(o.fieldStores[k], st)
				}
			}
		}
	}
}

func derefStruct(t types.Type) types.Type {
	if p, ok := t.Underlying().(*types.Pointer); ok {
		return p.Elem()
	}
	return t
}

func opaque(why string) *Term { return &Term{Op: "opaque", Name: why} }

// Of returns the origin term of v.
func (o *Origins) Of(v ssa.Value) *Term {
	o.build()
	return o.of(v, 0)
}

func (o *Origins) of(v ssa.Value, depth int) *Term {
	if v == nil {
		return opaque("nil")
	}
	if depth == 0 {
		if t, ok := o.memo[v]; ok {
			return t
		}
	}
	if depth > maxDepth {
		return opaque("deep")
	}
	t := o.compute(v, depth)
	if t.V == nil {
		t.V = v
	}
	if depth == 0 {
		o.memo[v] = t
	}
	return t
}

func constText(c *ssa.Const) string {
	if c.Value == nil {
		return "nil"
	}
	switch c.Value.Kind() {
	case constant.String:
		return strconv.Quote(constant.StringVal(c.Value))
	case constant.Bool:
		if constant.BoolVal(c.Value) {
			return "true"
		}
		return "false"
	}
	return c.Value.ExactString()
}

func fieldName(t types.Type, i int) string {
	t = derefStruct(t)
	if st, ok := t.Underlying().(*types.Struct); ok && i < st.NumFields() {
		return st.Field(i).Name()
	}
	return strconv.Itoa(i)
}

func (o *Origins) args(vs []ssa.Value, depth int) []*Term {
	out := make([]*Term, len(vs))
	for i, a := range vs {
		out[i] = o.of(a, depth+1)
	}
	return out
}

func (o *Origins) compute(v ssa.Value, depth int) *Term {
	switch x := v.(type) {
	case *ssa.Parameter:
		if o.ParamSubst != nil {
			if t, ok := o.ParamSubst[x]; ok && t != nil {
				return t
			}
		}
		return &Term{Op: "param", Name: x.Name()}
	case *ssa.FreeVar:
		return &Term{Op: "param", Name: "^" + x.Name()}
	case *ssa.Const:
		return &Term{Op: "const", Name: constText(x)}
	case *ssa.Global:
		pk := "?"
		if x.Pkg != nil {
			pk = PkgShort(x.Pkg.Pkg.Path())
		}
		return &Term{Op: "global", Name: pk + "." + x.Name()}
	case *ssa.Function:
		return &Term{Op: "call", Name: "func:" + FuncName(x)}
	case *ssa.Builtin:
		return &Term{Op: "param", Name: "builtin:" + x.Name()}
	case *ssa.Extract:
		tt := o.of(x.Tuple, depth+1)
		if tt.Op == "call" && tt.Name == "tuple:" && x.Index < len(tt.Args) {
			return tt.Args[x.Index] // result of a virtually inlined helper
		}
		return &Term{Op: "extract", Idx: x.Index, Args: []*Term{tt}}
	case *ssa.Call:
		return o.callTerm(x.Common(), depth)
	case *ssa.Field:
		return &Term{Op: "field", Name: fieldName(x.X.Type(), x.Field), Args: []*Term{o.of(x.X, depth+1)}}
	case *ssa.FieldAddr:
		// address of a field: described as the field itself (loads are transparent)
		return &Term{Op: "field", Name: fieldName(x.X.Type(), x.Field), Args: []*Term{o.of(x.X, depth+1)}}
	case *ssa.IndexAddr:
		return o.indexTerm(x.X, x.Index, depth)
	case *ssa.Index:
		return o.indexTerm(x.X, x.Index, depth)
	case *ssa.Lookup:
		return &Term{Op: "op", Name: "lookup", Args: []*Term{o.of(x.X, depth+1), o.of(x.Index, depth+1)}}
	case *ssa.Slice:
		if a, ok := x.X.(*ssa.Alloc); ok && x.Low == nil && x.High == nil {
			if l := o.arrayLiteral(a, depth); l != nil {
				return l
			}
		}
		if x.Low == nil && x.High == nil {
			return &Term{Op: "op", Name: "slice", Args: []*Term{o.of(x.X, depth+1)}}
		}
		// x[lo:hi] with an explicit bound: slice(x, lo, hi), an omitted bound printed as nil
		lo, hi := opaque("nil"), opaque("nil")
		if x.Low != nil {
			lo = o.of(x.Low, depth+1)
		}
		if x.High != nil {
			hi = o.of(x.High, depth+1)
		}
		return &Term{Op: "op", Name: "slice", Args: []*Term{o.of(x.X, depth+1), lo, hi}}
	case *ssa.UnOp:
		switch x.Op {
		case token.MUL:
			return o.load(x, depth)
		case token.NOT:
			return &Term{Op: "op", Name: "not", Args: []*Term{o.of(x.X, depth+1)}}
		case token.SUB:
			return &Term{Op: "op", Name: "neg", Args: []*Term{o.of(x.X, depth+1)}}
		case token.ARROW:
			return opaque("recv")
		}
		return &Term{Op: "op", Name: "unop" + x.Op.String(), Args: []*Term{o.of(x.X, depth+1)}}
	case *ssa.BinOp:
		n, ok := binopName[x.Op]
		if !ok {
			n = "binop" + x.Op.String()
		}
		return &Term{Op: "op", Name: n, Args: []*Term{o.of(x.X, depth+1), o.of(x.Y, depth+1)}}
	case *ssa.Alloc:
		// the address of a local: described by the variable's single store if there is exactly one
		if st := o.singleStore(x); st != nil && !o.hasAnyFieldStore(x) {
			return o.of(st.Val, depth+1)
		}
		// a local built field by field (composite literal): every assigned field is stored exactly once
		if lit := o.compositeLiteral(x, depth); lit != nil {
			return lit
		}
		return &Term{Op: "call", Name: "addr:" + x.Comment}
	case *ssa.ChangeType:
		return o.of(x.X, depth+1)
	case *ssa.ChangeInterface:
		return o.of(x.X, depth+1)
	case *ssa.MakeInterface:
		return o.of(x.X, depth+1)
	case *ssa.Convert:
		// numeric / string conversions are kept visible only when they change representation class
		if isTransparentConv(x) {
			return o.of(x.X, depth+1)
		}
		return &Term{Op: "call", Name: "conv:" + typeName(x.Type()), Args: []*Term{o.of(x.X, depth+1)}}
	case *ssa.TypeAssert:
		return &Term{Op: "call", Name: "assert:" + typeName(x.AssertedType), Args: []*Term{o.of(x.X, depth+1)}}
	case *ssa.Phi:
		if o.PhiChoice != nil && !o.inprog[x] {
			if e := o.PhiChoice(x); e != nil && e != v {
				o.inprog[x] = true
				defer delete(o.inprog, x)
				return o.of(e, depth+1)
			}
		}
		if len(x.Edges) > 8 {
			return opaque("phi-wide")
		}
		if o.inprog[x] {
			return &Term{Op: "param", Name: "#self"}
		}
		o.inprog[x] = true
		defer delete(o.inprog, x)
		var as []*Term
		seen := map[string]bool{}
		for _, e := range x.Edges {
			if e == v {
				continue
			}
			t := o.of(e, depth+2)
			s := t.String()
			if s == "#self" || seen[s] {
				continue
			}
			seen[s] = true
			as = append(as, t)
		}
		if len(as) == 0 {
			return opaque("phi-empty")
		}
		if len(as) == 1 {
			return as[0]
		}
		return &Term{Op: "phi", Name: "phi", Args: as}
	case *ssa.MakeClosure:
		fn, _ := x.Fn.(*ssa.Function)
		return &Term{Op: "call", Name: "closure:" + FuncName(fn), Args: o.args(x.Bindings, depth)}
	case *ssa.MakeSlice:
		return &Term{Op: "call", Name: "make:slice"}
	case *ssa.MakeMap:
		return &Term{Op: "call", Name: "make:map"}
	case *ssa.MakeChan:
		return opaque("chan")
	case *ssa.Next:
		return &Term{Op: "op", Name: "next", Args: []*Term{o.of(x.Iter, depth+1)}}
	case *ssa.Range:
		return &Term{Op: "op", Name: "range", Args: []*Term{o.of(x.X, depth+1)}}
	case *ssa.SliceToArrayPointer:
		return o.of(x.X, depth+1)
	case *ssa.MultiConvert:
		return o.of(x.X, depth+1)
	}
	return opaque("value")
}

// indexTerm: x[i]; an index that depends on a loop-carried value is an arbitrary element: elem(x).
func (o *Origins) indexTerm(x, i ssa.Value, depth int) *Term {
	it := o.of(i, depth+1)
	loop := false
	it.Walk(func(t *Term) bool {
		if t.Op == "param" && t.Name == "#self" {
			loop = true
		}
		return !loop
	})
	if loop || it.HasOpaque() && isLoopIndex(i) {
		return &Term{Op: "op", Name: "elem", Args: []*Term{o.of(x, depth+1)}}
	}
	return &Term{Op: "op", Name: "idx", Args: []*Term{o.of(x, depth+1), it}}
}

func isLoopIndex(i ssa.Value) bool {
	switch x := i.(type) {
	case *ssa.Phi:
		return true
	case *ssa.BinOp:
		return isLoopIndex(x.X) || isLoopIndex(x.Y)
	}
	return false
}

// arrayLiteral: a local array all of whose elements are stored exactly once at constant indexes
// (the lowering of variadic arguments and slice literals): list(e0,e1,...).
func (o *Origins) arrayLiteral(a *ssa.Alloc, depth int) *Term {
	arr, ok := derefStruct(a.Type()).Underlying().(*types.Array)
	if !ok || arr.Len() > 16 {
		return nil
	}
	elems := make([]*Term, arr.Len())
	for _, r := range *a.Referrers() {
		switch x := r.(type) {
		case *ssa.IndexAddr:
			k, ok := x.Index.(*ssa.Const)
			if !ok || k.Value == nil {
				return nil
			}
			idx := int(k.Int64())
			if idx < 0 || idx >= len(elems) {
				return nil
			}
			for _, rr := range *x.Referrers() {
				st, ok := rr.(*ssa.Store)
				if !ok || st.Addr != x {
					// element address used otherwise (e.g. field stores of a struct literal element)
					continue
				}
				if elems[idx] != nil {
					return nil
				}
				elems[idx] = o.of(st.Val, depth+2)
			}
		case *ssa.Slice:
		default:
			return nil
		}
	}
	for i, e := range elems {
		if e == nil {
			elems[i] = &Term{Op: "call", Name: "zero:elem"}
		}
	}
	return &Term{Op: "op", Name: "list", Args: elems}
}

func isTransparentConv(c *ssa.Convert) bool {
	from, to := c.X.Type().Underlying(), c.Type().Underlying()
	fb, ok1 := from.(*types.Basic)
	tb, ok2 := to.(*types.Basic)
	if ok1 && ok2 {
		// same class (integer→integer of at least the same width is transparent enough for origin
		// purposes; int→string etc. are not)
		if fb.Info()&types.IsInteger != 0 && tb.Info()&types.IsInteger != 0 {
			return true
		}
		if fb.Info()&types.IsString != 0 && tb.Info()&types.IsString != 0 {
			return true
		}
		return false
	}
	// []byte <-> string, named slices
	return true
}

func (o *Origins) callTerm(c *ssa.CallCommon, depth int) *Term {
	if c.IsInvoke() {
		name := "?"
		if c.Method != nil {
			recv := c.Value.Type()
			pk := ""
			if n, ok := recv.(*types.Named); ok && n.Obj().Pkg() != nil {
				pk = PkgShort(n.Obj().Pkg().Path()) + "."
			} else if c.Method.Pkg() != nil {
				pk = PkgShort(c.Method.Pkg().Path()) + "."
			}
			name = pk + typeName(recv) + "." + c.Method.Name()
			if _, ok := recv.(*types.Named); !ok {
				if _, ok := recv.(*types.Alias); !ok {
					name = pk + "iface." + c.Method.Name()
				}
			}
		}
		as := append([]*Term{o.of(c.Value, depth+1)}, spliceVariadic(c, o.args(c.Args, depth))...)
		return &Term{Op: "call", Name: name, Args: as}
	}
	if f := c.StaticCallee(); f != nil {
		if fld := pbGetterField(f); fld != "" && len(c.Args) == 1 {
			return &Term{Op: "field", Name: fld, Args: []*Term{o.of(c.Args[0], depth+1)}}
		}
		if t := o.inlineNew(f, c, depth); t != nil {
			return t
		}
		return &Term{Op: "call", Name: FuncName(f), Args: spliceVariadic(c, o.args(c.Args, depth))}
	}
	if b, ok := c.Value.(*ssa.Builtin); ok {
		return &Term{Op: "op", Name: b.Name(), Args: o.args(c.Args, depth)}
	}
	if f := FuncAlias(c.Value); f != nil {
		return &Term{Op: "call", Name: FuncName(f), Args: spliceVariadic(c, o.args(c.Args, depth))}
	}
	as := append([]*Term{o.of(c.Value, depth+1)}, o.args(c.Args, depth)...)
	return &Term{Op: "call", Name: "dyn", Args: as}
}

var pbGetterMemo = map[*ssa.Function]string{}

// pbGetterField: protobuf-generated getter `func (m *T) GetX() U` (declared in a .pb.go file) reads field X.
func pbGetterField(f *ssa.Function) string {
	if r, ok := pbGetterMemo[f]; ok {
		return r
	}
	res := ""
	defer func() { pbGetterMemo[f] = res }()
	if f.Signature.Recv() == nil || !strings.HasPrefix(f.Name(), "Get") || f.Signature.Params().Len() != 0 || f.Prog == nil {
		return ""
	}
	file := f.Prog.Fset.Position(f.Pos()).Filename
	if !strings.HasSuffix(file, ".pb.go") {
		return ""
	}
	st, ok := derefStruct(f.Signature.Recv().Type()).Underlying().(*types.Struct)
	if !ok {
		return ""
	}
	name := strings.TrimPrefix(f.Name(), "Get")
	for i := 0; i < st.NumFields(); i++ {
		if st.Field(i).Name() == name {
			res = name
			return res
		}
	}
	return ""
}

// SpliceVariadic is exported for call-site argument lists.
func SpliceVariadic(c *ssa.CallCommon, args []*Term) []*Term { return spliceVariadic(c, args) }

// spliceVariadic replaces a trailing list(...) / nil variadic argument by its elements.
func spliceVariadic(c *ssa.CallCommon, args []*Term) []*Term {
	sig := c.Signature()
	if sig == nil || !sig.Variadic() || len(args) == 0 {
		return args
	}
	last := args[len(args)-1]
	if last.Op == "op" && last.Name == "list" {
		return append(args[:len(args)-1:len(args)-1], last.Args...)
	}
	if last.Op == "const" && last.Name == "nil" {
		return args[:len(args)-1]
	}
	return args
}

// singleStore returns the only store to a local alloc whose address is used for nothing
// but loads, field addressing and (as an argument) calls; nil otherwise.
func (o *Origins) singleStore(a *ssa.Alloc) *ssa.Store {
	var st *ssa.Store
	n := 0
	for _, r := range *a.Referrers() {
		if s, ok := r.(*ssa.Store); ok && s.Addr == a {
			st = s
			n++
		}
	}
	if n == 1 {
		return st
	}
	return nil
}

// load resolves *p.
func (o *Origins) load(ld *ssa.UnOp, depth int) *Term {
	switch a := ld.X.(type) {
	case *ssa.Alloc:
		return o.localValue(a, -1, ld, depth)
	case *ssa.FieldAddr:
		fname := fieldName(a.X.Type(), a.Field)
		if base, ok := a.X.(*ssa.Alloc); ok {
			return o.localValue(base, a.Field, ld, depth)
		}
		k := fieldKey{derefStruct(a.X.Type()), a.Field}
		base := &Term{Op: "field", Name: fname, Args: []*Term{o.of(a.X, depth+1)}}
		if len(o.fieldStores[k]) == 0 {
			return base
		}
		// stores to the same field exist: they must all go through the same base pointer value,
		// then the reaching ones (flow-sensitive) describe the load.
		for _, st := range o.fieldStores[k] {
			if sb := st.Addr.(*ssa.FieldAddr).X; !sameAddr(sb, a.X) && !distinctObjects(sb, a.X) {
				return opaque("mem:" + fname)
			}
		}
		defs, entry := o.reachingFieldDefs(a.X, a.Field, ld)
		if len(defs) > 6 {
			return opaque("mem:" + fname)
		}
		var alts []*Term
		seenAlt := map[string]bool{}
		if entry {
			alts = append(alts, base)
			seenAlt[base.String()] = true
		}
		for _, st := range defs {
			t := o.of(st.Val, depth+2)
			if !seenAlt[t.String()] {
				seenAlt[t.String()] = true
				alts = append(alts, t)
			}
		}
		if len(alts) == 1 {
			return alts[0]
		}
		if len(alts) == 0 {
			return opaque("mem:" + fname)
		}
		return &Term{Op: "phi", Name: "phi", Args: alts}
	case *ssa.Global:
		return o.of(a, depth+1)
	case *ssa.IndexAddr:
		return o.of(a, depth+1)
	case *ssa.FreeVar:
		if t := o.resolveFreeVar(a, depth); t != nil {
			return t
		}
		return &Term{Op: "param", Name: "^" + a.Name()}
	}
	// *p for a pointer that is not a local: transparent (a struct and a pointer to it have the same origin)
	return o.of(ld.X, depth+1)
}

// localValue: value of local variable `a` (field `field`, or the whole variable when field<0) just
// before instruction `at`, from the stores that reach it (flow-sensitive over the CFG).
func (o *Origins) localValue(a *ssa.Alloc, field int, at ssa.Instruction, depth int) *Term {
	// a load that is (transitively) defined in terms of itself is loop-carried
	lk := localKey{a, field, at}
	if o.inprogLocal[lk] {
		return &Term{Op: "param", Name: "#self"}
	}
	if o.inprogLocal == nil {
		o.inprogLocal = map[localKey]bool{}
	}
	o.inprogLocal[lk] = true
	defer delete(o.inprogLocal, lk)
	defs, entry := o.reachingDefs(a, field, at)
	fname := ""
	if field >= 0 {
		fname = fieldName(a.Type(), field)
	}
	var alts []*Term
	seen := map[string]bool{}
	add := func(t *Term) {
		s := t.String()
		if s == "#self" {
			return
		}
		if !seen[s] {
			seen[s] = true
			alts = append(alts, t)
		}
	}
	if len(defs) > 6 {
		return opaque("mem:" + a.Comment)
	}
	for _, st := range defs {
		if fa, ok := st.Addr.(*ssa.FieldAddr); ok && fa.X == a && fa.Field == field {
			add(o.of(st.Val, depth+2))
			continue
		}
		v := o.of(st.Val, depth+2)
		if field >= 0 {
			v = &Term{Op: "field", Name: fname, Args: []*Term{v}}
		}
		add(v)
	}
	if entry { // the variable may still hold its zero value
		z := &Term{Op: "call", Name: "zero:" + typeName(a.Type())}
		if o.escapes(a) {
			z = &Term{Op: "call", Name: "local:" + a.Comment}
		}
		if field >= 0 {
			z = &Term{Op: "field", Name: fname, Args: []*Term{z}}
		}
		add(z)
	}
	if len(alts) == 0 {
		return opaque("mem:" + a.Comment)
	}
	var res *Term
	if len(alts) == 1 {
		res = alts[0]
	} else {
		res = &Term{Op: "phi", Name: "phi", Args: alts}
	}
	if field < 0 {
		// whole-variable load: apply the field stores that reach this point on top of the base value
		for _, fi := range o.storedFields(a) {
			fdefs, fentry := o.reachingDefs(a, fi, at)
			var vals []*Term
			only := true
			for _, st := range fdefs {
				if fa, ok := st.Addr.(*ssa.FieldAddr); ok && fa.X == a && fa.Field == fi {
					vals = append(vals, o.of(st.Val, depth+2))
				} else {
					only = false // a whole-variable store reaches too: the field may still have the base's value
				}
			}
			if len(vals) == 0 {
				continue
			}
			var v *Term
			if len(vals) == 1 {
				v = vals[0]
			} else {
				v = &Term{Op: "phi", Name: "phi", Args: vals}
			}
			name := "with:" + fieldName(a.Type(), fi)
			if !only || fentry {
				name = "maywith:" + fieldName(a.Type(), fi)
			}
			res = &Term{Op: "call", Name: name, Args: []*Term{res, v}}
		}
	}
	return res
}

// storedFields lists the fields of local a that are assigned individually somewhere in the function.
func (o *Origins) storedFields(a *ssa.Alloc) []int {
	seen := map[int]bool{}
	var out []int
	for _, r := range *a.Referrers() {
		if fa, ok := r.(*ssa.FieldAddr); ok && !seen[fa.Field] {
			for _, rr := range *fa.Referrers() {
				if s, ok := rr.(*ssa.Store); ok && s.Addr == fa {
					seen[fa.Field] = true
					out = append(out, fa.Field)
					break
				}
			}
		}
	}
	sort.Ints(out)
	return out
}

// escapes: the address of a is passed to a call or stored somewhere.
func (o *Origins) escapes(a *ssa.Alloc) bool {
	for _, r := range *a.Referrers() {
		switch x := r.(type) {
		case ssa.CallInstruction:
			return true
		case *ssa.Store:
			if x.Val == a {
				return true
			}
		case *ssa.MakeClosure, *ssa.MakeInterface:
			return true
		}
	}
	return false
}

// reachingFieldDefs: stores to field `field` through pointer value base that may be the latest before at.
func (o *Origins) reachingFieldDefs(base ssa.Value, field int, at ssa.Instruction) (defs []*ssa.Store, entry bool) {
	isDef := func(ins ssa.Instruction) *ssa.Store {
		st, ok := ins.(*ssa.Store)
		if !ok {
			return nil
		}
		if fa, ok := st.Addr.(*ssa.FieldAddr); ok && sameAddr(fa.X, base) && fa.Field == field {
			return st
		}
		return nil
	}
	return reaching(isDef, at)
}

// sameAddr: two address values denote the same location: identical, or the same field path of the same base.
func sameAddr(a, b ssa.Value) bool {
	if a == b {
		return true
	}
	fa, ok1 := a.(*ssa.FieldAddr)
	fb, ok2 := b.(*ssa.FieldAddr)
	if ok1 && ok2 {
		return fa.Field == fb.Field && sameAddr(fa.X, fb.X)
	}
	ia, ok1 := a.(*ssa.IndexAddr)
	ib, ok2 := b.(*ssa.IndexAddr)
	if ok1 && ok2 {
		return ia.Index == ib.Index && sameAddr(ia.X, ib.X)
	}
	// loads of the same single-assignment local holding a pointer/slice
	la, ok1 := a.(*ssa.UnOp)
	lb, ok2 := b.(*ssa.UnOp)
	if ok1 && ok2 && la.X == lb.X {
		if _, isAlloc := la.X.(*ssa.Alloc); isAlloc {
			return true
		}
	}
	return false
}

// reachingDefs returns the stores to a (whole-variable stores, and stores to field `field` when
// field>=0) that may be the most recent one before `at`; entry reports whether the function
// entry reaches `at` without any such store.
func (o *Origins) reachingDefs(a *ssa.Alloc, field int, at ssa.Instruction) (defs []*ssa.Store, entry bool) {
	isDef := func(ins ssa.Instruction) *ssa.Store {
		st, ok := ins.(*ssa.Store)
		if !ok {
			return nil
		}
		if st.Addr == a {
			return st
		}
		if fa, ok := st.Addr.(*ssa.FieldAddr); ok && fa.X == a && field >= 0 && fa.Field == field {
			return st
		}
		return nil
	}
	return reaching(isDef, at)
}

func reaching(isDef func(ssa.Instruction) *ssa.Store, at ssa.Instruction) (defs []*ssa.Store, entry bool) {
	seenDef := map[*ssa.Store]bool{}
	visited := map[*ssa.BasicBlock]bool{}
	var walk func(b *ssa.BasicBlock, from int)
	walk = func(b *ssa.BasicBlock, from int) {
		for i := from; i >= 0; i-- {
			if st := isDef(b.Instrs[i]); st != nil {
				if !seenDef[st] {
					seenDef[st] = true
					defs = append(defs, st)
				}
				return
			}
		}
		if len(b.Preds) == 0 {
			entry = true
			return
		}
		for _, p := range b.Preds {
			if visited[p] {
				continue
			}
			visited[p] = true
			walk(p, len(p.Instrs)-1)
		}
	}
	b := at.Block()
	idx := -1
	for i, ins := range b.Instrs {
		if ins == at {
			idx = i
			break
		}
	}
	walk(b, idx-1)
	return defs, entry
}

func (o *Origins) countStores(a *ssa.Alloc) int {
	n := 0
	for _, r := range *a.Referrers() {
		if s, ok := r.(*ssa.Store); ok && s.Addr == a {
			n++
		}
	}
	return n
}

func (o *Origins) hasAnyFieldStore(base *ssa.Alloc) bool {
	for _, r := range *base.Referrers() {
		if fa, ok := r.(*ssa.FieldAddr); ok {
			for _, rr := range *fa.Referrers() {
				if s, ok := rr.(*ssa.Store); ok && s.Addr == fa {
					return true
				}
			}
		}
	}
	return false
}

func (o *Origins) hasFieldStore(base *ssa.Alloc, field int) bool {
	for _, r := range *base.Referrers() {
		if fa, ok := r.(*ssa.FieldAddr); ok && fa.Field == field {
			for _, rr := range *fa.Referrers() {
				if s, ok := rr.(*ssa.Store); ok && s.Addr == fa {
					return true
				}
			}
		}
	}
	return false
}

// dominatingFieldStore: if exactly one store to the same field (of the same struct type)
// exists in the function, its base has the same origin, and it dominates the load, forward it.
func (o *Origins) dominatingFieldStore(ld *ssa.UnOp, a *ssa.FieldAddr) *ssa.Store {
	k := fieldKey{derefStruct(a.X.Type()), a.Field}
	sts := o.fieldStores[k]
	if len(sts) != 1 {
		return nil
	}
	st := sts[0]
	sfa := st.Addr.(*ssa.FieldAddr)
	if sfa.X != a.X {
		return nil
	}
	if InstrDominates(st, ld) {
		return st
	}
	return nil
}

// InstrDominates reports whether instruction a is executed before b on every path to b.
func InstrDominates(a, b ssa.Instruction) bool {
	if a.Parent() != b.Parent() {
		// one of them sits in a registered helper: compare at the level of the common subject function
		for _, top := range []*ssa.Function{a.Parent(), b.Parent()} {
			_ = top
		}
		if h, ok := helpers[a.Parent()]; ok && h.HF.MustPassOnSuccess(a.Block()) {
			return InstrDominates(h.Outer, b)
		}
		if h, ok := helpers[b.Parent()]; ok {
			if h.Outer == a {
				return true
			}
			return InstrDominates(a, h.Outer)
		}
		return false
	}
	ba, bb := a.Block(), b.Block()
	if ba == bb {
		for _, ins := range ba.Instrs {
			if ins == a {
				return true
			}
			if ins == b {
				return false
			}
		}
		return false
	}
	return ba.Dominates(bb)
}

// FieldNameOf returns the name of the field addressed by fa.
func FieldNameOf(fa *ssa.FieldAddr) string { return fieldName(fa.X.Type(), fa.Field) }

var funcAliasMemo = map[*ssa.Global]*ssa.Function{}

// FuncAlias resolves a call through a package-level function variable that is assigned exactly once, in its
// package initialiser, to a function (`var ZeroInt = sdkmath.ZeroInt`): the call is to that function.
func FuncAlias(v ssa.Value) *ssa.Function {
	u, ok := v.(*ssa.UnOp)
	if !ok {
		return nil
	}
	g, ok := u.X.(*ssa.Global)
	if !ok || g.Pkg == nil {
		return nil
	}
	if f, ok := funcAliasMemo[g]; ok {
		return f
	}
	var found *ssa.Function
	n := 0
	if initFn := g.Pkg.Func("init"); initFn != nil {
		for _, b := range initFn.Blocks {
			for _, ins := range b.Instrs {
				if st, ok := ins.(*ssa.Store); ok && st.Addr == g {
					n++
					if f, ok := st.Val.(*ssa.Function); ok {
						found = f
					}
				}
			}
		}
	}
	if n != 1 {
		found = nil
	}
	// the variable must not be assigned anywhere else in its package
	if found != nil {
		for _, m := range g.Pkg.Members {
			fn, ok := m.(*ssa.Function)
			if !ok || fn.Name() == "init" {
				continue
			}
			for _, b := range fn.Blocks {
				for _, ins := range b.Instrs {
					if st, ok := ins.(*ssa.Store); ok && st.Addr == g {
						found = nil
					}
				}
			}
		}
	}
	funcAliasMemo[g] = found
	return found
}

// distinctObjects: two pointer values that certainly (by convention) denote different objects: one of them is
// the fresh result of a call or allocation in this function and the other is a parameter / receiver / captured
// variable, or both are results of different calls. (Assumption: a callee does not return a pointer that aliases
// the caller's receiver; stated in DESIGN.md.)
func distinctObjects(a, b ssa.Value) bool {
	fresh := func(v ssa.Value) bool {
		switch x := v.(type) {
		case *ssa.Call, *ssa.Alloc, *ssa.MakeSlice, *ssa.MakeMap:
			return true
		case *ssa.Extract:
			_, ok := x.Tuple.(*ssa.Call)
			return ok
		}
		return false
	}
	named := func(v ssa.Value) bool {
		switch v.(type) {
		case *ssa.Parameter, *ssa.FreeVar:
			return true
		}
		return false
	}
	if a == b {
		return false
	}
	// field/element paths rooted in different local variables, or in a local and a non-local
	ra, rb := addrRoot(a), addrRoot(b)
	if ra != rb {
		_, la := ra.(*ssa.Alloc)
		_, lb := rb.(*ssa.Alloc)
		if la && lb {
			return true
		}
		if (la || lb) && (ra != a || rb != b) {
			return true
		}
	}
	if ra != rb && (fresh(ra) && (named(rb) || fresh(rb)) || fresh(rb) && named(ra)) {
		return true
	}
	return fresh(a) && (named(b) || fresh(b)) || fresh(b) && named(a)
}

func addrRoot(v ssa.Value) ssa.Value {
	for {
		switch x := v.(type) {
		case *ssa.FieldAddr:
			v = x.X
		case *ssa.IndexAddr:
			v = x.X
		default:
			return v
		}
	}
}

// compositeLiteral: local struct with no whole-variable store whose fields are each assigned at most once:
// with:F1(with:F2(zero:T(), v2), v1).
func (o *Origins) compositeLiteral(a *ssa.Alloc, depth int) *Term {
	if _, ok := derefStruct(a.Type()).Underlying().(*types.Struct); !ok {
		return nil
	}
	if o.countStores(a) != 0 {
		return nil
	}
	type fs struct {
		f  int
		st *ssa.Store
	}
	var stores []fs
	for _, r := range *a.Referrers() {
		fa, ok := r.(*ssa.FieldAddr)
		if !ok {
			continue
		}
		n := 0
		for _, rr := range *fa.Referrers() {
			if st, ok := rr.(*ssa.Store); ok && st.Addr == fa {
				n++
				stores = append(stores, fs{fa.Field, st})
			}
		}
		if n > 1 {
			return nil
		}
	}
	if len(stores) == 0 {
		return nil
	}
	seen := map[int]bool{}
	for _, s := range stores {
		if seen[s.f] {
			return nil
		}
		seen[s.f] = true
	}
	sort.Slice(stores, func(i, j int) bool { return stores[i].f < stores[j].f })
	res := &Term{Op: "call", Name: "zero:" + typeName(a.Type())}
	for _, s := range stores {
		res = &Term{Op: "call", Name: "with:" + fieldName(a.Type(), s.f), Args: []*Term{res, o.of(s.st.Val, depth+2)}}
	}
	return res
}

var parentOrigins = map[*ssa.Function]*Origins{}

// resolveFreeVar: the value of a captured variable, when the enclosing function assigns it exactly once (before the
// closure is made) and nothing else writes it: the origin term of that value in the enclosing function, with the
// enclosing function's own parameters printed as captured ("^p"). The term keeps the captured name as an alias, so a
// pattern may say either. Returns nil when the variable is a parameter of the enclosing function, is written more than
// once, or cannot be resolved.
func (o *Origins) resolveFreeVar(fv *ssa.FreeVar, depth int) *Term {
	if depth > maxDepth-4 {
		return nil
	}
	parent := o.Fn.Parent()
	if parent == nil {
		return nil
	}
	idx := -1
	for i, f := range o.Fn.FreeVars {
		if f == fv {
			idx = i
		}
	}
	if idx < 0 {
		return nil
	}
	var mc *ssa.MakeClosure
	for _, b := range parent.Blocks {
		for _, ins := range b.Instrs {
			if m, ok := ins.(*ssa.MakeClosure); ok && m.Fn == o.Fn {
				if mc != nil {
					return nil
				}
				mc = m
			}
		}
	}
	if mc == nil || idx >= len(mc.Bindings) {
		return nil
	}
	al, ok := mc.Bindings[idx].(*ssa.Alloc)
	if !ok {
		return nil
	}
	var st *ssa.Store
	for _, r := range *al.Referrers() {
		switch x := r.(type) {
		case *ssa.Store:
			if x.Addr != al || st != nil {
				return nil
			}
			st = x
		case *ssa.MakeClosure, *ssa.UnOp, *ssa.DebugRef:
		default:
			return nil // address escapes otherwise
		}
	}
	if st == nil || !InstrDominates(st, mc) {
		return nil
	}
	if _, isParam := st.Val.(*ssa.Parameter); isParam {
		return nil // a captured parameter keeps its plain captured name
	}
	// no closure writes the variable
	for _, an := range parent.AnonFuncs {
		for i, f := range an.FreeVars {
			_ = i
			if f.Name() != fv.Name() {
				continue
			}
			for _, r := range *f.Referrers() {
				if s, ok := r.(*ssa.Store); ok && s.Addr == f {
					return nil
				}
			}
		}
	}
	po := parentOrigins[parent]
	if po == nil {
		po = NewOrigins(parent)
		parentOrigins[parent] = po
	}
	t := po.Of(st.Val)
	if t == nil || t.Op == "opaque" {
		return nil
	}
	c := captureRename(t)
	c.Alias = "^" + fv.Name()
	return c
}

// captureRename: a deep copy of t in which the enclosing function's parameters are printed as captured variables.
func captureRename(t *Term) *Term {
	if t == nil {
		return nil
	}
	c := *t
	if c.Op == "param" && !strings.HasPrefix(c.Name, "^") && !strings.HasPrefix(c.Name, "#") {
		c.Name = "^" + c.Name
	}
	if len(t.Args) > 0 {
		c.Args = make([]*Term, len(t.Args))
		for i, a := range t.Args {
			c.Args[i] = captureRename(a)
		}
	}
	return &c
}

// FuncKey identifies a top-level function or method independently of short-name aliasing: full package path + name.
func FuncKey(f *ssa.Function) string {
	pk := ""
	if f.Pkg != nil {
		pk = f.Pkg.Pkg.Path()
	}
	if recv := f.Signature.Recv(); recv != nil {
		t := recv.Type()
		if p, ok := t.(*types.Pointer); ok {
			t = p.Elem()
		}
		if n, ok := t.(*types.Named); ok {
			return pk + "." + n.Obj().Name() + "." + f.Name()
		}
	}
	return pk + "." + f.Name()
}

//go:embed inventory.txt
var inventoryText string

var inventory map[string]bool

// ExtraNew lets the self-test declare fixture functions as "new".
var ExtraNew func(*ssa.Function) bool

// IsNewFunc: f is a top-level osmosis function that is not in the committed function inventory — it was introduced
// by an edit made after the rule instances were written. Such helpers are transparent to the rules.
func IsNewFunc(f *ssa.Function) bool {
	if f == nil || f.Parent() != nil || f.Blocks == nil || f.Pkg == nil {
		return false
	}
	if ExtraNew != nil && ExtraNew(f) {
		return true
	}
	if !strings.HasPrefix(f.Pkg.Pkg.Path(), "github.com/osmosis-labs/osmosis") {
		return false
	}
	if inventory == nil {
		inventory = map[string]bool{}
		for _, l := range strings.Split(inventoryText, "\n") {
			if l = strings.TrimSpace(l); l != "" {
				inventory[l] = true
			}
		}
	}
	return !inventory[FuncKey(f)]
}

// inlineNew: the value(s) returned by a call to a new helper, as origin terms of the helper's body with its
// parameters replaced by the argument terms. Several return statements become a join. nil when not applicable.
func (o *Origins) inlineNew(f *ssa.Function, c *ssa.CallCommon, depth int) *Term {
	if !IsNewFunc(f) || depth > maxDepth-8 || o.inlining[f] || f == o.Fn {
		return nil
	}
	if f.Signature.Results().Len() == 0 || len(c.Args) != len(f.Params) {
		return nil
	}
	sub := NewOrigins(f)
	sub.ParamSubst = map[*ssa.Parameter]*Term{}
	for i, p := range f.Params {
		sub.ParamSubst[p] = o.of(c.Args[i], depth+1)
	}
	sub.inlining = map[*ssa.Function]bool{f: true, o.Fn: true}
	for k := range o.inlining {
		sub.inlining[k] = true
	}
	nres := f.Signature.Results().Len()
	alts := make([][]*Term, nres)
	for _, b := range f.Blocks {
		ret, ok := b.Instrs[len(b.Instrs)-1].(*ssa.Return)
		if !ok || len(ret.Results) != nres {
			continue
		}
		for i, r := range ret.Results {
			t := sub.Of(r)
			dup := false
			for _, a := range alts[i] {
				if a.String() == t.String() {
					dup = true
				}
			}
			if !dup {
				alts[i] = append(alts[i], t)
			}
		}
	}
	res := make([]*Term, nres)
	for i := range alts {
		switch len(alts[i]) {
		case 0:
			return nil
		case 1:
			res[i] = alts[i][0]
		default:
			if len(alts[i]) > 8 {
				return nil
			}
			res[i] = &Term{Op: "phi", Name: "phi", Args: alts[i]}
		}
	}
	if nres == 1 {
		return res[0]
	}
	return &Term{Op: "call", Name: "tuple:", Args: res}
}
