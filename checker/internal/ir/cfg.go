package ir

import (
	"go/token"
	"go/types"
	"strings"

	"golang.org/x/tools/go/ssa"
)

// ExitKind classifies a terminating instruction.
type ExitKind int

const (
	NotExit ExitKind = iota
	SuccessExit
	ErrorExit
	PanicExit
	MaybeExit // returns an error value that may or may not be nil (e.g. `return f()`)
)

var errorType = types.Universe.Lookup("error").Type()

func isErrorType(t types.Type) bool { return types.Identical(t, errorType) }

// Func bundles per-function facts.
type Func struct {
	Fn  *ssa.Function
	Org *Origins
	// cached
	exitKind   map[*ssa.BasicBlock]ExitKind
	canSucceed map[*ssa.BasicBlock]bool
}

func NewFunc(fn *ssa.Function) *Func {
	return &Func{Fn: fn, Org: NewOrigins(fn)}
}

func (f *Func) Term(v ssa.Value) *Term {
	if fn := valueFn(v); fn != nil && fn != f.Fn {
		if g := f.ctxFn(fn); g != f {
			return g.Org.Of(v)
		}
	}
	return f.Org.Of(v)
}

var errCtorPkgs = map[string]bool{"errors": true, "fmt": true, "cosmossdk.io/errors": true, "google.golang.org/grpc/status": true, "github.com/pkg/errors": true}

// nonNilError reports whether v is certainly a non-nil error at the point of a return in block b.
func (f *Func) nonNilError(v ssa.Value, b *ssa.BasicBlock, depth int) (nonNil bool, isNil bool) {
	if depth > 6 {
		return false, false
	}
	switch x := v.(type) {
	case *ssa.Const:
		return false, x.IsNil()
	case *ssa.MakeInterface:
		return true, false
	case *ssa.UnOp: // load of a sentinel error variable
		if g, ok := x.X.(*ssa.Global); ok {
			_ = g
			return true, false
		}
		// load of a local (named result spilled because of defer/recover or a closure): look through the
		// stores that reach the load
		if a, ok := x.X.(*ssa.Alloc); ok {
			f.Org.build()
			defs, entry := f.Org.reachingDefs(a, -1, x)
			if len(defs) == 0 || len(defs) > 8 {
				return false, entry && len(defs) == 0
			}
			allNonNil, allNil := !entry, true
			for _, st := range defs {
				nn, n := f.nonNilError(st.Val, b, depth+1)
				allNonNil = allNonNil && nn
				allNil = allNil && n
			}
			return allNonNil, allNil
		}
	case *ssa.Call:
		if callee := x.Common().StaticCallee(); callee != nil {
			pk := ""
			if callee.Pkg != nil {
				pk = callee.Pkg.Pkg.Path()
			} else if callee.Object() != nil && callee.Object().Pkg() != nil {
				pk = callee.Object().Pkg().Path()
			}
			if errCtorPkgs[pk] {
				return true, false
			}
			// osmosis error constructors: functions whose every return is a non-nil error
			if callee.Blocks != nil && isErrCtor(callee) {
				return true, false
			}
		}
	case *ssa.Phi:
		allNonNil, allNil := true, true
		for _, e := range x.Edges {
			nn, n := f.nonNilError(e, b, depth+1)
			allNonNil = allNonNil && nn
			allNil = allNil && n
		}
		if allNonNil || allNil {
			return allNonNil, allNil
		}
		// a join of error values that is itself tested (`if err != nil` after an if/else assigning err): fall through
	}
	// guarded by `v != nil` on a dominating edge?
	for _, g := range f.GuardsAt(b) {
		if bo, ok := g.Cond.(*ssa.BinOp); ok {
			isNilCmp := func(a, c ssa.Value) bool {
				k, ok := c.(*ssa.Const)
				return ok && k.IsNil() && f.sameValue(a, v)
			}
			if isNilCmp(bo.X, bo.Y) || isNilCmp(bo.Y, bo.X) {
				if (bo.Op.String() == "!=" && g.Polarity) || (bo.Op.String() == "==" && !g.Polarity) {
					return true, false
				}
				if (bo.Op.String() == "==" && g.Polarity) || (bo.Op.String() == "!=" && !g.Polarity) {
					return false, true
				}
			}
		}
	}
	return false, false
}

var errCtorMemo = map[*ssa.Function]int{}

func isErrCtor(fn *ssa.Function) bool {
	if r, ok := errCtorMemo[fn]; ok {
		return r == 1
	}
	errCtorMemo[fn] = 0
	res := fn.Signature.Results()
	if res.Len() != 1 || !isErrorType(res.At(0).Type()) {
		return false
	}
	ff := NewFunc(fn)
	for _, b := range fn.Blocks {
		if ret, ok := b.Instrs[len(b.Instrs)-1].(*ssa.Return); ok {
			nn, _ := ff.nonNilError(ret.Results[0], b, 3)
			if !nn {
				return false
			}
		}
	}
	errCtorMemo[fn] = 1
	return true
}

// ExitKindOf classifies the terminator of b.
func (f *Func) ExitKindOf(b *ssa.BasicBlock) ExitKind {
	if g := f.ctxFn(b.Parent()); g != f {
		return g.ExitKindOf(b)
	}
	if f.exitKind == nil {
		f.exitKind = map[*ssa.BasicBlock]ExitKind{}
	}
	if k, ok := f.exitKind[b]; ok {
		return k
	}
	k := f.exitKindOf(b)
	f.exitKind[b] = k
	return k
}

func (f *Func) exitKindOf(b *ssa.BasicBlock) ExitKind {
	if len(b.Instrs) == 0 {
		return NotExit
	}
	// the recover block: reached only after a deferred handler recovered a panic. If a deferred closure of the
	// function assigns the error result, that exit reports the panic as an error.
	if b == f.Fn.Recover {
		if _, ok := b.Instrs[len(b.Instrs)-1].(*ssa.Return); ok {
			for _, an := range f.Fn.AnonFuncs {
				for _, ab := range an.Blocks {
					for _, ins := range ab.Instrs {
						if st, ok := ins.(*ssa.Store); ok {
							if fv, ok := st.Addr.(*ssa.FreeVar); ok {
								if p, ok := fv.Type().(*types.Pointer); ok && isErrorType(p.Elem()) {
									if nn, _ := NewFunc(an).nonNilError(st.Val, ab, 2); nn {
										return ErrorExit
									}
								}
							}
						}
					}
				}
			}
			return MaybeExit
		}
	}
	switch x := b.Instrs[len(b.Instrs)-1].(type) {
	case *ssa.Panic:
		return PanicExit
	case *ssa.Return:
		for _, r := range x.Results {
			if isErrorType(r.Type()) {
				nn, isNil := f.nonNilError(r, b, 0)
				if nn {
					return ErrorExit
				}
				if isNil {
					return SuccessExit
				}
				return MaybeExit
			}
		}
		return SuccessExit
	}
	// a block ending in a call to a function that never returns (e.g. panic wrappers) still
	// has successors in go/ssa; not treated specially.
	return NotExit
}

// CanSucceed reports whether a success (or maybe) exit is reachable from b.
func (f *Func) CanSucceed(b *ssa.BasicBlock) bool {
	if g := f.ctxFn(b.Parent()); g != f {
		return g.CanSucceed(b)
	}
	if f.canSucceed == nil {
		f.canSucceed = map[*ssa.BasicBlock]bool{}
		// reverse reachability from success/maybe exits
		var work []*ssa.BasicBlock
		for _, bb := range f.Fn.Blocks {
			k := f.ExitKindOf(bb)
			if k == SuccessExit || k == MaybeExit {
				f.canSucceed[bb] = true
				work = append(work, bb)
			}
		}
		for len(work) > 0 {
			bb := work[len(work)-1]
			work = work[:len(work)-1]
			for _, p := range bb.Preds {
				if !f.canSucceed[p] {
					f.canSucceed[p] = true
					work = append(work, p)
				}
			}
		}
	}
	return f.canSucceed[b]
}

// Guard is a branch condition known to have a given truth value in a block.
type Guard struct {
	Cond     ssa.Value
	Polarity bool // true: condition holds in the block
	If       *ssa.If
}

var guardMemo = map[*ssa.BasicBlock][]Guard{}

// GuardsAt returns the conditions established on every path to b by dominating branches.
func (f *Func) GuardsAt(b *ssa.BasicBlock) []Guard {
	if g := f.ctxFn(b.Parent()); g != f {
		h := HelperOf(f, b.Parent())
		return append(append([]Guard{}, f.GuardsAt(h.Outer.Block())...), g.GuardsAt(b)...)
	}
	if g, ok := guardMemo[b]; ok {
		return g
	}
	var out []Guard
	for d := b; d != nil; d = d.Idom() {
		id := d.Idom()
		if id == nil {
			break
		}
		// does an edge id->d exist that is d's only entry?
		if iff, ok := id.Instrs[len(id.Instrs)-1].(*ssa.If); ok && len(d.Preds) == 1 && d.Preds[0] == id {
			if id.Succs[0] == d && id.Succs[1] != d {
				out = append(out, Guard{iff.Cond, true, iff})
			} else if id.Succs[1] == d && id.Succs[0] != d {
				out = append(out, Guard{iff.Cond, false, iff})
			}
		}
	}
	// additionally: a branch `if c {fail}` where the failing successor cannot succeed and the other
	// successor is not solely-entered (merge of several guards: `if a {return err}; if b {return err}; X`)
	// is covered because X's block is dominated by the non-failing successor chain. The case
	// `if c { return err }` followed by a join block with other preds is handled here:
	for d := b; d != nil; d = d.Idom() {
		id := d.Idom()
		if id == nil {
			break
		}
		iff, ok := id.Instrs[len(id.Instrs)-1].(*ssa.If)
		if !ok {
			continue
		}
		if len(d.Preds) == 1 && d.Preds[0] == id {
			continue // handled above
		}
		// d has several preds; if one successor of id cannot reach d at all, then reaching d from id
		// went through the other successor.
		s0, s1 := id.Succs[0], id.Succs[1]
		r0, r1 := reaches(s0, d, id), reaches(s1, d, id)
		if r0 && !r1 {
			out = append(out, Guard{iff.Cond, true, iff})
		} else if r1 && !r0 {
			out = append(out, Guard{iff.Cond, false, iff})
		}
	}
	guardMemo[b] = out
	return out
}

// reaches: is target reachable from start without passing through `avoid`?
func reaches(start, target, avoid *ssa.BasicBlock) bool {
	if start == target {
		return true
	}
	seen := map[*ssa.BasicBlock]bool{start: true, avoid: true}
	work := []*ssa.BasicBlock{start}
	for len(work) > 0 {
		b := work[len(work)-1]
		work = work[:len(work)-1]
		for _, s := range b.Succs {
			if s == target {
				return true
			}
			if !seen[s] {
				seen[s] = true
				work = append(work, s)
			}
		}
	}
	return false
}

// MustPassOnSuccess reports whether every path from the entry to a success/maybe exit passes
// through block x (ignoring paths that end in error or panic exits).
func (f *Func) MustPassOnSuccess(x *ssa.BasicBlock) bool {
	if g := f.ctxFn(x.Parent()); g != f {
		h := HelperOf(f, x.Parent())
		return g.MustPassOnSuccess(x) && f.MustPassOnSuccess(h.Outer.Block())
	}
	entry := f.Fn.Blocks[0]
	if entry == x {
		return true
	}
	seen := map[*ssa.BasicBlock]bool{entry: true, x: true}
	work := []*ssa.BasicBlock{entry}
	for len(work) > 0 {
		b := work[len(work)-1]
		work = work[:len(work)-1]
		k := f.ExitKindOf(b)
		if k == SuccessExit || k == MaybeExit {
			return false
		}
		for _, s := range FeasibleSuccs(b) {
			if !seen[s] {
				seen[s] = true
				work = append(work, s)
			}
		}
	}
	return true
}

// Calls returns every call instruction (call, defer, go) of the function in block order.
func (f *Func) Calls() []ssa.CallInstruction {
	var out []ssa.CallInstruction
	for _, b := range f.Fn.Blocks {
		for _, ins := range b.Instrs {
			if c, ok := ins.(ssa.CallInstruction); ok {
				out = append(out, c)
			}
		}
	}
	return out
}

// CalleeName is the canonical name of the callee of a call instruction (static, invoke or dyn).
func (f *Func) CalleeName(c ssa.CallInstruction) string {
	if g := f.ctxFn(c.Parent()); g != f {
		return g.CalleeName(c)
	}
	cc := c.Common()
	if cc.IsInvoke() {
		t := f.Org.callTerm(cc, maxDepth) // only the name is needed
		return t.Name
	}
	if fn := cc.StaticCallee(); fn != nil {
		return FuncName(fn)
	}
	if b, ok := cc.Value.(*ssa.Builtin); ok {
		return b.Name()
	}
	if fn := FuncAlias(cc.Value); fn != nil {
		return FuncName(fn)
	}
	return "dyn"
}

// CallArgs returns receiver+arguments as terms (receiver first for invoke calls, as in Term form).
func (f *Func) CallArgs(c ssa.CallInstruction) []*Term {
	if g := f.ctxFn(c.Parent()); g != f {
		return g.CallArgs(c)
	}
	cc := c.Common()
	var vs []ssa.Value
	if cc.IsInvoke() {
		vs = append(vs, cc.Value)
	} else if cc.StaticCallee() == nil && FuncAlias(cc.Value) == nil {
		if _, ok := cc.Value.(*ssa.Builtin); !ok {
			vs = append(vs, cc.Value)
		}
	}
	vs = append(vs, cc.Args...)
	out := make([]*Term, len(vs))
	for i, v := range vs {
		out[i] = f.Term(v)
	}
	return spliceVariadic(cc, out)
}

// CallsTo returns the call instructions whose canonical callee name matches one of names
// (exact, or suffix match when the name starts with "*.").
func (f *Func) CallsTo(names ...string) []ssa.CallInstruction {
	var out []ssa.CallInstruction
	for _, c := range f.Calls() {
		n := f.CalleeName(c)
		for _, want := range names {
			if NameMatch(want, n) {
				out = append(out, c)
				break
			}
		}
	}
	return out
}

func NameMatch(want, have string) bool {
	if want == have {
		return true
	}
	if strings.HasPrefix(want, "*.") {
		return strings.HasSuffix(have, want[1:])
	}
	return false
}

// sameValue: a denotes the value v: identical, or a load of a local whose only reaching definition stores v.
func (f *Func) sameValue(a, v ssa.Value) bool {
	if a == v {
		return true
	}
	ld, ok := a.(*ssa.UnOp)
	if !ok {
		return false
	}
	al, ok := ld.X.(*ssa.Alloc)
	if !ok {
		return false
	}
	f.Org.build()
	defs, entry := f.Org.reachingDefs(al, -1, ld)
	return !entry && len(defs) == 1 && defs[0].Val == v
}

// FeasibleSuccs returns the successors of b that are not ruled out by a dominating branch on the very same
// SSA condition value (if c {..}; if c {..}): when the edge d→t of an earlier `if c` dominates b, c is known at b.
func FeasibleSuccs(b *ssa.BasicBlock) []*ssa.BasicBlock {
	iff, ok := b.Instrs[len(b.Instrs)-1].(*ssa.If)
	if !ok || len(b.Succs) != 2 {
		return b.Succs
	}
	cond, neg := stripNot(iff.Cond)
	for d := b.Idom(); d != nil; d = d.Idom() {
		dif, ok := d.Instrs[len(d.Instrs)-1].(*ssa.If)
		if !ok || len(d.Succs) != 2 || d.Succs[0] == d.Succs[1] {
			continue
		}
		dc, dneg := stripNot(dif.Cond)
		if dc != cond {
			continue
		}
		for i, s := range d.Succs {
			if len(s.Preds) == 1 && (s == b || s.Dominates(b)) {
				// on this edge dc's truth is: i==0 → dif.Cond true
				val := i == 0
				if dneg {
					val = !val
				}
				if neg {
					val = !val
				}
				if val {
					return b.Succs[:1]
				}
				return b.Succs[1:]
			}
		}
	}
	return b.Succs
}

func stripNot(v ssa.Value) (ssa.Value, bool) {
	neg := false
	for {
		u, ok := v.(*ssa.UnOp)
		if !ok || u.Op != token.NOT {
			return v, neg
		}
		v = u.X
		neg = !neg
	}
}
