package ir

import "golang.org/x/tools/go/ssa"

// Virtual inlining of new helpers at the fact level.
//
// When a subject function F calls, exactly once, a function H that is not in the function inventory (code that was
// moved out of F by a later edit), the rules treat H's call sites, branches and return statements as part of F: H is
// registered with the Func that describes it (parameters replaced by F's argument terms) and with the call
// instruction in F. Facts about an instruction or block of H are then answered by combining H's own facts with the
// facts at that call.

// HelperCtx describes one registered helper.
type HelperCtx struct {
	HF    *Func               // the helper, with ParamSubst from the call site
	Outer ssa.CallInstruction // the call to the helper (in Top, or in another registered helper)
	Top   *Func               // the subject function the helper belongs to
}

// helpers: first registration per helper function (used for position mapping, which does not depend on the subject's
// wrapper); helpersByTop: registrations per subject wrapper (several properties wrap the same function).
var helpers = map[*ssa.Function]*HelperCtx{}
var helpersByTop = map[*Func]map[*ssa.Function]*HelperCtx{}

// RegisterHelpers registers the new functions called exactly once by f (transitively, two levels).
func RegisterHelpers(f *Func) {
	registerHelpers(f, f, 0)
}

func registerHelpers(top, cur *Func, depth int) {
	if depth > 2 {
		return
	}
	count := map[*ssa.Function]int{}
	site := map[*ssa.Function]ssa.CallInstruction{}
	for _, c := range cur.Calls() {
		g := c.Common().StaticCallee()
		if g != nil && IsNewFunc(g) && g != top.Fn && g != cur.Fn {
			count[g]++
			site[g] = c
		}
	}
	for g, n := range count {
		if n != 1 {
			continue
		}
		if helpersByTop[top] == nil {
			helpersByTop[top] = map[*ssa.Function]*HelperCtx{}
		}
		if _, ok := helpersByTop[top][g]; ok {
			continue
		}
		call := site[g]
		if len(call.Common().Args) != len(g.Params) {
			continue
		}
		hf := NewFunc(g)
		hf.Org.ParamSubst = map[*ssa.Parameter]*Term{}
		for i, p := range g.Params {
			hf.Org.ParamSubst[p] = cur.Term(call.Common().Args[i])
		}
		h := &HelperCtx{HF: hf, Outer: call, Top: top}
		helpersByTop[top][g] = h
		if _, ok := helpers[g]; !ok {
			helpers[g] = h
		}
		// the helper's own Func answers questions about helpers nested in it
		if helpersByTop[hf] == nil {
			helpersByTop[hf] = map[*ssa.Function]*HelperCtx{}
		}
		registerHelpers(top, hf, depth+1)
	}
}

// HelperOf returns the registration of fn as a helper of top (nil if none).
func HelperOf(top *Func, fn *ssa.Function) *HelperCtx {
	if m := helpersByTop[top]; m != nil {
		return m[fn]
	}
	return nil
}

// HelpersOf lists the helpers registered for top (deterministic order: by position).
func HelpersOf(top *Func) []*HelperCtx {
	var out []*HelperCtx
	for _, h := range helpersByTop[top] {
		out = append(out, h)
	}
	for i := 0; i < len(out); i++ {
		for j := i + 1; j < len(out); j++ {
			if out[j].HF.Fn.Pos() < out[i].HF.Fn.Pos() {
				out[i], out[j] = out[j], out[i]
			}
		}
	}
	return out
}

// ctxFn: the Func that describes the function owning an instruction/block of a registered helper of f (f itself
// otherwise).
func (f *Func) ctxFn(fn *ssa.Function) *Func {
	if fn == nil || fn == f.Fn {
		return f
	}
	if h := HelperOf(f, fn); h != nil {
		return h.HF
	}
	return f
}

// OuterInstr maps an instruction of a registered helper of f to the call instruction in f itself that (transitively)
// reaches it; instructions of f map to themselves.
func (f *Func) OuterInstr(ins ssa.Instruction) ssa.Instruction {
	for i := 0; i < 4 && ins != nil && ins.Parent() != f.Fn; i++ {
		h := HelperOf(f, ins.Parent())
		if h == nil {
			return ins
		}
		ins = h.Outer
	}
	return ins
}

// OuterBlock maps a block of a registered helper to the block of f holding the call that reaches it.
func (f *Func) OuterBlock(b *ssa.BasicBlock) *ssa.BasicBlock {
	for i := 0; i < 4 && b != nil && b.Parent() != f.Fn; i++ {
		h := HelperOf(f, b.Parent())
		if h == nil {
			return b
		}
		b = h.Outer.Block()
	}
	return b
}

func valueFn(v ssa.Value) *ssa.Function {
	switch x := v.(type) {
	case ssa.Instruction:
		return x.Parent()
	case *ssa.Parameter:
		return x.Parent()
	case *ssa.FreeVar:
		return x.Parent()
	}
	return nil
}

// HelperByFn returns the registration of fn (nil if it is not a registered helper).
func HelperByFn(fn *ssa.Function) *HelperCtx { return helpers[fn] }
