// Package ir provides the program facts every rule is written against: origin terms of
// SSA values, guard facts, exit classification, dominance helpers and the call graph.
package ir

import (
	"fmt"
	"strconv"
	"strings"

	"golang.org/x/tools/go/ssa"
)

// Term is the bounded-depth origin of an SSA value.
//
// Canonical text form (also the pattern syntax):
//
//	ctx, lock                 parameter / receiver / captured variable (by name)
//	42, "uosmo", true, nil    constant
//	@pkg.Name                 package-level variable
//	pkg.F(a,b)                static call;  pkg.T.M(recv,a) method call;  pkg.I.M(recv,a) interface call
//	t#1                       component of a tuple
//	x.Field                   struct field (through pointers too)
//	lt(a,b) sub(a,b) not(a)   operators, prefix form
//	phi(a,b)                  join of control-flow alternatives
//	idx(x,i) lookup(m,k) len(x) append(x,y) slice(x) closure:name(binds...) new:T
//	?why                      opaque (never matches a pattern except the wildcard)
type Term struct {
	Op   string // param const global call extract field op phi opaque
	Name string
	Args []*Term
	Idx  int
	V    ssa.Value // the value this term describes (nil inside patterns)
	// Alias: for a closure's captured variable that was resolved to the value bound in the enclosing function, the
	// name a pattern may also use for it ("^name").
	Alias string
}

func (t *Term) String() string {
	var sb strings.Builder
	t.write(&sb)
	return sb.String()
}

func (t *Term) write(sb *strings.Builder) {
	switch t.Op {
	case "param", "const":
		sb.WriteString(t.Name)
	case "global":
		sb.WriteString("@" + t.Name)
	case "opaque":
		sb.WriteString("?" + t.Name)
	case "wild":
		sb.WriteString("_")
	case "var":
		sb.WriteString("$" + t.Name)
	case "extract":
		t.Args[0].write(sb)
		sb.WriteString("#" + strconv.Itoa(t.Idx))
	case "field":
		t.Args[0].write(sb)
		sb.WriteString("." + t.Name)
	case "call", "op", "phi":
		sb.WriteString(t.Name)
		sb.WriteString("(")
		for i, a := range t.Args {
			if i > 0 {
				sb.WriteString(",")
			}
			a.write(sb)
		}
		sb.WriteString(")")
	case "rest":
		sb.WriteString("...")
	default:
		sb.WriteString("?" + t.Op)
	}
}

// IsOpaque reports whether the term contains an opaque leaf.
func (t *Term) HasOpaque() bool {
	if t.Op == "opaque" {
		return true
	}
	for _, a := range t.Args {
		if a.HasOpaque() {
			return true
		}
	}
	return false
}

// Walk visits t and all sub-terms.
func (t *Term) Walk(f func(*Term) bool) {
	if !f(t) {
		return
	}
	for _, a := range t.Args {
		a.Walk(f)
	}
}

// Contains reports whether some sub-term matches pattern p.
func (t *Term) Contains(p *Term) bool {
	found := false
	t.Walk(func(s *Term) bool {
		if found {
			return false
		}
		if Match(p, s, map[string]*Term{}) {
			found = true
			return false
		}
		return true
	})
	return found
}

// ---------------------------------------------------------------------------
// patterns

// ParsePattern parses the canonical text form extended with
//
//	_        any term
//	$x       any term, the same one at every occurrence of $x
//	...      (last argument) any remaining arguments
//	a|b      alternatives at top level are handled by MatchAny
func ParsePattern(s string) (*Term, error) {
	p := &parser{s: s}
	t, err := p.term()
	if err != nil {
		return nil, fmt.Errorf("pattern %q: %w", s, err)
	}
	p.ws()
	if p.i != len(p.s) {
		return nil, fmt.Errorf("pattern %q: trailing %q", s, p.s[p.i:])
	}
	return t, nil
}

func MustPattern(s string) *Term {
	t, err := ParsePattern(s)
	if err != nil {
		panic(err)
	}
	return t
}

type parser struct {
	s string
	i int
}

func (p *parser) ws() {
	for p.i < len(p.s) && (p.s[p.i] == ' ' || p.s[p.i] == '\n' || p.s[p.i] == '\t') {
		p.i++
	}
}

func isIdent(c byte) bool {
	return c == '_' || c == '^' || c == '$' || c == '/' || c == '-' || c == ':' || c == '*' || c == '<' || c == '>' || c == '=' || c == '!' || c == '+' || c == '%' || c == '&' ||
		(c >= '0' && c <= '9') || (c >= 'a' && c <= 'z') || (c >= 'A' && c <= 'Z')
}

func (p *parser) ident() string {
	st := p.i
	for p.i < len(p.s) && isIdent(p.s[p.i]) {
		p.i++
	}
	return p.s[st:p.i]
}

func (p *parser) term() (*Term, error) {
	p.ws()
	if p.i >= len(p.s) {
		return nil, fmt.Errorf("unexpected end")
	}
	var t *Term
	c := p.s[p.i]
	switch {
	case c == '"':
		st := p.i
		p.i++
		for p.i < len(p.s) && p.s[p.i] != '"' {
			if p.s[p.i] == '\\' {
				p.i++
			}
			p.i++
		}
		if p.i >= len(p.s) {
			return nil, fmt.Errorf("unterminated string")
		}
		p.i++
		t = &Term{Op: "const", Name: p.s[st:p.i]}
	case c == '$':
		p.i++
		t = &Term{Op: "var", Name: p.ident()}
	case c == '#':
		p.i++
		t = &Term{Op: "param", Name: "#" + p.ident()}
	case c == '?':
		p.i++
		t = &Term{Op: "opaque", Name: p.ident()}
	case c == '.' && strings.HasPrefix(p.s[p.i:], "..."):
		p.i += 3
		return &Term{Op: "rest"}, nil
	case c == '@':
		p.i++
		a := p.ident()
		if p.i >= len(p.s) || p.s[p.i] != '.' {
			return nil, fmt.Errorf("global needs pkg.Name")
		}
		p.i++
		b := p.ident()
		t = &Term{Op: "global", Name: a + "." + b}
	default:
		// dotted identifier; call if followed by '('
		var segs []string
		id := p.ident()
		if id == "" {
			return nil, fmt.Errorf("unexpected %q at %d", string(c), p.i)
		}
		segs = append(segs, id)
		for p.i < len(p.s) && p.s[p.i] == '.' && !strings.HasPrefix(p.s[p.i:], "...") {
			save := p.i
			p.i++
			id := p.ident()
			if id == "" {
				p.i = save
				break
			}
			segs = append(segs, id)
		}
		if p.i < len(p.s) && p.s[p.i] == '(' {
			p.i++
			name := strings.Join(segs, ".")
			var args []*Term
			p.ws()
			if p.i < len(p.s) && p.s[p.i] == ')' {
				p.i++
			} else {
				for {
					a, err := p.term()
					if err != nil {
						return nil, err
					}
					args = append(args, a)
					p.ws()
					if p.i < len(p.s) && p.s[p.i] == ',' {
						p.i++
						continue
					}
					if p.i < len(p.s) && p.s[p.i] == ')' {
						p.i++
						break
					}
					return nil, fmt.Errorf("expected , or ) at %d", p.i)
				}
			}
			op := "call"
			if name == "phi" {
				op = "phi"
			} else if opNames[name] || strings.HasPrefix(name, "binop") || strings.HasPrefix(name, "unop") {
				op = "op"
			}
			t = &Term{Op: op, Name: name, Args: args}
		} else {
			if segs[0] == "_" {
				t = &Term{Op: "wild"}
			} else if isConstIdent(segs[0]) {
				t = &Term{Op: "const", Name: segs[0]}
			} else {
				t = &Term{Op: "param", Name: segs[0]}
			}
			for _, f := range segs[1:] {
				t = &Term{Op: "field", Name: f, Args: []*Term{t}}
			}
		}
	}
	// postfix
	for p.i < len(p.s) {
		if p.s[p.i] == '#' {
			p.i++
			n := p.ident()
			k, err := strconv.Atoi(n)
			if err != nil {
				return nil, fmt.Errorf("bad extract index %q", n)
			}
			t = &Term{Op: "extract", Idx: k, Args: []*Term{t}}
			continue
		}
		if p.s[p.i] == '.' && !strings.HasPrefix(p.s[p.i:], "...") {
			p.i++
			f := p.ident()
			if f == "" {
				return nil, fmt.Errorf("empty field name")
			}
			t = &Term{Op: "field", Name: f, Args: []*Term{t}}
			continue
		}
		break
	}
	return t, nil
}

// opNames: operator and builtin names (terms with Op "op"); every other applied name is a call.
var opNames = map[string]bool{"not": true, "neg": true, "eq": true, "ne": true, "lt": true, "le": true, "gt": true, "ge": true,
	"add": true, "sub": true, "mul": true, "quo": true, "rem": true, "and": true, "or": true, "xor": true, "shl": true, "shr": true, "andnot": true,
	"idx": true, "elem": true, "lookup": true, "slice": true, "list": true, "next": true, "range": true, "each": true, "has": true, "exact": true, "alt": true, "non": true,
	"len": true, "cap": true, "append": true, "recover": true, "copy": true, "delete": true, "min": true, "max": true, "new": true, "make": true,
	"panic": true, "print": true, "println": true, "close": true, "complex": true, "real": true, "imag": true, "clear": true, "ssa:wrapnilchk": true}

func isConstIdent(s string) bool {
	if s == "true" || s == "false" || s == "nil" {
		return true
	}
	if s == "" {
		return false
	}
	c := s[0]
	return (c >= '0' && c <= '9') || (c == '-' && len(s) > 1 && s[1] >= '0' && s[1] <= '9')
}

// Match unifies pattern p with term t.
func Match(p, t *Term, env map[string]*Term) bool {
	if p.Op == "param" && t.Alias != "" && p.Name == t.Alias {
		return true
	}
	switch p.Op {
	case "wild":
		return true
	case "var":
		if b, ok := env[p.Name]; ok {
			return b.String() == t.String()
		}
		env[p.Name] = t
		return true
	}
	// exact(p): the value itself, with no field of it updated on any path (switches off the with:-transparency below)
	if p.Op == "op" && p.Name == "exact" && len(p.Args) == 1 {
		if t.Op == "call" && (strings.HasPrefix(t.Name, "with:") || strings.HasPrefix(t.Name, "maywith:")) {
			return false
		}
		return Match(p.Args[0], t, env)
	}
	// a struct value with individually updated fields, with:F(base, v): a pattern that does not mention the
	// update describes the base value
	if t.Op == "call" && (strings.HasPrefix(t.Name, "with:") || strings.HasPrefix(t.Name, "maywith:")) &&
		!(p.Op == "call" && (strings.HasPrefix(p.Name, "with:") || strings.HasPrefix(p.Name, "maywith:") || p.Name == "_")) && !(p.Op == "op" && p.Name == "has") {
		return Match(p, t.Args[0], env)
	}
	if p.Op == "op" {
		switch p.Name {
		case "each": // every control-flow alternative matches
			if t.Op == "phi" {
				for _, a := range t.Args {
					if !Match(p, a, env) {
						return false
					}
				}
				return true
			}
			return Match(p.Args[0], t, env)
		case "has": // some sub-term matches
			found := false
			t.Walk(func(s *Term) bool {
				if !found && Match(p.Args[0], s, env) {
					found = true
				}
				return !found
			})
			return found
		case "non": // does not match the argument pattern
			return !Match(p.Args[0], t, copyEnv(env))
		case "alt":
			for _, a := range p.Args {
				if Match(a, t, env) {
					return true
				}
			}
			return false
		}
	}
	if t.Op == "opaque" {
		return false
	}
	if p.Op != t.Op {
		return false
	}
	switch p.Op {
	case "param", "const", "global":
		return p.Name == t.Name
	case "extract":
		return p.Idx == t.Idx && Match(p.Args[0], t.Args[0], env)
	case "field":
		return p.Name == t.Name && Match(p.Args[0], t.Args[0], env)
	case "call", "op", "phi":
		if p.Name != t.Name && p.Name != "_" {
			return false
		}
		n := len(p.Args)
		if n > 0 && p.Args[n-1].Op == "rest" {
			if len(t.Args) < n-1 {
				return false
			}
			for i := 0; i < n-1; i++ {
				if !Match(p.Args[i], t.Args[i], env) {
					return false
				}
			}
			return true
		}
		if len(t.Args) != n {
			return false
		}
		ok := true
		snap := copyEnv(env)
		for i := range p.Args {
			if !Match(p.Args[i], t.Args[i], env) {
				ok = false
				break
			}
		}
		if ok {
			return true
		}
		if n == 2 && commutative(t.Name) {
			restoreEnv(env, snap)
			if Match(p.Args[0], t.Args[1], env) && Match(p.Args[1], t.Args[0], env) {
				return true
			}
		}
		if p.Op == "phi" && n >= 2 && n <= 4 {
			// the alternatives of a control-flow join are a set: their order follows block layout (if/else inversion)
			perm := make([]int, n)
			used := make([]bool, n)
			var try func(i int) bool
			try = func(i int) bool {
				if i == n {
					return true
				}
				for j := 0; j < n; j++ {
					if used[j] {
						continue
					}
					s2 := copyEnv(env)
					if Match(p.Args[i], t.Args[j], env) {
						used[j], perm[i] = true, j
						if try(i + 1) {
							return true
						}
						used[j] = false
					}
					restoreEnv(env, s2)
				}
				return false
			}
			restoreEnv(env, snap)
			if try(0) {
				return true
			}
		}
		restoreEnv(env, snap)
		return false
	}
	return false
}

func copyEnv(e map[string]*Term) map[string]*Term {
	c := make(map[string]*Term, len(e))
	for k, v := range e {
		c[k] = v
	}
	return c
}

func restoreEnv(e, snap map[string]*Term) {
	for k := range e {
		if _, ok := snap[k]; !ok {
			delete(e, k)
		}
	}
}

// commutative: a.Op(b) == b.Op(a) as values (exact addition / multiplication of the integer and decimal
// types, and the symmetric comparisons); rounding multiplications are commutative too.
func commutative(name string) bool {
	switch name {
	case "add", "mul", "eq", "ne", "and", "or",
		"sdkmath.Int.Add", "sdkmath.Int.Mul", "sdkmath.LegacyDec.Add", "sdkmath.LegacyDec.Mul", "sdkmath.LegacyDec.MulTruncate", "sdkmath.LegacyDec.MulRoundUp",
		"osmomath.BigDec.Add", "osmomath.BigDec.Mul", "osmomath.BigDec.MulTruncate", "osmomath.BigDec.MulRoundUp", "osmomath.BigInt.Add", "osmomath.BigInt.Mul",
		"sdkmath.Int.Equal", "sdkmath.LegacyDec.Equal", "osmomath.BigDec.Equal":
		return true
	}
	return false
}

// MatchAny reports whether t matches one of the '|'-separated alternatives (top level only;
// the separator must be " | " with spaces so that it cannot be confused with operators).
func MatchAny(pats string, t *Term) bool {
	for _, alt := range strings.Split(pats, " | ") {
		if Match(MustPattern(strings.TrimSpace(alt)), t, map[string]*Term{}) {
			return true
		}
	}
	return false
}
