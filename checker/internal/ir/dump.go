package ir

import (
	"fmt"
	"go/token"
	"io"
	"strings"

	"golang.org/x/tools/go/ssa"
)

// Dump prints the facts rules are written against, for one function.
// Brief: omit logging/event/formatting calls and error returns, truncate lines (set by the CLI).
var Brief = 0

var briefSkip = []string{"fmt.", "sdk.NewAttribute", "sdk.NewEvent", "sdk.EventManagerI", "sdk.Context.EventManager", "sdk.Context.Logger", "log.Logger", "telemetry.", "strconv.", "len(", "errors.New", "errorsmod."}

func brief(line string) (string, bool) {
	if Brief == 0 {
		return line, true
	}
	t := strings.TrimSpace(line)
	if i := strings.Index(t, " "); i > 0 {
		t = strings.TrimSpace(t[i:])
	}
	for _, p := range briefSkip {
		if strings.HasPrefix(t, "call "+p) {
			return "", false
		}
	}
	if strings.HasPrefix(t, "return[err]") || strings.HasPrefix(t, "store idx(&varargs") || strings.HasPrefix(t, "store &") && !strings.Contains(t[:min(len(t), 40)], ".") {
		return "", false
	}
	if len(line) > Brief {
		line = line[:Brief] + "…\n"
	}
	return line, true
}

func Dump(w0 io.Writer, fset *token.FileSet, fn *ssa.Function) {
	w := &briefWriter{w: w0}
	f := NewFunc(fn)
	fmt.Fprintf(w, "== %s   (%s)\n", FuncName(fn), fset.Position(fn.Pos()))
	for _, b := range fn.Blocks {
		for _, ins := range b.Instrs {
			switch x := ins.(type) {
			case ssa.CallInstruction:
				var as []string
				for _, a := range f.CallArgs(x) {
					as = append(as, a.String())
				}
				kind := "call"
				if _, ok := x.(*ssa.Defer); ok {
					kind = "defer"
				}
				if _, ok := x.(*ssa.Go); ok {
					kind = "go"
				}
				fmt.Fprintf(w, "  b%-3d %s %s(%s)   @%d\n", b.Index, kind, f.CalleeName(x), strings.Join(as, ", "), fset.Position(x.Pos()).Line)
			case *ssa.Store:
				fmt.Fprintf(w, "  b%-3d store %s := %s\n", b.Index, f.addrTerm(x.Addr), f.Term(x.Val))
			case *ssa.If:
				t, e := b.Succs[0], b.Succs[1]
				fmt.Fprintf(w, "  b%-3d if %s  -> b%d%s / b%d%s\n", b.Index, f.Term(x.Cond), t.Index, succNote(f, t), e.Index, succNote(f, e))
			case *ssa.Return:
				var rs []string
				for _, r := range x.Results {
					rs = append(rs, f.Term(r).String())
				}
				fmt.Fprintf(w, "  b%-3d return[%s] %s\n", b.Index, exitName(f.ExitKindOf(b)), strings.Join(rs, " ; "))
			case *ssa.Panic:
				fmt.Fprintf(w, "  b%-3d panic %s\n", b.Index, f.Term(x.X))
			case *ssa.MapUpdate:
				fmt.Fprintf(w, "  b%-3d mapupdate %s[%s] = %s\n", b.Index, f.Term(x.Map), f.Term(x.Key), f.Term(x.Value))
			}
		}
	}
	for _, an := range fn.AnonFuncs {
		Dump(w0, fset, an)
	}
}

type briefWriter struct{ w io.Writer }

func (b *briefWriter) Write(p []byte) (int, error) {
	if line, ok := brief(string(p)); ok {
		b.w.Write([]byte(line))
	}
	return len(p), nil
}

func (f *Func) addrTerm(a ssa.Value) string {
	switch x := a.(type) {
	case *ssa.FieldAddr:
		return f.addrTerm(x.X) + "." + fieldName(x.X.Type(), x.Field)
	case *ssa.Alloc:
		return "&" + x.Comment
	case *ssa.IndexAddr:
		return "idx(" + f.addrTerm(x.X) + "," + f.Term(x.Index).String() + ")"
	}
	return f.Term(a).String()
}

func succNote(f *Func, b *ssa.BasicBlock) string {
	if !f.CanSucceed(b) {
		return "(fail)"
	}
	return ""
}

func exitName(k ExitKind) string {
	switch k {
	case SuccessExit:
		return "ok"
	case ErrorExit:
		return "err"
	case PanicExit:
		return "panic"
	case MaybeExit:
		return "maybe"
	}
	return "-"
}
