package analyses

// X-mut: effect analysis "which *big.Int objects reachable from a parameter (or the receiver) may be
// written by this function". Flow-insensitive may-alias sets per SSA value (which parameters' big.Int
// objects the value may point to or contain), interprocedural summaries to a fixpoint, and a table
// of the mutating methods of math/big.Int and cosmossdk.io/math.

import (
	"fmt"
	"go/token"
	"sort"
	"strings"

	"golang.org/x/tools/go/ssa"
)

var bigMutators = map[string]bool{"Add": true, "Sub": true, "Mul": true, "Quo": true, "QuoRem": true, "Rem": true, "Div": true, "Mod": true, "DivMod": true,
	"Neg": true, "Abs": true, "Set": true, "SetInt64": true, "SetUint64": true, "SetString": true, "SetBytes": true, "SetBit": true, "Lsh": true, "Rsh": true,
	"Exp": true, "Sqrt": true, "Not": true, "And": true, "Or": true, "Xor": true, "AndNot": true, "GCD": true, "ModInverse": true, "ModSqrt": true, "UnmarshalText": true,
	"UnmarshalJSON": true, "GobDecode": true, "Scan": true, "SetBits": true, "Rand": true, "Binomial": true, "MulRange": true, "SetFrac": true}

type MutSummary struct {
	Mutates  map[int][]string // parameter index (receiver = 0) -> how (notes)
	RetAlias map[int]bool
	NotePos  map[int]token.Pos
}

type mutAnalysis struct {
	sums map[*ssa.Function]*MutSummary
}

func (m *mutAnalysis) analyze(fn *ssa.Function) *MutSummary {
	s := &MutSummary{Mutates: map[int][]string{}, RetAlias: map[int]bool{}, NotePos: map[int]token.Pos{}}
	alias := map[ssa.Value]map[int]bool{}
	for i, p := range fn.Params {
		alias[p] = map[int]bool{i: true}
	}
	get := func(v ssa.Value) map[int]bool { return alias[v] }
	add := func(v ssa.Value, src map[int]bool) bool {
		if len(src) == 0 {
			return false
		}
		mm := alias[v]
		if mm == nil {
			mm = map[int]bool{}
			alias[v] = mm
		}
		ch := false
		for k := range src {
			if !mm[k] {
				mm[k] = true
				ch = true
			}
		}
		return ch
	}
	calleeOf := func(c *ssa.CallCommon) (*ssa.Function, string, string) {
		callee := c.StaticCallee()
		if callee == nil {
			return nil, "", ""
		}
		recvT := ""
		if callee.Signature.Recv() != nil {
			recvT = callee.Signature.Recv().Type().String()
		}
		return callee, recvT, callee.Name()
	}
	changed := true
	for iter := 0; changed && iter < 30; iter++ {
		changed = false
		for _, b := range fn.Blocks {
			for _, ins := range b.Instrs {
				switch x := ins.(type) {
				case *ssa.Phi:
					for _, e := range x.Edges {
						if add(x, get(e)) {
							changed = true
						}
					}
				case *ssa.FieldAddr:
					if add(x, get(x.X)) {
						changed = true
					}
				case *ssa.Field:
					if add(x, get(x.X)) {
						changed = true
					}
				case *ssa.IndexAddr:
					if add(x, get(x.X)) {
						changed = true
					}
				case *ssa.Index:
					if add(x, get(x.X)) {
						changed = true
					}
				case *ssa.Slice:
					if add(x, get(x.X)) {
						changed = true
					}
				case *ssa.UnOp:
					if add(x, get(x.X)) {
						changed = true
					}
				case *ssa.Store:
					if add(x.Addr, get(x.Val)) {
						changed = true
					}
					switch a := x.Addr.(type) {
					case *ssa.FieldAddr:
						if add(a.X, get(x.Val)) {
							changed = true
						}
					case *ssa.IndexAddr:
						if add(a.X, get(x.Val)) {
							changed = true
						}
					}
				case *ssa.ChangeType:
					if add(x, get(x.X)) {
						changed = true
					}
				case *ssa.Convert:
					if add(x, get(x.X)) {
						changed = true
					}
				case *ssa.MakeInterface:
					if add(x, get(x.X)) {
						changed = true
					}
				case *ssa.TypeAssert:
					if add(x, get(x.X)) {
						changed = true
					}
				case *ssa.Extract:
					if add(x, get(x.Tuple)) {
						changed = true
					}
				case *ssa.Call:
					c := x.Common()
					args := c.Args
					callee, recvT, name := calleeOf(c)
					if callee == nil {
						continue
					}
					switch {
					case strings.HasSuffix(recvT, "math/big.Int"):
						if bigMutators[name] {
							if add(x, get(args[0])) {
								changed = true
							}
						}
					case strings.Contains(recvT, "cosmossdk.io/math.LegacyDec") || strings.Contains(recvT, "cosmossdk.io/math.Int"):
						// *Mut methods and BigIntMut return (a pointer into) the receiver
						if strings.HasSuffix(name, "Mut") || name == "Set" || name == "SetInt64" {
							if add(x, get(args[0])) {
								changed = true
							}
						}
					default:
						if cs, ok := m.sums[callee]; ok {
							for pi := range cs.RetAlias {
								if pi < len(args) {
									if add(x, get(args[pi])) {
										changed = true
									}
								}
							}
						}
					}
				}
			}
		}
	}
	for _, b := range fn.Blocks {
		for _, ins := range b.Instrs {
			switch x := ins.(type) {
			case *ssa.Return:
				for _, r := range x.Results {
					for k := range get(r) {
						s.RetAlias[k] = true
					}
				}
			case *ssa.Call:
				c := x.Common()
				callee, recvT, name := calleeOf(c)
				if callee == nil {
					continue
				}
				args := c.Args
				mark := func(v ssa.Value, why string) {
					for k := range get(v) {
						if _, ok := s.Mutates[k]; !ok {
							s.NotePos[k] = x.Pos()
						}
						s.Mutates[k] = append(s.Mutates[k], why)
					}
				}
				switch {
				case strings.HasSuffix(recvT, "math/big.Int"):
					if bigMutators[name] {
						mark(args[0], "big.Int."+name)
						if (name == "QuoRem" || name == "DivMod") && len(args) > 3 {
							mark(args[3], "big.Int."+name+" (remainder)")
						}
					}
				case strings.Contains(recvT, "cosmossdk.io/math.LegacyDec") || strings.Contains(recvT, "cosmossdk.io/math.Int"):
					if strings.HasSuffix(name, "Mut") && name != "BigIntMut" || name == "Set" || name == "SetInt64" {
						mark(args[0], "sdkmath."+name)
					}
				default:
					if cs, ok := m.sums[callee]; ok {
						for pi := range cs.Mutates {
							if pi < len(args) {
								mark(args[pi], callee.Name())
							}
						}
					}
				}
			}
		}
	}
	return s
}

// RunXMut computes mutation summaries for the given functions (closed under calls among them).
func RunXMut(fns []*ssa.Function) map[*ssa.Function]*MutSummary {
	m := &mutAnalysis{sums: map[*ssa.Function]*MutSummary{}}
	sort.Slice(fns, func(i, j int) bool { return fns[i].String() < fns[j].String() })
	for round := 0; round < 8; round++ {
		changed := false
		for _, f := range fns {
			if f.Blocks == nil {
				continue
			}
			s := m.analyze(f)
			old := m.sums[f]
			if old == nil || len(old.Mutates) != len(s.Mutates) || len(old.RetAlias) != len(s.RetAlias) {
				changed = true
			}
			m.sums[f] = s
		}
		if !changed {
			break
		}
	}
	return m.sums
}

func (s *MutSummary) Describe(k int) string {
	n := s.Mutates[k]
	if len(n) > 3 {
		n = n[:3]
	}
	return fmt.Sprintf("param#%d via %s", k, strings.Join(n, ", "))
}
