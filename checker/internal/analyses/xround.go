// Package analyses holds the specialised static analyses.
package analyses

// X-round: case-partitioned abstract interpretation of the osmomath rounding helpers.
//
// For a subject computing round_mode(N/D) the analysis interprets the subject's SSA over an
// abstract heap of *big.Int objects whose values are drawn from
//
//	N (numerator, sign sN), D (operand divisor, sign sD), positive constants (concrete value known
//	from the package initialisers), T+k (T = trunc(N/D), k a small integer), R (= N - T*D), small ints
//
// under every element of the finite partition
//
//	sN ∈ {-,0,+} × sD ∈ {-,+} × R = 0? × |R| vs |D|/2 ∈ {<,=,>} × T odd?
//
// in which every branch condition of the helpers (Sign, Cmp with the half constant, Bit(0), ...) has a
// definite truth value. The result must be T+δ with the δ the rounding mode prescribes. No osmosis code
// is executed and no solver is used; the partition is enumerated exhaustively.

import (
	"fmt"
	"go/constant"
	"go/token"
	"go/types"
	"math/big"
	"sort"
	"strings"

	"golang.org/x/tools/go/ssa"
)

type avKind int

const (
	kUnknown avKind = iota
	kNum            // ±N
	kDiv            // D
	kPos            // positive constant (val)
	kSmall          // small integer constant (c)
	kQuot           // (neg? -(T) : T) + off
	kRem            // ±R
	kFresh          // fresh zero
	kFacA           // multiplicand (product A*B is N)
	kFacB
)

type aval struct {
	k     avKind
	neg   bool
	off   int
	c     int64
	val   *big.Int // for kPos
	stage int
}

func (a aval) String() string {
	s := ""
	if a.neg {
		s = "-"
	}
	switch a.k {
	case kNum:
		return s + "N"
	case kDiv:
		return "D"
	case kPos:
		return "const(" + a.val.String() + ")"
	case kSmall:
		return fmt.Sprint(a.c)
	case kQuot:
		return fmt.Sprintf("%sT%+d", s, a.off)
	case kRem:
		return s + "R"
	case kFresh:
		return "0(fresh)"
	case kFacA:
		return s + "A"
	case kFacB:
		return s + "B"
	}
	return "?"
}

// RCase is one element of the partition.
type RCase struct {
	SN, SD int  // signs of N and D
	RZ     bool // remainder zero
	H      int  // |R| vs |D|/2
	Odd    bool // |T| odd
}

func (c RCase) String() string {
	return fmt.Sprintf("{sign(N)=%+d sign(D)=%+d rem=0:%v |rem|?half:%+d quotient-odd:%v}", c.SN, c.SD, c.RZ, c.H, c.Odd)
}

type bobj struct{ v aval }
type sval map[int]interface{}
type tuple []interface{}

type undecided struct{ why string }
type wrong struct{ why string }

type rinterp struct {
	prog    *ssa.Program
	pkg     *ssa.Package
	cs      []RCase // per stage
	stage   int
	globals map[string]*big.Int
	depth   int
	mulVal  *big.Int   // product of positive constants multiplied into N at the current stage
	divVal  *big.Int   // constant divisor of the current stage (nil: operand divisor)
	divided bool       // a division happened in the current stage
	muls    []*big.Int // per finished stage
	divs    []*big.Int
	post    *big.Int // product of the constants the integer result was re-scaled by (nil: none; -1: symbolic)
	steps   int
}

func (in *rinterp) c() RCase { return in.cs[in.stage] }

func (in *rinterp) fail(f string, a ...interface{}) { panic(undecided{fmt.Sprintf(f, a...)}) }
func (in *rinterp) bad(f string, a ...interface{})  { panic(wrong{fmt.Sprintf(f, a...)}) }

func (in *rinterp) signOf(a aval) int {
	s := 0
	switch a.k {
	case kNum:
		s = in.c().SN
	case kDiv:
		s = in.c().SD
	case kPos:
		s = 1
	case kSmall:
		if a.c < 0 {
			return -1
		} else if a.c > 0 {
			return 1
		}
		return 0
	case kRem:
		if in.c().RZ {
			return 0
		}
		s = in.c().SN
	case kFresh:
		return 0
	case kQuot:
		// sign of T+off: decidable only in easy cases
		if a.off == 0 {
			q := in.c().SN * in.c().SD
			if q == 0 {
				return 0
			}
			if a.stage == in.stage && in.stage+1 < len(in.cs) {
				// the quotient is the numerator of the next stage: its sign is that stage's case
				next := in.cs[in.stage+1]
				if next.SN != 0 && next.SN != q {
					panic(pruned{})
				}
				s = next.SN
				break
			}
			// T may be zero although N != 0 (|N| < |D|): undecidable
			in.fail("sign of truncated quotient")
		}
		in.fail("sign of %v", a)
	default:
		in.fail("sign of %v", a)
	}
	if a.neg {
		s = -s
	}
	return s
}

func (in *rinterp) cmp(a, b aval) int {
	if a.k == kRem && b.k == kPos {
		// comparison of the remainder with a constant: only meaningful against half of the divisor
		if in.divVal == nil {
			in.bad("remainder compared with constant %s but the divisor is an operand", b.val)
		}
		twice := new(big.Int).Mul(b.val, big.NewInt(2))
		if twice.Cmp(in.divVal) != 0 {
			in.bad("remainder is compared with %s, which is not half of the divisor %s", b.val, in.divVal)
		}
		sa := in.signOf(a)
		if sa <= 0 {
			return -1
		}
		return in.c().H
	}
	if b.k == kSmall && b.c == 0 || b.k == kFresh {
		return in.signOf(a)
	}
	in.fail("Cmp(%v,%v)", a, b)
	return 0
}

func (in *rinterp) bigCall(name string, args []interface{}) interface{} {
	o := func(i int) *bobj {
		if i >= len(args) {
			in.fail("big.%s: missing arg %d", name, i)
		}
		p, ok := args[i].(*bobj)
		if !ok {
			in.fail("big.%s arg %d is %T", name, i, args[i])
		}
		return p
	}
	switch name {
	case "Sign":
		return int64(in.signOf(o(0).v))
	case "Cmp":
		return int64(in.cmp(o(0).v, o(1).v))
	case "CmpAbs":
		in.fail("CmpAbs")
	case "Bit":
		a := o(0).v
		if bi, ok := args[1].(int64); !ok || bi != 0 {
			in.fail("Bit(%v)", args[1])
		}
		if a.k == kRem && !in.c().RZ && in.c().H == 0 && in.divVal != nil {
			// on a tie the remainder's magnitude is exactly half the (constant) divisor: its parity is known
			half := new(big.Int).Quo(in.divVal, big.NewInt(2))
			return int64(half.Bit(0))
		}
		if a.k != kQuot {
			in.fail("Bit of %v", a)
		}
		odd := in.c().Odd
		if a.off%2 != 0 {
			odd = !odd
		}
		if odd {
			return int64(1)
		}
		return int64(0)
	case "Neg":
		x := o(1).v
		switch x.k {
		case kQuot:
			x.neg, x.off = !x.neg, -x.off
		case kNum, kRem, kFacA, kFacB:
			x.neg = !x.neg
		case kFresh:
		case kSmall:
			x.c = -x.c
		default:
			in.fail("Neg(%v)", x)
		}
		o(0).v = x
		return o(0)
	case "Abs":
		x := o(1).v
		if in.signOf(x) < 0 {
			return in.bigCall("Neg", args)
		}
		o(0).v = x
		return o(0)
	case "Set":
		o(0).v = o(1).v
		return o(0)
	case "Add", "Sub":
		x, y := o(1).v, o(2).v
		if y.k == kSmall || y.k == kFresh {
			d := int(y.c)
			if name == "Sub" {
				d = -d
			}
			if x.k == kQuot {
				x.off += d
				o(0).v = x
				return o(0)
			}
		}
		in.fail("%s(%v,%v)", name, x, y)
	case "Mul":
		x, y := o(1).v, o(2).v
		if y.k == kNum || y.k == kQuot || y.k == kFacA {
			x, y = y, x
		}
		switch {
		case x.k == kFacA && y.k == kFacB || x.k == kFacB && y.k == kFacA:
			o(0).v = aval{k: kNum, neg: x.neg != y.neg, stage: in.stage}
			return o(0)
		case x.k == kNum && y.k == kPos:
			in.mulVal = new(big.Int).Mul(in.mulVal, y.val)
			o(0).v = x
			return o(0)
		case x.k == kNum && y.k == kSmall && y.c > 0:
			in.mulVal = new(big.Int).Mul(in.mulVal, big.NewInt(y.c))
			o(0).v = x
			return o(0)
		case x.k == kQuot && y.k == kPos:
			// integer result re-scaled by a precision constant ("ceil as decimal"): still T+k, recorded
			in.rescale(y.val)
			o(0).v = x
			return o(0)
		}
		in.fail("Mul(%v,%v)", x, y)
	case "Quo", "QuoRem":
		x, y := o(1).v, o(2).v
		if x.k == kQuot && x.stage == in.stage && y.k == kPos {
			// second division: the first must have been a plain truncation
			if x.off != 0 {
				in.bad("intermediate quotient is %v, expected a plain truncation before the second division", x)
			}
			if in.stage+1 >= len(in.cs) {
				in.fail("more division stages than the spec has")
			}
			// consistency of the new numerator's sign with the first stage
			q := in.c().SN * in.c().SD
			next := in.cs[in.stage+1]
			if next.SN != 0 && next.SN != q {
				panic(pruned{})
			}
			if in.post != nil {
				in.bad("intermediate quotient was re-scaled before the second division")
			}
			in.muls = append(in.muls, in.mulVal)
			in.divs = append(in.divs, in.divVal)
			in.stage++
			in.mulVal, in.divVal, in.divided = big.NewInt(1), nil, false
			x = aval{k: kNum, neg: x.neg, stage: in.stage}
		}
		if x.k != kNum || (y.k != kDiv && y.k != kPos) {
			in.fail("%s(%v,%v)", name, x, y)
		}
		if in.divided {
			in.fail("two divisions of the same numerator")
		}
		in.divided = true
		if y.k == kPos {
			if in.c().SD < 0 {
				panic(pruned{})
			}
			in.divVal = y.val
		} else {
			in.divVal = nil
		}
		q := aval{k: kQuot, neg: x.neg, stage: in.stage}
		r := aval{k: kRem, neg: x.neg, stage: in.stage}
		if name == "QuoRem" {
			o(3).v = r
			o(0).v = q
			return tuple{o(0), o(3)}
		}
		o(0).v = q
		return o(0)
	case "Div", "Mod", "DivMod", "Rem":
		in.fail("big.%s (Euclidean/remainder operations are not part of the rounding helpers' idiom)", name)
	case "BitLen":
		return int64(1)
	case "IsInt64", "IsUint64":
		return true
	case "Int64", "Uint64":
		return args[0]
	}
	in.fail("big.%s unsupported", name)
	return nil
}

type pruned struct{}

const divSentinel = int64(-0x7ffffffffffffff0)

func (in *rinterp) rescale(v *big.Int) {
	if in.post == nil {
		in.post = new(big.Int).Set(v)
		return
	}
	if in.post.Sign() < 0 || v.Sign() < 0 {
		in.post = big.NewInt(-1)
		return
	}
	in.post = new(big.Int).Mul(in.post, v)
}

type rframe struct {
	fn    *ssa.Function
	env   map[ssa.Value]interface{}
	cells map[ssa.Value]sval
}

func isBigIntT(t types.Type) bool {
	n, ok := t.(*types.Named)
	return ok && n.Obj().Pkg() != nil && n.Obj().Pkg().Path() == "math/big" && n.Obj().Name() == "Int"
}

func (in *rinterp) val(f *rframe, v ssa.Value) interface{} {
	if c, ok := v.(*ssa.Const); ok {
		if c.Value == nil {
			return nil
		}
		switch c.Value.Kind() {
		case constant.Int:
			i, _ := constant.Int64Val(c.Value)
			return i
		case constant.Bool:
			return constant.BoolVal(c.Value)
		case constant.String:
			return constant.StringVal(c.Value)
		}
		in.fail("const %v", c)
	}
	if r, ok := f.env[v]; ok {
		return r
	}
	if a, ok := v.(*ssa.Alloc); ok {
		return f.cells[a]
	}
	if g, ok := v.(*ssa.Global); ok {
		return g
	}
	in.fail("no value for %s (%T) in %s", v.Name(), v, f.fn.Name())
	return nil
}

func (in *rinterp) globalObj(g *ssa.Global) interface{} {
	if bv, ok := in.globals[g.Name()]; ok {
		if bv.Sign() > 0 && bv.BitLen() > 3 {
			return &bobj{aval{k: kPos, val: bv}}
		}
		return &bobj{aval{k: kSmall, c: bv.Int64()}}
	}
	return g // not a numeric constant (e.g. a function alias): fails only if used as a number
}

func (in *rinterp) call(fn *ssa.Function, args []interface{}) interface{} {
	in.depth++
	defer func() { in.depth-- }()
	if in.depth > 8 {
		in.fail("call depth")
	}
	if fn.Blocks == nil {
		in.fail("no body for %s", fn)
	}
	f := &rframe{fn: fn, env: map[ssa.Value]interface{}{}, cells: map[ssa.Value]sval{}}
	for i, p := range fn.Params {
		if i < len(args) {
			f.env[p] = args[i]
		}
	}
	var prev *ssa.BasicBlock
	b := fn.Blocks[0]
	for {
		in.steps++
		if in.steps > 5000 {
			in.fail("step limit")
		}
		var next *ssa.BasicBlock
		for _, ins := range b.Instrs {
			switch x := ins.(type) {
			case *ssa.Phi:
				for i, p := range b.Preds {
					if p == prev {
						f.env[x] = in.val(f, x.Edges[i])
					}
				}
			case *ssa.Alloc:
				et := x.Type().(*types.Pointer).Elem()
				if isBigIntT(et) {
					f.env[x] = &bobj{aval{k: kFresh}}
				} else {
					f.cells[x] = sval{}
				}
			case *ssa.Store:
				switch a := x.Addr.(type) {
				case *ssa.Alloc:
					v := in.val(f, x.Val)
					if sv, ok := v.(sval); ok {
						cp := sval{}
						for k, vv := range sv {
							cp[k] = vv
						}
						f.cells[a] = cp
					} else {
						f.cells[a] = sval{-1: v}
					}
				case *ssa.FieldAddr:
					switch base := a.X.(type) {
					case *ssa.Alloc:
						f.cells[base][a.Field] = in.val(f, x.Val)
					default:
						// store through a pointer to a struct (pointer receiver): the struct value itself
						bv := in.val(f, a.X)
						if sv, ok := bv.(sval); ok {
							sv[a.Field] = in.val(f, x.Val)
						} else {
							in.fail("store through %T", bv)
						}
					}
				default:
					in.fail("store to %T", x.Addr)
				}
			case *ssa.UnOp:
				switch x.Op {
				case token.MUL:
					switch a := x.X.(type) {
					case *ssa.Global:
						if a.Name() == "precisionFactors" || a.Name() == "precisionMultipliers" {
							f.env[x] = a
						} else {
							f.env[x] = in.globalObj(a)
						}
					case *ssa.FieldAddr:
						var sv sval
						if base, ok := a.X.(*ssa.Alloc); ok {
							sv = f.cells[base]
						} else if s2, ok := in.val(f, a.X).(sval); ok {
							sv = s2
						} else {
							in.fail("load through non-struct")
						}
						f.env[x] = sv[a.Field]
					case *ssa.Alloc:
						c := f.cells[a]
						if v, ok := c[-1]; ok {
							f.env[x] = v
						} else {
							f.env[x] = c
						}
					case *ssa.IndexAddr:
						// element of a global table of precision factors
						f.env[x] = in.tableElem(f, a.X, a.Index)
					default:
						// *p where p is a pointer parameter holding a struct value
						f.env[x] = in.val(f, x.X)
					}
				case token.NOT:
					bv, ok := in.val(f, x.X).(bool)
					if !ok {
						in.fail("! on non-bool")
					}
					f.env[x] = !bv
				case token.SUB:
					iv, ok := in.val(f, x.X).(int64)
					if !ok {
						in.fail("- on non-int")
					}
					f.env[x] = -iv
				default:
					in.fail("unop %s", x.Op)
				}
			case *ssa.FieldAddr, *ssa.IndexAddr:
				// resolved at use
			case *ssa.Field:
				sv, ok := in.val(f, x.X).(sval)
				if !ok {
					in.fail("field of non-struct")
				}
				f.env[x] = sv[x.Field]
			case *ssa.Lookup:
				f.env[x] = in.tableElem(f, x.X, x.Index)
			case *ssa.Extract:
				t, ok := in.val(f, x.Tuple).(tuple)
				if !ok || x.Index >= len(t) {
					in.fail("extract")
				}
				f.env[x] = t[x.Index]
			case *ssa.BinOp:
				f.env[x] = in.binop(f, x)
			case *ssa.Convert:
				f.env[x] = in.val(f, x.X)
			case *ssa.ChangeType:
				f.env[x] = in.val(f, x.X)
			case *ssa.MakeInterface:
				f.env[x] = in.val(f, x.X)
			case *ssa.Call:
				f.env[x] = in.doCall(f, x)
			case *ssa.If:
				cond, ok := in.val(f, x.Cond).(bool)
				if !ok {
					in.fail("branch on a value the partition does not decide (%s)", in.prog.Fset.Position(x.Cond.Pos()))
				}
				if cond {
					next = b.Succs[0]
				} else {
					next = b.Succs[1]
				}
			case *ssa.Jump:
				next = b.Succs[0]
			case *ssa.Return:
				if len(x.Results) == 1 {
					return in.val(f, x.Results[0])
				}
				var t tuple
				for _, r := range x.Results {
					t = append(t, in.val(f, r))
				}
				return t
			case *ssa.Panic:
				in.fail("panic reached at %s", in.prog.Fset.Position(x.Pos()))
			case *ssa.DebugRef:
			default:
				in.fail("instruction %T", ins)
			}
		}
		if next == nil {
			in.fail("fell off block")
		}
		prev, b = b, next
	}
}

// tableElem: precisionFactors[p] and precisionMultipliers[p] are 10^(36-p) (their initialisation loops are
// checked by a separate rule); with a known index the value is concrete.
func (in *rinterp) tableElem(f *rframe, tbl, idx ssa.Value) interface{} {
	g, ok := in.val(f, tbl).(*ssa.Global)
	if !ok || (g.Name() != "precisionFactors" && g.Name() != "precisionMultipliers") {
		in.fail("table lookup in %v", tbl)
	}
	i, ok := in.val(f, idx).(int64)
	if !ok || i < 0 || i > 36 {
		in.fail("table index is not a known precision")
	}
	return &bobj{aval{k: kPos, val: pow10(36 - i)}}
}

func (in *rinterp) binop(f *rframe, x *ssa.BinOp) interface{} {
	av, bv := in.val(f, x.X), in.val(f, x.Y)
	a, ok1 := av.(int64)
	c, ok2 := bv.(int64)
	if ok1 && ok2 {
		switch x.Op {
		case token.EQL:
			return a == c
		case token.NEQ:
			return a != c
		case token.LSS:
			return a < c
		case token.LEQ:
			return a <= c
		case token.GTR:
			return a > c
		case token.GEQ:
			return a >= c
		case token.ADD:
			return a + c
		case token.SUB:
			return a - c
		case token.MUL:
			return a * c
		}
	}
	ab, ok1 := av.(bool)
	cb, ok2 := bv.(bool)
	if ok1 && ok2 {
		switch x.Op {
		case token.EQL:
			return ab == cb
		case token.NEQ:
			return ab != cb
		case token.LAND, token.AND:
			return ab && cb
		case token.LOR, token.OR:
			return ab || cb
		}
	}
	// nil comparisons of pointers
	if x.Op == token.EQL || x.Op == token.NEQ {
		if av == nil || bv == nil {
			eq := av == nil && bv == nil
			if x.Op == token.NEQ {
				return !eq
			}
			return eq
		}
	}
	in.fail("binop %s on %T,%T at %s", x.Op, av, bv, in.prog.Fset.Position(x.Pos()))
	return nil
}

func (in *rinterp) doCall(f *rframe, x *ssa.Call) interface{} {
	c := x.Common()
	callee := c.StaticCallee()
	if callee == nil {
		// call through a package-level function variable (sdk_math_alias.go): resolve from the initialiser
		if u, ok := c.Value.(*ssa.UnOp); ok {
			if g, ok := u.X.(*ssa.Global); ok {
				callee = funcGlobal(in.pkg, g.Name())
			}
		}
	}
	if callee == nil {
		if b, ok := c.Value.(*ssa.Builtin); ok && b.Name() == "len" {
			return int64(1)
		}
		in.fail("dynamic call at %s", in.prog.Fset.Position(x.Pos()))
	}
	var args []interface{}
	for _, a := range c.Args {
		args = append(args, in.val(f, a))
	}
	recv := ""
	if callee.Signature.Recv() != nil {
		recv = callee.Signature.Recv().Type().String()
	}
	pk := ""
	if callee.Pkg != nil {
		pk = callee.Pkg.Pkg.Path()
	} else if callee.Object() != nil && callee.Object().Pkg() != nil {
		pk = callee.Object().Pkg().Path()
	}
	name := callee.Name()
	switch {
	case strings.HasSuffix(recv, "math/big.Int"):
		return in.bigCall(name, args)
	case pk == "math/big" && name == "NewInt":
		if i, ok := args[0].(int64); ok && i == divSentinel {
			return &bobj{aval{k: kDiv}}
		}
		if i, ok := args[0].(int64); ok && i != 0 {
			return &bobj{aval{k: kSmall, c: i}}
		}
		return &bobj{aval{k: kFresh}}
	case pk == "cosmossdk.io/math" && strings.HasSuffix(recv, "LegacyDec") && (name == "BigIntMut" || name == "BigInt"):
		sv, _ := args[0].(sval)
		if sv == nil {
			in.fail("LegacyDec.%s of %T", name, args[0])
		}
		return sv[0]
	case pk == "cosmossdk.io/math" && (name == "LegacyZeroDec" || name == "LegacyNewDec"):
		return sval{0: &bobj{aval{k: kFresh}}}
	case pk == "cosmossdk.io/math" && (name == "LegacyNewDecFromBigIntWithPrec" || name == "LegacyNewDecFromBigInt"):
		// value * 10^(18-prec): integer re-scaling of the truncated quotient
		in.rescale(big.NewInt(-1))
		return sval{0: args[0]}
	case pk == "fmt":
		return "fmt"
	case callee.Pkg == in.pkg && name == "assertMaxBitLen":
		return nil
	case callee.Pkg == in.pkg && callee.Blocks != nil:
		return in.call(callee, args)
	}
	in.fail("call to %s", callee)
	return nil
}

// ---------------------------------------------------------------------------
// specs

type RMode int

const (
	RTrunc RMode = iota
	RUp
	RHalfEven
)

func (m RMode) String() string { return [...]string{"truncate", "round-up", "half-even"}[m] }

func expectedDelta(m RMode, c RCase) int {
	q := c.SN * c.SD
	if c.RZ || c.SN == 0 {
		return 0
	}
	switch m {
	case RUp:
		if q > 0 {
			return 1
		}
	case RHalfEven:
		switch c.H {
		case 1:
			return q
		case 0:
			if c.Odd {
				return q
			}
		}
	}
	return 0
}

// Shape of a subject's arguments.
type ArgShape int

const (
	ArgNumOnly     ArgShape = iota // f(N *big.Int)
	ArgNumPrec                     // f(N *big.Int, precision const)
	ArgBigDecNum                   // (d BigDec) with d.i = N (constant divisor inside)
	ArgBigDecPair                  // (d BigDec, d2 BigDec|Dec|BigInt): N = d.i (scaled inside), D = d2
	ArgBigDecMul                   // (d BigDec, d2 BigDec|Dec): N = d.i*d2.i
	ArgBigDecInt64                 // (d BigDec, i int64) with positive divisor i
	ArgPtrBigDecU                  // (d *BigDec, precision uint64)
	ArgBigDecU                     // (d BigDec, precision uint64)
)

type RSubject struct {
	Variant string // distinguishes two specs of one function
	Name    string // "BigDec.MulRoundUp" or plain function name
	Mode    RMode  // mode of the final stage
	Shape   ArgShape
	Stages  int    // 1, or 2 for "truncate at 72 digits then round"
	Scale   string // expected constant multiplied into the numerator before the (first) division: "", "1e36", "1e18", "1e72"
	Div     string // expected constant divisor of the final stage: "", "1e36", "1e18", "any" (table element)
	Post    string // expected re-scaling of the integer result ("" none, "1e36", "any")
	PrecArg string // for ArgNumPrec: which global is passed
}

func pow10(n int64) *big.Int { return new(big.Int).Exp(big.NewInt(10), big.NewInt(n), nil) }

func constByName(s string) *big.Int {
	switch s {
	case "1e18":
		return pow10(18)
	case "1e36":
		return pow10(36)
	case "1e72":
		return pow10(72)
	case "", "1":
		return big.NewInt(1)
	}
	return nil
}

func rcases(opDiv bool) []RCase {
	var cs []RCase
	sds := []int{1}
	if opDiv {
		sds = []int{-1, 1}
	}
	for _, sN := range []int{-1, 0, 1} {
		for _, sD := range sds {
			for _, rz := range []bool{true, false} {
				for _, h := range []int{-1, 0, 1} {
					for _, odd := range []bool{false, true} {
						if sN == 0 && (!rz || h != -1 || odd) {
							continue
						}
						if rz && h != -1 {
							continue
						}
						cs = append(cs, RCase{sN, sD, rz, h, odd})
					}
				}
			}
		}
	}
	return cs
}

type RResult struct {
	Subject string
	Case    string
	Status  string // ok violated undecided
	Detail  string
	Pos     token.Pos
}

// funcGlobal resolves `var F = pkg.Func` aliases from the package initialiser.
func funcGlobal(pkg *ssa.Package, name string) *ssa.Function {
	initFn := pkg.Func("init")
	if initFn == nil {
		return nil
	}
	var found *ssa.Function
	n := 0
	for _, b := range initFn.Blocks {
		for _, ins := range b.Instrs {
			if st, ok := ins.(*ssa.Store); ok {
				if g, ok := st.Addr.(*ssa.Global); ok && g.Name() == name {
					n++
					if f, ok := st.Val.(*ssa.Function); ok {
						found = f
					}
				}
			}
		}
	}
	if n == 1 {
		return found
	}
	return nil
}

// EvalGlobals computes the concrete values of the package-level *big.Int constants of osmomath from the
// package initialiser (constant folding over big.NewInt / Exp / Mul / Quo / Set).
func EvalGlobals(pkg *ssa.Package) map[string]*big.Int {
	out := map[string]*big.Int{}
	initFn := pkg.Func("init")
	if initFn == nil {
		return out
	}
	stores := map[string]ssa.Value{}
	for _, b := range initFn.Blocks {
		for _, ins := range b.Instrs {
			if st, ok := ins.(*ssa.Store); ok {
				if g, ok := st.Addr.(*ssa.Global); ok {
					stores[g.Name()] = st.Val
				}
			}
		}
	}
	var eval func(v ssa.Value, depth int) *big.Int
	eval = func(v ssa.Value, depth int) *big.Int {
		if depth > 12 {
			return nil
		}
		switch x := v.(type) {
		case *ssa.Const:
			if x.Value != nil && x.Value.Kind() == constant.Int {
				if i, ok := constant.Int64Val(x.Value); ok {
					return big.NewInt(i)
				}
			}
			return nil
		case *ssa.UnOp:
			if g, ok := x.X.(*ssa.Global); ok && x.Op == token.MUL {
				if r, ok := out[g.Name()]; ok {
					return r
				}
				if sv, ok := stores[g.Name()]; ok {
					return eval(sv, depth+1)
				}
			}
			return nil
		case *ssa.Convert:
			return eval(x.X, depth+1)
		case *ssa.Alloc:
			return big.NewInt(0)
		case *ssa.Call:
			callee := x.Common().StaticCallee()
			if callee == nil {
				return nil
			}
			args := x.Common().Args
			recvBig := callee.Signature.Recv() != nil && strings.HasSuffix(callee.Signature.Recv().Type().String(), "math/big.Int")
			switch {
			case callee.Name() == "NewInt" && callee.Pkg != nil && callee.Pkg.Pkg.Path() == "math/big":
				return eval(args[0], depth+1)
			case recvBig && callee.Name() == "Exp" && len(args) == 4:
				a, b := eval(args[1], depth+1), eval(args[2], depth+1)
				if a == nil || b == nil {
					return nil
				}
				if k, ok := args[3].(*ssa.Const); !ok || !k.IsNil() {
					return nil
				}
				return new(big.Int).Exp(a, b, nil)
			case recvBig && (callee.Name() == "Mul" || callee.Name() == "Quo" || callee.Name() == "Add" || callee.Name() == "Sub") && len(args) == 3:
				a, b := eval(args[1], depth+1), eval(args[2], depth+1)
				if a == nil || b == nil {
					return nil
				}
				switch callee.Name() {
				case "Mul":
					return new(big.Int).Mul(a, b)
				case "Quo":
					if b.Sign() == 0 {
						return nil
					}
					return new(big.Int).Quo(a, b)
				case "Add":
					return new(big.Int).Add(a, b)
				default:
					return new(big.Int).Sub(a, b)
				}
			case recvBig && callee.Name() == "Set" && len(args) == 2:
				return eval(args[1], depth+1)
			}
		}
		return nil
	}
	var names []string
	for n := range stores {
		names = append(names, n)
	}
	sort.Strings(names)
	for _, n := range names {
		if v := eval(stores[n], 0); v != nil {
			out[n] = v
		}
	}
	return out
}

// RunXRound evaluates every (subject, case) obligation.
func RunXRound(prog *ssa.Program, pkg *ssa.Package, subjects []RSubject, resolve func(name string) *ssa.Function) []RResult {
	globals := EvalGlobals(pkg)
	var out []RResult
	for _, s := range subjects {
		fn := resolve(s.Name)
		if fn == nil || fn.Blocks == nil {
			out = append(out, RResult{Subject: s.Name + s.Variant, Case: "*", Status: "undecided", Detail: "subject does not resolve"})
			continue
		}
		opDiv := s.Shape == ArgBigDecPair || s.Shape == ArgBigDecInt64
		first := rcases(opDiv)
		var combos [][]RCase
		if s.Stages == 2 {
			for _, c1 := range first {
				for _, c2 := range rcases(false) {
					combos = append(combos, []RCase{c1, c2})
				}
			}
		} else {
			for _, c1 := range first {
				combos = append(combos, []RCase{c1})
			}
		}
		for _, cs := range combos {
			r := runOne(prog, pkg, globals, s, fn, cs)
			if r != nil {
				out = append(out, *r)
			}
		}
	}
	return out
}

func caseName(cs []RCase) string {
	var s []string
	for _, c := range cs {
		s = append(s, c.String())
	}
	return strings.Join(s, " then ")
}

func runOne(prog *ssa.Program, pkg *ssa.Package, globals map[string]*big.Int, s RSubject, fn *ssa.Function, cs []RCase) (res *RResult) {
	in := &rinterp{prog: prog, pkg: pkg, cs: cs, globals: globals, mulVal: big.NewInt(1)}
	res = &RResult{Subject: s.Name + s.Variant, Case: caseName(cs), Pos: fn.Pos()}
	defer func() {
		if r := recover(); r != nil {
			switch e := r.(type) {
			case pruned:
				res = nil
			case undecided:
				res.Status, res.Detail = "undecided", e.why
			case wrong:
				res.Status, res.Detail = "violated", e.why
			default:
				res.Status, res.Detail = "undecided", fmt.Sprintf("interpreter panic: %v", r)
			}
		}
	}()
	n, d := &bobj{aval{k: kNum}}, &bobj{aval{k: kDiv}}
	bd := func(o *bobj) sval { return sval{0: o} }
	var args []interface{}
	switch s.Shape {
	case ArgNumOnly:
		args = []interface{}{n}
	case ArgNumPrec:
		g, ok := globals[s.PrecArg]
		if !ok {
			in.fail("precision constant %s unknown", s.PrecArg)
		}
		args = []interface{}{n, &bobj{aval{k: kPos, val: g}}}
	case ArgBigDecNum:
		args = []interface{}{bd(n)}
	case ArgBigDecPair:
		args = []interface{}{bd(n), bd(d)}
	case ArgBigDecMul:
		args = []interface{}{bd(&bobj{aval{k: kFacA}}), bd(&bobj{aval{k: kFacB}})}
	case ArgBigDecInt64:
		args = []interface{}{bd(n), divSentinel}
	case ArgPtrBigDecU, ArgBigDecU:
		args = []interface{}{bd(n), int64(4)}
	}
	got := in.call(fn, args)
	var av aval
	switch r := got.(type) {
	case *bobj:
		av = r.v
	case sval:
		o, ok := r[0].(*bobj)
		if !ok {
			in.fail("result struct has no big.Int")
		}
		av = o.v
	case int64:
		in.fail("integer result")
	default:
		in.fail("result %T", got)
	}
	if in.stage != len(cs)-1 {
		// the subject performed fewer divisions than its spec: every multi-stage case collapses
		res.Status, res.Detail = "violated", fmt.Sprintf("performed %d division stage(s), spec has %d", in.stage+1, len(cs))
		return res
	}
	final := cs[len(cs)-1]
	want := expectedDelta(s.Mode, final)
	if av.k != kQuot || av.neg || av.off != want {
		res.Status = "violated"
		res.Detail = fmt.Sprintf("returns %v, %s requires T%+d", av, s.Mode, want)
		return res
	}
	// constants: scale of the first stage, divisor of the last stage, re-scaling of the result
	muls := append(append([]*big.Int{}, in.muls...), in.mulVal)
	divs := append(append([]*big.Int{}, in.divs...), in.divVal)
	if want := constByName(s.Scale); want != nil && muls[0].Cmp(want) != 0 {
		res.Status = "violated"
		res.Detail = fmt.Sprintf("numerator is scaled by %s before the division, expected %s", muls[0], s.Scale)
		return res
	}
	if len(cs) == 2 {
		if divs[0] != nil {
			res.Status, res.Detail = "violated", "first division is by a constant, expected the operand"
			return res
		}
		if muls[1].Cmp(big.NewInt(1)) != 0 {
			res.Status, res.Detail = "violated", "intermediate quotient is re-scaled before rounding"
			return res
		}
	}
	lastDiv := divs[len(divs)-1]
	switch s.Div {
	case "":
		if lastDiv != nil {
			res.Status, res.Detail = "violated", fmt.Sprintf("divides by the constant %s, expected the operand", lastDiv)
			return res
		}
	case "any":
	default:
		want := constByName(s.Div)
		if lastDiv == nil || lastDiv.Cmp(want) != 0 {
			res.Status = "violated"
			res.Detail = fmt.Sprintf("divides by %v, expected %s", lastDiv, s.Div)
			return res
		}
	}
	switch s.Post {
	case "":
		if in.post != nil {
			res.Status, res.Detail = "violated", fmt.Sprintf("result is re-scaled by %s, expected none", in.post)
			return res
		}
	case "any":
	default:
		want := constByName(s.Post)
		if in.post == nil || in.post.Cmp(want) != 0 {
			res.Status, res.Detail = "violated", fmt.Sprintf("result is re-scaled by %v, expected %s", in.post, s.Post)
			return res
		}
	}
	res.Status = "ok"
	res.Detail = fmt.Sprintf("T%+d", want)
	return res
}
