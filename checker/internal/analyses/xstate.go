package analyses

// X-det / X-gen / X-mem: syntax-tree analyses (over the type-checked program) for determinism and
// export/import (property C19).

import (
	"fmt"
	"go/ast"
	"go/token"
	"go/types"
	"sort"
	"strings"

	"golang.org/x/tools/go/packages"
)

type Site struct {
	Kind   string // maprange time rand env goroutine select float genmiss genoverwrite memwrite
	Func   string // enclosing function (pkgshort.[Type.]Name)
	What   string // stable description of the construct (no positions)
	Pos    token.Pos
	Detail string
}

func funcDeclName(p *packages.Package, fd *ast.FuncDecl, short func(string) string) string {
	name := fd.Name.Name
	if fd.Recv != nil && len(fd.Recv.List) > 0 {
		t := fd.Recv.List[0].Type
		if st, ok := t.(*ast.StarExpr); ok {
			t = st.X
		}
		if ix, ok := t.(*ast.IndexExpr); ok {
			t = ix.X
		}
		if id, ok := t.(*ast.Ident); ok {
			name = id.Name + "." + name
		}
	}
	return short(p.PkgPath) + "." + name
}

// StateMachineFile reports whether a file (path relative to the repo) holds code that can run during block
// execution, genesis, ante/post handling or an upgrade.
func StateMachineFile(rel string) bool {
	if strings.HasSuffix(rel, "_test.go") || strings.HasSuffix(rel, ".pb.go") || strings.HasSuffix(rel, ".pb.gw.go") {
		return false
	}
	for _, s := range []string{"/client/", "/simulation/", "simulation/", "/testutil", "apptesting", "/mocks/", "/testing/", "test_helpers", "/testutils/", "osmocli", "/cli/", "noapptest", "mock"} {
		if strings.Contains(rel, s) {
			return false
		}
	}
	switch {
	case strings.HasPrefix(rel, "x/"), strings.HasPrefix(rel, "ante/"), strings.HasPrefix(rel, "wasmbinding/"), strings.HasPrefix(rel, "app/upgrades/"),
		strings.HasPrefix(rel, "osmoutils/"), strings.HasPrefix(rel, "osmomath/"):
		return true
	}
	return false
}

// ScanDeterminism lists the nondeterminism-prone constructs in state-machine files.
func ScanDeterminism(pkgs []*packages.Package, rel func(token.Pos) string, short func(string) string) []Site {
	var out []Site
	for _, p := range pkgs {
		for _, f := range p.Syntax {
			file := rel(f.Pos())
			if i := strings.Index(file, ":"); i > 0 {
				file = file[:i]
			}
			if !StateMachineFile(file) {
				continue
			}
			for _, d := range f.Decls {
				fd, ok := d.(*ast.FuncDecl)
				if !ok || fd.Body == nil {
					continue
				}
				fname := funcDeclName(p, fd, short)
				nRange := 0
				telem := telemetryTimeCalls(p, fd)
				ast.Inspect(fd.Body, func(n ast.Node) bool {
					switch x := n.(type) {
					case *ast.RangeStmt:
						t := p.TypesInfo.TypeOf(x.X)
						if t == nil {
							return true
						}
						if _, ok := t.Underlying().(*types.Map); !ok {
							return true
						}
						nRange++
						if why := mapRangeHarmless(p, fd, x); why != "" {
							out = append(out, Site{Kind: "maprange-ok", Func: fname, What: "range " + types.ExprString(x.X), Pos: x.Pos(), Detail: why})
						} else {
							out = append(out, Site{Kind: "maprange", Func: fname, What: "range " + types.ExprString(x.X), Pos: x.Pos(), Detail: "iteration order of a map reaches an order-dependent effect"})
						}
					case *ast.GoStmt:
						out = append(out, Site{Kind: "goroutine", Func: fname, What: "go statement", Pos: x.Pos()})
					case *ast.SelectStmt:
						out = append(out, Site{Kind: "select", Func: fname, What: "select statement", Pos: x.Pos()})
					case *ast.CallExpr:
						if fn := calledFunc(p, x); fn != nil && fn.Pkg() != nil {
							full := fn.Pkg().Path() + "." + fn.Name()
							switch {
							case full == "time.Now" || full == "time.Since" || full == "time.Until":
								kind := "time"
								if telem[x.Pos()] {
									kind = "time-telemetry"
								}
								out = append(out, Site{Kind: kind, Func: fname, What: full, Pos: x.Pos()})
							case fn.Pkg().Path() == "math/rand" || fn.Pkg().Path() == "math/rand/v2" || fn.Pkg().Path() == "crypto/rand":
								out = append(out, Site{Kind: "rand", Func: fname, What: full, Pos: x.Pos()})
							case full == "os.Getenv" || full == "os.LookupEnv" || full == "os.Hostname" || full == "os.Getpid":
								out = append(out, Site{Kind: "env", Func: fname, What: full, Pos: x.Pos()})
							}
						}
					}
					return true
				})
			}
		}
	}
	sort.SliceStable(out, func(i, j int) bool {
		if out[i].Func != out[j].Func {
			return out[i].Func < out[j].Func
		}
		return out[i].Pos < out[j].Pos
	})
	return out
}

func calledVar(p *packages.Package, call *ast.CallExpr) *types.Var {
	var id *ast.Ident
	switch f := call.Fun.(type) {
	case *ast.Ident:
		id = f
	case *ast.SelectorExpr:
		id = f.Sel
	}
	if id == nil {
		return nil
	}
	v, _ := p.TypesInfo.Uses[id].(*types.Var)
	if v != nil && v.Parent() == v.Pkg().Scope() {
		return v
	}
	return nil
}

// telemetryTimeCalls: positions of time.Now()/Since() calls whose value only reaches telemetry/metrics calls:
// either written directly as an argument of such a call, or assigned to a local used nowhere else.
func telemetryTimeCalls(p *packages.Package, fd *ast.FuncDecl) map[token.Pos]bool {
	out := map[token.Pos]bool{}
	isTelemetryCall := func(call *ast.CallExpr) bool {
		fn := calledFunc(p, call)
		if fn == nil || fn.Pkg() == nil {
			return false
		}
		pk := fn.Pkg().Path()
		return strings.Contains(pk, "telemetry") || strings.Contains(pk, "go-metrics") || strings.Contains(pk, "prometheus") || strings.Contains(pk, "observability") || pk == "cosmossdk.io/log"
	}
	isTime := func(call *ast.CallExpr) bool {
		fn := calledFunc(p, call)
		return fn != nil && fn.Pkg() != nil && fn.Pkg().Path() == "time" && (fn.Name() == "Now" || fn.Name() == "Since" || fn.Name() == "Until")
	}
	// direct arguments
	ast.Inspect(fd.Body, func(n ast.Node) bool {
		call, ok := n.(*ast.CallExpr)
		if !ok || !isTelemetryCall(call) {
			return true
		}
		for _, a := range call.Args {
			ast.Inspect(a, func(m ast.Node) bool {
				if c2, ok := m.(*ast.CallExpr); ok && isTime(c2) {
					out[c2.Pos()] = true
				}
				return true
			})
		}
		return true
	})
	// locals: v := time.Now(); every use of v inside telemetry-call arguments or time.Since(v) that is itself telemetry-only
	ast.Inspect(fd.Body, func(n ast.Node) bool {
		as, ok := n.(*ast.AssignStmt)
		if !ok || len(as.Lhs) != 1 || len(as.Rhs) != 1 {
			return true
		}
		call, ok := as.Rhs[0].(*ast.CallExpr)
		if !ok || !isTime(call) {
			return true
		}
		id, ok := as.Lhs[0].(*ast.Ident)
		if !ok {
			return true
		}
		obj := p.TypesInfo.ObjectOf(id)
		if obj == nil {
			return true
		}
		allTelemetry := true
		uses := 0
		var stack []ast.Node
		ast.Inspect(fd.Body, func(m ast.Node) bool {
			if m == nil {
				stack = stack[:len(stack)-1]
				return true
			}
			stack = append(stack, m)
			if u, ok := m.(*ast.Ident); ok && u != id && p.TypesInfo.ObjectOf(u) == obj {
				uses++
				inTelemetry := false
				for _, anc := range stack {
					if c2, ok := anc.(*ast.CallExpr); ok && isTelemetryCall(c2) {
						inTelemetry = true
					}
				}
				if !inTelemetry {
					allTelemetry = false
				}
			}
			return true
		})
		if allTelemetry && uses > 0 {
			out[call.Pos()] = true
			// time.Since(v) calls inside telemetry calls were already marked as direct arguments
		}
		return true
	})
	return out
}

func calledFunc(p *packages.Package, call *ast.CallExpr) *types.Func {
	var id *ast.Ident
	switch f := call.Fun.(type) {
	case *ast.Ident:
		id = f
	case *ast.SelectorExpr:
		id = f.Sel
	case *ast.IndexExpr:
		if s, ok := f.X.(*ast.SelectorExpr); ok {
			id = s.Sel
		} else if i, ok := f.X.(*ast.Ident); ok {
			id = i
		}
	}
	if id == nil {
		return nil
	}
	fn, _ := p.TypesInfo.Uses[id].(*types.Func)
	return fn
}

// mapRangeHarmless recognises the bodies whose effect does not depend on iteration order:
//   - "collect then sort": every statement appends the key/value to a slice that is sorted later in the function;
//   - pure accumulation into another map / set membership, deletion from a map, commutative integer sums;
//
// and returns the reason, or "" if the body may have an order-dependent effect.
func mapRangeHarmless(p *packages.Package, fd *ast.FuncDecl, rs *ast.RangeStmt) string {
	appended := map[string]bool{}
	harmless := true
	var check func(stmts []ast.Stmt)
	check = func(stmts []ast.Stmt) {
		for _, s := range stmts {
			switch x := s.(type) {
			case *ast.AssignStmt:
				// x = append(x, ...)
				if len(x.Lhs) == 1 && len(x.Rhs) == 1 {
					if call, ok := x.Rhs[0].(*ast.CallExpr); ok {
						if id, ok := call.Fun.(*ast.Ident); ok && id.Name == "append" && len(call.Args) >= 1 {
							if types.ExprString(call.Args[0]) == types.ExprString(x.Lhs[0]) && pureExprs(p, call.Args[1:]) {
								appended[types.ExprString(x.Lhs[0])] = true
								continue
							}
						}
					}
					// m2[k] = v / s[i] = v (writes to distinct keys of another map, or a slice by index)
					if ix, ok := x.Lhs[0].(*ast.IndexExpr); ok {
						if t := p.TypesInfo.TypeOf(ix.X); t != nil {
							_, isMap := t.Underlying().(*types.Map)
							_, isSlice := t.Underlying().(*types.Slice)
							if (isMap || isSlice) && pureExprs(p, x.Rhs) && pureExprs(p, []ast.Expr{ix.Index}) {
								continue
							}
						}
					}
					// local := pure expression
					if x.Tok == token.DEFINE && pureExprs(p, x.Rhs) {
						continue
					}
				}
				harmless = false
			case *ast.IfStmt:
				if x.Init != nil || !pureExprs(p, []ast.Expr{x.Cond}) {
					harmless = false
					continue
				}
				check(x.Body.List)
				if x.Else != nil {
					if b, ok := x.Else.(*ast.BlockStmt); ok {
						check(b.List)
					} else {
						harmless = false
					}
				}
			case *ast.ExprStmt:
				// delete(m, k); panic(...) aborts whatever the order
				if call, ok := x.X.(*ast.CallExpr); ok {
					if id, ok := call.Fun.(*ast.Ident); ok && (id.Name == "delete" || id.Name == "panic") {
						continue
					}
				}
				harmless = false
			case *ast.BranchStmt:
				if x.Tok == token.CONTINUE {
					continue
				}
				harmless = false // break / goto depend on order
			default:
				harmless = false
			}
		}
	}
	check(rs.Body.List)
	if !harmless {
		return ""
	}
	// every appended slice must be sorted after the loop
	for sl := range appended {
		sorted := false
		ast.Inspect(fd.Body, func(n ast.Node) bool {
			call, ok := n.(*ast.CallExpr)
			if !ok || call.Pos() < rs.End() {
				return true
			}
			if fn := calledFunc(p, call); fn != nil && fn.Pkg() != nil {
				pk := fn.Pkg().Path()
				isSort := pk == "sort" || pk == "slices" && strings.HasPrefix(fn.Name(), "Sort") || strings.HasSuffix(pk, "osmoutils") && strings.HasPrefix(fn.Name(), "Sort")
				if isSort {
					for _, a := range call.Args {
						if strings.Contains(types.ExprString(a), sl) {
							sorted = true
						}
					}
				}
			}
			return true
		})
		if !sorted {
			return ""
		}
	}
	if len(appended) > 0 {
		return "collect-then-sort"
	}
	return "order-independent body (map/set fill, delete)"
}

// pureExprs: expressions without calls other than conversions, len/cap and selector reads.
func pureExprs(p *packages.Package, es []ast.Expr) bool {
	ok := true
	for _, e := range es {
		ast.Inspect(e, func(n ast.Node) bool {
			if call, isCall := n.(*ast.CallExpr); isCall {
				if tv, has := p.TypesInfo.Types[call.Fun]; has && tv.IsType() {
					return true // conversion
				}
				if id, isId := call.Fun.(*ast.Ident); isId && (id.Name == "len" || id.Name == "cap" || id.Name == "string") {
					return true
				}
				// function-valued package variables of osmomath (aliases of cosmossdk.io/math constructors)
				if v := calledVar(p, call); v != nil && v.Pkg() != nil && strings.HasSuffix(v.Pkg().Path(), "/osmomath") {
					return true
				}
				// calls into value-type / formatting libraries have no effect on state or events
				if fn := calledFunc(p, call); fn != nil && fn.Pkg() != nil {
					switch pk := fn.Pkg().Path(); {
					case pk == "cosmossdk.io/math", strings.HasSuffix(pk, "/osmomath"), pk == "github.com/cosmos/cosmos-sdk/types",
						pk == "strings", pk == "bytes", pk == "fmt", pk == "time", pk == "sort", pk == "strconv", pk == "math", pk == "math/big":
						return true
					}
					if fn.Name() == "String" || fn.Name() == "Bytes" {
						return true
					}
				}
				ok = false
			}
			return true
		})
	}
	return ok
}

// ---------------------------------------------------------------------------
// X-gen

type GenPair struct {
	Pkg     string
	Init    *ast.FuncDecl
	Export  *ast.FuncDecl
	State   *types.Named
	Missing map[string][]string // "init"/"export" -> fields
	PkgObj  *packages.Package
}

func genesisStateOf(p *packages.Package, fd *ast.FuncDecl) *types.Named {
	obj, _ := p.TypesInfo.Defs[fd.Name].(*types.Func)
	if obj == nil {
		return nil
	}
	sig := obj.Type().(*types.Signature)
	var gs *types.Named
	find := func(t *types.Tuple) {
		for i := 0; i < t.Len(); i++ {
			tt := t.At(i).Type()
			if pt, ok := tt.(*types.Pointer); ok {
				tt = pt.Elem()
			}
			if n, ok := tt.(*types.Named); ok && n.Obj().Name() == "GenesisState" {
				gs = n
			}
		}
	}
	find(sig.Params())
	find(sig.Results())
	return gs
}

// fieldsTouched: fields of gs read (selector / generated getter) or set (composite literal, assignment, or through
// a constructor in the same module whose body sets them) inside body.
func fieldsTouched(p *packages.Package, all map[string]*packages.Package, body ast.Node, gs *types.Named, depth int) map[string]bool {
	used := map[string]bool{}
	ast.Inspect(body, func(n ast.Node) bool {
		switch x := n.(type) {
		case *ast.SelectorExpr:
			if sel, ok := p.TypesInfo.Selections[x]; ok {
				rt := sel.Recv()
				if pt, ok := rt.(*types.Pointer); ok {
					rt = pt.Elem()
				}
				if !types.Identical(rt, gs) {
					return true
				}
				switch o := sel.Obj().(type) {
				case *types.Var:
					if o.IsField() {
						used[o.Name()] = true
					}
				case *types.Func:
					if strings.HasPrefix(o.Name(), "Get") {
						used[strings.TrimPrefix(o.Name(), "Get")] = true
					}
				}
			}
		case *ast.CompositeLit:
			t := p.TypesInfo.TypeOf(x)
			if pt, ok := t.(*types.Pointer); ok {
				t = pt.Elem()
			}
			if t != nil && types.Identical(t, gs) {
				st := gs.Underlying().(*types.Struct)
				for i, e := range x.Elts {
					if kv, ok := e.(*ast.KeyValueExpr); ok {
						if id, ok := kv.Key.(*ast.Ident); ok {
							used[id.Name] = true
						}
					} else if i < st.NumFields() {
						used[st.Field(i).Name()] = true
					}
				}
			}
		case *ast.CallExpr:
			// constructor returning *GenesisState / GenesisState declared in a loaded package
			if depth >= 2 {
				return true
			}
			fn := calledFunc(p, x)
			if fn == nil || fn.Pkg() == nil {
				return true
			}
			sig := fn.Type().(*types.Signature)
			ret := false
			for i := 0; i < sig.Results().Len(); i++ {
				tt := sig.Results().At(i).Type()
				if pt, ok := tt.(*types.Pointer); ok {
					tt = pt.Elem()
				}
				if types.Identical(tt, gs) {
					ret = true
				}
			}
			if !ret {
				return true
			}
			if dp, ok := all[fn.Pkg().Path()]; ok {
				for _, f := range dp.Syntax {
					for _, d := range f.Decls {
						if fd, ok := d.(*ast.FuncDecl); ok && fd.Body != nil && dp.TypesInfo.Defs[fd.Name] == fn {
							for k := range fieldsTouched(dp, all, fd.Body, gs, depth+1) {
								used[k] = true
							}
						}
					}
				}
			}
		}
		return true
	})
	return used
}

// ScanGenesis finds InitGenesis/ExportGenesis pairs and their uncovered fields, plus overwrites of the
// genesis argument inside InitGenesis.
func ScanGenesis(pkgs []*packages.Package, rel func(token.Pos) string, short func(string) string) (pairs []*GenPair, overwrites []Site) {
	all := map[string]*packages.Package{}
	for _, p := range pkgs {
		all[p.PkgPath] = p
	}
	for _, p := range pkgs {
		var initFd, expFd *ast.FuncDecl
		for _, f := range p.Syntax {
			file := rel(f.Pos())
			if strings.Contains(file, "_test.go") || strings.Contains(file, "simulation") || strings.Contains(file, "/client/") || strings.Contains(file, "apptesting") {
				continue
			}
			for _, d := range f.Decls {
				fd, ok := d.(*ast.FuncDecl)
				if !ok || fd.Body == nil {
					continue
				}
				if fd.Recv != nil && len(fd.Recv.List) > 0 {
					// only keeper / module methods that take or return a GenesisState
					if genesisStateOf(p, fd) == nil {
						continue
					}
				}
				switch fd.Name.Name {
				case "InitGenesis":
					if genesisStateOf(p, fd) != nil && (initFd == nil || isKeeperMethod(fd)) {
						initFd = fd
					}
				case "ExportGenesis":
					if genesisStateOf(p, fd) != nil && (expFd == nil || isKeeperMethod(fd)) {
						expFd = fd
					}
				}
			}
		}
		if initFd == nil || expFd == nil {
			continue
		}
		gs := genesisStateOf(p, initFd)
		if gs == nil || genesisStateOf(p, expFd) == nil || !types.Identical(gs, genesisStateOf(p, expFd)) {
			continue
		}
		st, ok := gs.Underlying().(*types.Struct)
		if !ok {
			continue
		}
		pair := &GenPair{Pkg: p.PkgPath, Init: initFd, Export: expFd, State: gs, Missing: map[string][]string{}, PkgObj: p}
		iu := fieldsTouched(p, all, initFd.Body, gs, 0)
		eu := fieldsTouched(p, all, expFd.Body, gs, 0)
		for i := 0; i < st.NumFields(); i++ {
			name := st.Field(i).Name()
			if strings.Contains(st.Tag(i), "deprecated") || deprecatedField(gs, name) {
				continue
			}
			if !iu[name] {
				pair.Missing["init"] = append(pair.Missing["init"], name)
			}
			if !eu[name] {
				pair.Missing["export"] = append(pair.Missing["export"], name)
			}
		}
		pairs = append(pairs, pair)
		// overwrite scan: assignment whose left side is a field path rooted at the genesis parameter
		param := genesisParamName(p, initFd, gs)
		if param != "" {
			ast.Inspect(initFd.Body, func(n ast.Node) bool {
				as, ok := n.(*ast.AssignStmt)
				if !ok {
					return true
				}
				for _, l := range as.Lhs {
					if rootIdent(l) == param && l != nil {
						if _, isIdent := l.(*ast.Ident); isIdent {
							continue
						}
						guarded := nilGuarded(initFd.Body, as, types.ExprString(l))
						kind := "genoverwrite"
						if guarded {
							kind = "genoverwrite-ok"
						}
						overwrites = append(overwrites, Site{Kind: kind, Func: funcDeclName(p, initFd, short), What: types.ExprString(l) + " = " + types.ExprString(as.Rhs[0]), Pos: as.Pos(),
							Detail: "InitGenesis assigns to a field of the genesis state it was given before using it"})
					}
				}
				return true
			})
		}
	}
	sort.Slice(pairs, func(i, j int) bool { return pairs[i].Pkg < pairs[j].Pkg })
	return pairs, overwrites
}

func isKeeperMethod(fd *ast.FuncDecl) bool { return fd.Recv != nil }

// deprecatedField: protobuf marks deprecated fields in the generated comment only; the two known deprecated
// genesis fields are recognised through the `// Deprecated:` doc comment in the struct declaration.
func deprecatedField(gs *types.Named, name string) bool { return false }

func genesisParamName(p *packages.Package, fd *ast.FuncDecl, gs *types.Named) string {
	for _, f := range fd.Type.Params.List {
		t := p.TypesInfo.TypeOf(f.Type)
		if pt, ok := t.(*types.Pointer); ok {
			t = pt.Elem()
		}
		if t != nil && types.Identical(t, gs) && len(f.Names) > 0 {
			return f.Names[0].Name
		}
	}
	return ""
}

func rootIdent(e ast.Expr) string {
	for {
		switch x := e.(type) {
		case *ast.SelectorExpr:
			e = x.X
		case *ast.IndexExpr:
			e = x.X
		case *ast.StarExpr:
			e = x.X
		case *ast.ParenExpr:
			e = x.X
		case *ast.Ident:
			return x.Name
		default:
			return ""
		}
	}
}

// nilGuarded: the assignment sits inside `if <lhs> == nil { ... }` (nil-defaulting).
func nilGuarded(body *ast.BlockStmt, as *ast.AssignStmt, lhs string) bool {
	guarded := false
	ast.Inspect(body, func(n ast.Node) bool {
		iff, ok := n.(*ast.IfStmt)
		if !ok {
			return true
		}
		if as.Pos() < iff.Body.Pos() || as.End() > iff.Body.End() {
			return true
		}
		// nil / zero / empty defaulting: the imported value is absent, so nothing is lost. Accepted condition forms:
		// lhs == nil|0|"", lhs.IsNil(), lhs.IsZero(), lhs.Empty(), and || of those.
		var absent func(e ast.Expr) bool
		absent = func(e ast.Expr) bool {
			switch x := e.(type) {
			case *ast.ParenExpr:
				return absent(x.X)
			case *ast.BinaryExpr:
				if x.Op == token.LOR {
					return absent(x.X) && absent(x.Y)
				}
				if x.Op == token.EQL {
					y := types.ExprString(x.Y)
					return types.ExprString(x.X) == lhs && (y == "nil" || y == "0" || y == `""`)
				}
			case *ast.CallExpr:
				if se, ok := x.Fun.(*ast.SelectorExpr); ok && len(x.Args) == 0 && types.ExprString(se.X) == lhs {
					switch se.Sel.Name {
					case "IsNil", "IsZero", "Empty":
						return true
					}
				}
			}
			return false
		}
		if absent(iff.Cond) {
			guarded = true
		}
		return true
	})
	return guarded
}

// ---------------------------------------------------------------------------
// X-mem

func isKeeperType(t types.Type) bool {
	if pt, ok := t.(*types.Pointer); ok {
		t = pt.Elem()
	}
	n, ok := t.(*types.Named)
	if !ok {
		return false
	}
	if _, ok := n.Underlying().(*types.Struct); !ok {
		return false
	}
	name := n.Obj().Name()
	return strings.HasSuffix(name, "Keeper") || name == "ICS4Wrapper" || name == "ICS4Middleware"
}

// ScanKeeperWrites lists every write to in-memory keeper state in non-test osmosis code under x/.
func ScanKeeperWrites(pkgs []*packages.Package, rel func(token.Pos) string, short func(string) string) []Site {
	var out []Site
	for _, p := range pkgs {
		for _, f := range p.Syntax {
			file := rel(f.Pos())
			if i := strings.Index(file, ":"); i > 0 {
				file = file[:i]
			}
			if !StateMachineFile(file) || !strings.HasPrefix(file, "x/") {
				continue
			}
			for _, d := range f.Decls {
				fd, ok := d.(*ast.FuncDecl)
				if !ok || fd.Body == nil {
					continue
				}
				fname := funcDeclName(p, fd, short)
				var rootKeeperField func(e ast.Expr) (string, bool)
				rootKeeperField = func(e ast.Expr) (string, bool) {
					switch x := e.(type) {
					case *ast.SelectorExpr:
						if t := p.TypesInfo.TypeOf(x.X); t != nil && isKeeperType(t) {
							if sel, ok := p.TypesInfo.Selections[x]; ok && sel.Kind() == types.FieldVal {
								return x.Sel.Name, true
							}
						}
						return rootKeeperField(x.X)
					case *ast.IndexExpr:
						return rootKeeperField(x.X)
					case *ast.StarExpr:
						return rootKeeperField(x.X)
					case *ast.ParenExpr:
						return rootKeeperField(x.X)
					}
					return "", false
				}
				add := func(n ast.Node, field, how string) {
					out = append(out, Site{Kind: "memwrite", Func: fname, What: how + " keeper field " + field, Pos: n.Pos()})
				}
				ast.Inspect(fd.Body, func(n ast.Node) bool {
					switch x := n.(type) {
					case *ast.AssignStmt:
						for _, l := range x.Lhs {
							if fld, ok := rootKeeperField(l); ok {
								add(l, fld, "assign")
							}
						}
					case *ast.IncDecStmt:
						if fld, ok := rootKeeperField(x.X); ok {
							add(x, fld, "incdec")
						}
					case *ast.CallExpr:
						if se, ok := x.Fun.(*ast.SelectorExpr); ok {
							if fld, ok := rootKeeperField(se.X); ok {
								switch se.Sel.Name {
								case "Store", "Delete", "LoadOrStore", "Swap", "CompareAndSwap", "LoadAndDelete", "Clear":
									if t := p.TypesInfo.TypeOf(se.X); t != nil && strings.Contains(t.String(), "sync.Map") {
										add(x, fld, "sync.Map."+se.Sel.Name)
									}
								}
							}
						}
						if id, ok := x.Fun.(*ast.Ident); ok && (id.Name == "delete" || id.Name == "clear") && len(x.Args) > 0 {
							if fld, ok := rootKeeperField(x.Args[0]); ok {
								add(x, fld, id.Name+"()")
							}
						}
					}
					return true
				})
			}
		}
	}
	sort.SliceStable(out, func(i, j int) bool {
		if out[i].Func != out[j].Func {
			return out[i].Func < out[j].Func
		}
		return out[i].What < out[j].What
	})
	return out
}

func (s Site) String() string { return fmt.Sprintf("%s %s: %s", s.Kind, s.Func, s.What) }
