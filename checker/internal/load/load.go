// Package load type-checks /repo's current working tree (workspace mode) and builds
// SSA for every osmosis package. Nothing is cached between runs except the Go build
// cache; every check therefore sees the sources as they are on disk now.
package load

import (
	"fmt"
	"go/ast"
	"go/token"
	"go/types"
	"os"
	"sort"
	"strings"
	"time"

	"golang.org/x/tools/go/packages"
	"golang.org/x/tools/go/ssa"
)

const (
	// RepoDir is the tree under analysis. VERIF_REPO overrides it (used only to run the
	// checker against a scratch copy while validating the checker itself).
	defaultRepo = "/repo"
	ModPrefix   = "github.com/osmosis-labs/osmosis"
	// the one package whose load error is tolerated: its only file is emptied in this sandbox
	statikPkg = "github.com/osmosis-labs/osmosis/v31/client/docs/statik"
)

// FixturePrefix is the import-path prefix of the checker's own self-test fixtures (module osmolint).
const FixturePrefix = "osmolint/fixtures/"

// LoadFixture loads the self-test fixture packages under <checker>/fixtures (plain Go, standard library only) into a
// Program shaped like the real one, with RepoDir = <checker>/fixtures so that files appear as x/fx/....
func LoadFixture(checkerDir string) (*Program, error) {
	t0 := time.Now()
	env := []string{}
	for _, e := range os.Environ() {
		if strings.HasPrefix(e, "GOFLAGS=") || strings.HasPrefix(e, "GOWORK=") || strings.HasPrefix(e, "GOPROXY=") ||
			strings.HasPrefix(e, "GOSUMDB=") || strings.HasPrefix(e, "GOTOOLCHAIN=") {
			continue
		}
		env = append(env, e)
	}
	env = append(env, "GOFLAGS=-mod=mod", "GOWORK=off", "GOPROXY=off", "GOSUMDB=off", "GOTOOLCHAIN=local")
	cfg := &packages.Config{Mode: packages.LoadSyntax | packages.NeedDeps | packages.NeedModule, Dir: checkerDir, Env: env}
	pkgs, err := packages.Load(cfg, "./fixtures/...")
	if err != nil {
		return nil, fmt.Errorf("fixtures: %w", err)
	}
	var roots []*packages.Package
	var errs []string
	for _, p := range pkgs {
		for _, e := range p.Errors {
			errs = append(errs, e.Error())
		}
		if strings.HasPrefix(p.PkgPath, FixturePrefix) {
			roots = append(roots, p)
		}
	}
	if len(errs) > 0 || len(roots) == 0 {
		return nil, fmt.Errorf("fixtures: %d packages, errors: %s", len(roots), strings.Join(errs, "; "))
	}
	sort.Slice(roots, func(i, j int) bool { return roots[i].PkgPath < roots[j].PkgPath })
	prog := ssa.NewProgram(roots[0].Fset, ssa.InstantiateGenerics)
	isRoot := map[*packages.Package]bool{}
	for _, p := range roots {
		isRoot[p] = true
	}
	created := map[*packages.Package]*ssa.Package{}
	packages.Visit(pkgs, nil, func(p *packages.Package) {
		if p.Types == nil {
			return
		}
		if isRoot[p] {
			created[p] = prog.CreatePackage(p.Types, p.Syntax, p.TypesInfo, true)
		} else {
			created[p] = prog.CreatePackage(p.Types, nil, nil, true)
		}
	})
	return assemble(checkerDir+"/fixtures", prog, roots, created, t0), nil
}

var Patterns = []string{"./x/...", "./app/...", "./osmomath/...", "./osmoutils/...", "./ante/...", "./wasmbinding/...", "./x/epochs/...", "./x/ibc-hooks/...", "./ingest/..."}

type Program struct {
	RepoDir  string
	Fset     *token.FileSet
	Pkgs     []*packages.Package          // root osmosis packages, sorted by path
	ByPath   map[string]*packages.Package // import path -> package
	SSA      *ssa.Program
	SSAPkgs  map[string]*ssa.Package
	LoadTime time.Duration
	NumFuncs int
	allFuncs []*ssa.Function
}

func dbg(what string, t0 time.Time) {
	if os.Getenv("VERIF_DEBUG") != "" {
		fmt.Fprintf(os.Stderr, "[load] %s at %.1fs\n", what, time.Since(t0).Seconds())
	}
}

func RepoDir() string {
	if d := os.Getenv("VERIF_REPO"); d != "" {
		return d
	}
	return defaultRepo
}

// Load loads the workspace. Any load/type error other than the emptied statik file is fatal
// (returned as error; the caller turns it into CHECK-BROKEN).
func Load() (*Program, error) {
	t0 := time.Now()
	dir := RepoDir()
	env := []string{}
	for _, e := range os.Environ() {
		if strings.HasPrefix(e, "GOFLAGS=") || strings.HasPrefix(e, "GOWORK=") || strings.HasPrefix(e, "GOPROXY=") ||
			strings.HasPrefix(e, "GOSUMDB=") || strings.HasPrefix(e, "GOTOOLCHAIN=") {
			continue
		}
		env = append(env, e)
	}
	env = append(env, "GOFLAGS=", "GOPROXY=off", "GOSUMDB=off", "GOTOOLCHAIN=local")
	cfg := &packages.Config{
		Mode: packages.LoadSyntax | packages.NeedDeps | packages.NeedModule,
		Dir:  dir,
		Env:  env,
	}
	pkgs, err := packages.Load(cfg, Patterns...)
	dbg("packages.Load", t0)
	if err != nil {
		return nil, fmt.Errorf("packages.Load: %w", err)
	}
	if len(pkgs) == 0 {
		return nil, fmt.Errorf("no packages loaded from %s", dir)
	}
	var errs []string
	var roots []*packages.Package
	for _, p := range pkgs {
		if !strings.HasPrefix(p.PkgPath, ModPrefix) {
			continue
		}
		roots = append(roots, p)
	}
	packages.Visit(pkgs, nil, func(p *packages.Package) {
		for _, e := range p.Errors {
			if p.PkgPath == statikPkg {
				continue
			}
			errs = append(errs, p.PkgPath+": "+e.Error())
		}
	})
	if len(errs) > 0 {
		sort.Strings(errs)
		if len(errs) > 10 {
			errs = append(errs[:10], fmt.Sprintf("... and %d more", len(errs)-10))
		}
		return nil, fmt.Errorf("load errors:\n  %s", strings.Join(errs, "\n  "))
	}
	sort.Slice(roots, func(i, j int) bool { return roots[i].PkgPath < roots[j].PkgPath })
	if len(roots) < 150 {
		return nil, fmt.Errorf("only %d osmosis packages loaded (expected >= 150)", len(roots))
	}
	// SSA packages are created by hand rather than through ssautil.Packages: that helper skips every package
	// marked IllTyped, which includes all packages that merely depend (transitively, through a blank import) on
	// the emptied statik package. Their own syntax and type information are complete (any other error was
	// rejected above), so building them is safe.
	prog := ssa.NewProgram(roots[0].Fset, ssa.InstantiateGenerics)
	isRoot := map[*packages.Package]bool{}
	for _, p := range roots {
		isRoot[p] = true
	}
	created := map[*packages.Package]*ssa.Package{}
	packages.Visit(pkgs, nil, func(p *packages.Package) {
		if p.PkgPath == statikPkg {
			// emptied in this sandbox: an empty types-only package satisfies the blank import
			tp := p.Types
			if tp == nil {
				tp = types.NewPackage(statikPkg, "statik")
			}
			tp.MarkComplete()
			created[p] = prog.CreatePackage(tp, nil, nil, true)
			return
		}
		if p.Types == nil {
			return
		}
		if isRoot[p] && p.TypesInfo != nil && len(p.Syntax) > 0 {
			created[p] = prog.CreatePackage(p.Types, p.Syntax, p.TypesInfo, true)
		} else {
			created[p] = prog.CreatePackage(p.Types, nil, nil, true)
		}
	})
	return assemble(dir, prog, roots, created, t0), nil
}

// assemble builds the SSA program and enumerates its functions.
func assemble(dir string, prog *ssa.Program, roots []*packages.Package, created map[*packages.Package]*ssa.Package, t0 time.Time) *Program {
	P := &Program{RepoDir: dir, Fset: prog.Fset, Pkgs: roots, ByPath: map[string]*packages.Package{}, SSA: prog, SSAPkgs: map[string]*ssa.Package{}}
	for _, p := range roots {
		P.ByPath[p.PkgPath] = p
		if sp := created[p]; sp != nil {
			P.SSAPkgs[p.PkgPath] = sp
		}
	}
	dbg("ssa create", t0)
	prog.Build()
	dbg("ssa build", t0)
	seen := map[*ssa.Function]bool{}
	var addFn func(fn *ssa.Function)
	addFn = func(fn *ssa.Function) {
		if fn == nil || seen[fn] {
			return
		}
		seen[fn] = true
		if fn.Blocks != nil {
			P.allFuncs = append(P.allFuncs, fn)
		}
		for _, an := range fn.AnonFuncs {
			addFn(an)
		}
	}
	for _, p := range roots {
		sp := P.SSAPkgs[p.PkgPath]
		if sp == nil {
			continue
		}
		var names []string
		for n := range sp.Members {
			names = append(names, n)
		}
		sort.Strings(names)
		for _, n := range names {
			switch m := sp.Members[n].(type) {
			case *ssa.Function:
				addFn(m)
			case *ssa.Type:
				if _, isIface := m.Type().Underlying().(*types.Interface); isIface {
					continue
				}
				if nt, ok := m.Type().(*types.Named); ok && nt.TypeParams().Len() > 0 {
					continue
				}
				for _, t := range []types.Type{m.Type(), types.NewPointer(m.Type())} {
					ms := prog.MethodSets.MethodSet(t)
					for k := 0; k < ms.Len(); k++ {
						if len(ms.At(k).Index()) != 1 {
							continue // promoted
						}
						if ms.At(k).Obj().Pkg() != sp.Pkg {
							continue
						}
						fn := prog.MethodValue(ms.At(k))
						if fn != nil && fn.Synthetic == "" {
							addFn(fn)
						}
					}
				}
			}
		}
	}
	dbg("enumerate", t0)
	P.NumFuncs = len(P.allFuncs)
	P.LoadTime = time.Since(t0)
	return P
}

// AllFuncs returns every function with a body (deterministic order).
func (p *Program) AllFuncs() []*ssa.Function { return p.allFuncs }

// Rel returns a position relative to the repo root.
func (p *Program) Rel(pos token.Pos) string {
	if !pos.IsValid() {
		return "?"
	}
	s := p.Fset.Position(pos).String()
	return strings.TrimPrefix(s, p.RepoDir+"/")
}

func (p *Program) File(pos token.Pos) string {
	if !pos.IsValid() {
		return ""
	}
	return strings.TrimPrefix(p.Fset.Position(pos).Filename, p.RepoDir+"/")
}

// IsSubjectFile reports whether a file holds production state-machine code (not tests,
// generated protobuf code, simulation, CLI or test helpers).
func IsSubjectFile(name string) bool {
	if name == "" {
		return false
	}
	if strings.HasSuffix(name, "_test.go") || strings.HasSuffix(name, ".pb.go") || strings.HasSuffix(name, ".pb.gw.go") {
		return false
	}
	for _, s := range []string{"/simulation/", "/client/", "/testutil/", "apptesting/", "/mocks/", "/testutils/", "/test_helpers", "simulation/", "/testing/", "tests/"} {
		if strings.Contains(name, s) {
			return false
		}
	}
	return true
}

// Pkg returns the package with the given path suffix relative to the main module
// (e.g. "x/lockup/keeper"), also resolving the sub-modules osmomath, osmoutils, x/epochs.
func (p *Program) Pkg(rel string) *packages.Package {
	for _, cand := range []string{ModPrefix + "/v31/" + rel, ModPrefix + "/" + rel, FixturePrefix + rel} {
		if pk, ok := p.ByPath[cand]; ok {
			return pk
		}
	}
	return nil
}

func (p *Program) SSAPkg(rel string) *ssa.Package {
	pk := p.Pkg(rel)
	if pk == nil {
		return nil
	}
	return p.SSAPkgs[pk.PkgPath]
}

// Func resolves "rel/pkg.Func" or "rel/pkg.Type.Method" to its SSA function (nil if absent).
func (p *Program) Func(spec string) *ssa.Function {
	// closures: "pkg.Func$2" or "pkg.T.M$1$1"
	if k := strings.Index(spec, "$"); k >= 0 {
		fn := p.Func(spec[:k])
		for _, part := range strings.Split(spec[k+1:], "$") {
			if fn == nil {
				return nil
			}
			n := 0
			fmt.Sscanf(part, "%d", &n)
			if n < 1 || n > len(fn.AnonFuncs) {
				return nil
			}
			fn = fn.AnonFuncs[n-1]
		}
		return fn
	}
	i := strings.LastIndex(spec, "/")
	j := strings.Index(spec[i+1:], ".")
	if j < 0 {
		return nil
	}
	pkgRel, rest := spec[:i+1+j], spec[i+1+j+1:]
	sp := p.SSAPkg(pkgRel)
	if sp == nil {
		return nil
	}
	parts := strings.Split(rest, ".")
	switch len(parts) {
	case 1:
		return sp.Func(parts[0])
	case 2:
		t := sp.Type(parts[0])
		if t == nil {
			return nil
		}
		for _, tt := range []types.Type{t.Type(), types.NewPointer(t.Type())} {
			ms := p.SSA.MethodSets.MethodSet(tt)
			for k := 0; k < ms.Len(); k++ {
				if ms.At(k).Obj().Name() == parts[1] && ms.At(k).Obj().Pkg() == sp.Pkg {
					if len(ms.At(k).Index()) != 1 { // promoted through embedding: not declared here
						continue
					}
					return p.SSA.MethodValue(ms.At(k))
				}
			}
		}
	}
	return nil
}

// Decl returns the AST declaration of an SSA function, if it has one.
func (p *Program) Decl(fn *ssa.Function) *ast.FuncDecl {
	if d, ok := fn.Syntax().(*ast.FuncDecl); ok {
		return d
	}
	return nil
}
