// Package report collects obligations, writes evidence and violation reports and applies
// the committed known-findings list.
package report

import (
	"encoding/json"
	"fmt"
	"os"
	"path/filepath"
	"sort"
	"strconv"
	"strings"
	"time"
)

type Status string

const (
	OK        Status = "ok"
	Violated  Status = "violated"
	Undecided Status = "undecided" // rule could not establish its clause: reported as a violation ("not established")
)

type Obligation struct {
	Key     string `json:"key"`  // <property>/<kind>/<subject>/<role>
	Kind    string `json:"kind"` // rule kind letter(s)
	Subject string `json:"subject"`
	Desc    string `json:"desc"` // what is required, in words
	Status  Status `json:"status"`
	Detail  string `json:"detail,omitempty"` // resolved terms / what was found
	Pos     string `json:"pos,omitempty"`    // file:line of the offending or witnessing construct
}

type KnownFinding struct {
	Property string `json:"property"`
	Key      string `json:"key"`    // obligation key
	Status   string `json:"status"` // "known" or "fixed"
	What     string `json:"what"`
	Commit   string `json:"commit,omitempty"`
	// Found, when set, must be a substring of the violation's "found" text: the finding then covers exactly the
	// recorded construct, and a different violation of the same obligation is still reported.
	Found string `json:"found,omitempty"`
}

type Result struct {
	Property     string
	Tier         string
	Seed         int64
	Start        time.Time
	Obligations  []Obligation
	Broken       []string
	Packages     int
	Functions    int
	FuncsTouched map[string]bool
	CallSites    int
	Explanation  string
	Assumptions  []string
	NotCovered   []string
	Extra        map[string]interface{}
}

func VerifDir() string {
	if d := os.Getenv("VERIF_DIR"); d != "" {
		return d
	}
	return "/verif"
}

func LoadKnown() ([]KnownFinding, error) {
	b, err := os.ReadFile(filepath.Join(VerifDir(), "known_findings.json"))
	if err != nil {
		if os.IsNotExist(err) {
			return nil, nil
		}
		return nil, err
	}
	var doc struct {
		Findings []KnownFinding `json:"findings"`
	}
	if err := json.Unmarshal(b, &doc); err != nil {
		return nil, err
	}
	return doc.Findings, nil
}

// Finish writes evidence + reports, prints the verdict lines and returns the exit code.
func (r *Result) Finish() int {
	wall := time.Since(r.Start).Seconds()
	known, err := LoadKnown()
	if err != nil {
		r.Broken = append(r.Broken, "known_findings.json unreadable: "+err.Error())
	}
	knownByKey := map[string]KnownFinding{}
	for _, k := range known {
		if k.Property == r.Property && k.Status == "known" {
			knownByKey[k.Key] = k
		}
	}
	sort.SliceStable(r.Obligations, func(i, j int) bool { return r.Obligations[i].Key < r.Obligations[j].Key })
	// duplicate keys are a checker bug
	seen := map[string]bool{}
	for _, o := range r.Obligations {
		if seen[o.Key] {
			r.Broken = append(r.Broken, "duplicate obligation key "+o.Key)
		}
		seen[o.Key] = true
	}
	var viol, und, kf []Obligation
	discharged := 0
	byKind := map[string]int{}
	for _, o := range r.Obligations {
		byKind[o.Kind]++
		switch o.Status {
		case OK:
			discharged++
		case Violated:
			if k, ok := knownByKey[o.Key]; ok && (k.Found == "" || strings.Contains(o.Detail, k.Found)) {
				kf = append(kf, o)
			} else {
				viol = append(viol, o)
			}
		case Undecided:
			// a rule that cannot establish its clause for the construct reports it: the construct does not fit any
			// idiom the rule accepts (on the pinned tree every obligation is decided)
			o.Detail = "not established (undecided): " + o.Detail
			und = append(und, o)
			viol = append(viol, o)
		}
	}
	// a known finding that no longer reproduces is stale: tell, but do not fail
	for k := range knownByKey {
		found := false
		for _, o := range kf {
			if o.Key == k {
				found = true
			}
		}
		if !found {
			fmt.Printf("NOTE: known finding %s no longer reported (fixed or anchor changed)\n", k)
		}
	}
	if len(r.Obligations) == 0 {
		r.Broken = append(r.Broken, "no obligations generated")
	}

	repDir := filepath.Join(VerifDir(), "reports", r.Property)
	os.RemoveAll(repDir)
	code := 0
	for _, o := range kf {
		fmt.Printf("KNOWN-FINDING: property=%s %s — %s [%s] %s\n", r.Property, o.Key, knownByKey[o.Key].What, o.Pos, o.Detail)
	}
	if len(viol) > 0 {
		code = 1
		os.MkdirAll(repDir, 0o755)
		for i, o := range viol {
			path := filepath.Join(repDir, strconv.Itoa(i+1)+".json")
			b, _ := json.MarshalIndent(map[string]interface{}{"property": r.Property, "obligation": o}, "", " ")
			os.WriteFile(path, b, 0o644)
			fmt.Printf("VIOLATION property=%s replay=%s\n", r.Property, path)
			fmt.Printf("  rule=%s subject=%s at %s\n  required: %s\n  found: %s\n", o.Kind, o.Subject, o.Pos, o.Desc, o.Detail)
		}
	}
	if len(r.Broken) > 0 {
		for _, b := range r.Broken {
			fmt.Printf("CHECK-BROKEN property=%s %s\n", r.Property, b)
		}
		if code == 0 {
			code = 2
		}
	}

	// evidence
	var samples []interface{}
	step := 1
	if len(r.Obligations) > 12 {
		step = len(r.Obligations) / 12
	}
	for i := 0; i < len(r.Obligations); i += step {
		o := r.Obligations[i]
		samples = append(samples, map[string]string{"key": o.Key, "rule": o.Kind, "required": o.Desc, "found": o.Detail, "at": o.Pos, "status": string(o.Status)})
	}
	var kfKeys []string
	for _, o := range kf {
		kfKeys = append(kfKeys, o.Key)
	}
	var touched []string
	for f := range r.FuncsTouched {
		touched = append(touched, f)
	}
	sort.Strings(touched)
	distinct := map[string]bool{}
	for _, o := range r.Obligations {
		distinct[o.Kind+"|"+o.Subject] = true
	}
	cov := map[string]interface{}{
		"explanation": r.Explanation + " Decides structural necessary conditions only; not covered: " + strings.Join(r.NotCovered, "; "),
		"obligations": len(r.Obligations), "discharged": discharged,
		"evaluations": len(r.Obligations), "distinct_nontrivial": len(distinct),
		"rule":                     "one obligation per rule instance (rule kind × resolved subject × role); distinct = distinct (kind,subject) pairs; every instance inspects resolved SSA/type facts of /repo's current tree",
		"rule_instances_by_kind":   byKind,
		"packages_loaded":          r.Packages,
		"functions_in_program":     r.Functions,
		"functions_analysed":       len(touched),
		"functions_analysed_names": touched,
		"call_sites_examined":      r.CallSites,
		"known_findings_reported":  kfKeys,
		"undecided":                len(und),
		"samples":                  samples,
		"checker_cmd":              "/verif/bin/osmolint -property " + r.Property + " -tier " + r.Tier,
		"trusted_base":             []string{"go/types", "go/ssa (x/tools v0.29.0)", "rounding classification table (checked against osmomath bodies by C12)", "math/big and cosmossdk.io/math method semantics", "Cosmos SDK transaction atomicity (an error exit reverts the message's store branch)"},
		"exhaustive":               false,
	}
	for k, v := range r.Extra {
		cov[k] = v
	}
	ev := map[string]interface{}{
		"property_id": r.Property, "tier": r.Tier, "seed": r.Seed, "level": "other",
		"coverage": cov, "assumptions": r.Assumptions, "wall_s": wall, "violations": len(viol),
	}
	if code != 2 {
		os.MkdirAll(filepath.Join(VerifDir(), "evidence"), 0o755)
		b, _ := json.MarshalIndent(ev, "", " ")
		if err := os.WriteFile(filepath.Join(VerifDir(), "evidence", r.Property+".json"), b, 0o644); err != nil {
			fmt.Printf("CHECK-BROKEN property=%s cannot write evidence: %v\n", r.Property, err)
			return 2
		}
	} else {
		os.Remove(filepath.Join(VerifDir(), "evidence", r.Property+".json"))
	}
	fmt.Printf("property=%s tier=%s obligations=%d discharged=%d violations=%d known=%d undecided=%d functions=%d wall=%.1fs\n",
		r.Property, r.Tier, len(r.Obligations), discharged, len(viol), len(kf), len(und), len(touched), wall)
	return code
}
