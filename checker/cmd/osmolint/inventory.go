package main

import (
	"fmt"
	"sort"

	"osmolint/internal/ir"
	"osmolint/internal/load"
)

// printInventory lists the canonical names of all top-level functions and methods of the loaded osmosis packages.
// The committed list (internal/ir/inventory.txt) is the function inventory the rule instances were written against:
// a function that is not in it was introduced by a later edit and is treated as transparent (virtually inlined).
func printInventory(P *load.Program) {
	seen := map[string]bool{}
	var names []string
	for _, fn := range P.AllFuncs() {
		if fn.Parent() != nil {
			continue
		}
		n := ir.FuncKey(fn)
		if !seen[n] {
			seen[n] = true
			names = append(names, n)
		}
	}
	sort.Strings(names)
	for _, n := range names {
		fmt.Println(n)
	}
}
