// osmolint: repository-specific static checker for the osmosis properties C01..C20.
package main

import (
	"encoding/json"
	"flag"
	"fmt"
	"os"
	"strconv"
	"strings"
	"time"

	"osmolint/internal/ir"
	"osmolint/internal/load"
	"osmolint/internal/props"
	"osmolint/internal/report"
	"osmolint/internal/rules"
)

func main() {
	prop := flag.String("property", "", "property id (C01..C20), comma separated, or 'all'")
	tier := flag.String("tier", "quick", "quick|thorough")
	replay := flag.String("replay", "", "violation report to re-evaluate")
	dump := flag.Bool("dump", false, "dump rule facts for the function specs given as arguments")
	callers := flag.Bool("callers", false, "print non-test callers of the function specs given as arguments")
	briefN := flag.Int("brief", 0, "with -dump: omit logging/event calls and error returns, truncate lines to N chars")
	warm := flag.Bool("warm", false, "load the workspace once (warms the build cache) and exit")
	inventory := flag.Bool("inventory", false, "print the function inventory of the loaded tree and exit")
	self := flag.Bool("selftest", false, "run the rule kinds against the checker's own fixtures and exit (with -dump: print fixture facts)")
	flag.Parse()
	if t := os.Getenv("VERIF_TIER"); t != "" && (t == "quick" || t == "thorough") {
		*tier = t
	}
	seed := int64(0)
	if s := os.Getenv("VERIF_SEED"); s != "" {
		if n, err := strconv.ParseInt(s, 10, 64); err == nil {
			seed = n
		}
	}
	start := time.Now()

	var replayKey string
	if *replay != "" {
		b, err := os.ReadFile(*replay)
		if err != nil {
			fmt.Println("CHECK-BROKEN cannot read replay file:", err)
			os.Exit(2)
		}
		var doc struct {
			Property   string            `json:"property"`
			Obligation report.Obligation `json:"obligation"`
		}
		if err := json.Unmarshal(b, &doc); err != nil {
			fmt.Println("CHECK-BROKEN bad replay file:", err)
			os.Exit(2)
		}
		*prop = doc.Property
		replayKey = doc.Obligation.Key
	}

	if *self {
		fails := selfTest(*dump, flag.Args())
		for _, f := range fails {
			fmt.Println("SELFTEST-FAIL", f)
		}
		if len(fails) > 0 {
			os.Exit(2)
		}
		return
	}
	P, err := load.Load()
	if err != nil {
		fmt.Printf("CHECK-BROKEN property=%s cannot load /repo: %v\n", *prop, err)
		os.Exit(2)
	}
	if *warm {
		fmt.Printf("loaded %d packages, %d functions in %.1fs\n", len(P.Pkgs), P.NumFuncs, P.LoadTime.Seconds())
		return
	}
	if *inventory {
		printInventory(P)
		return
	}
	if *dump {
		ir.Brief = *briefN
		for _, spec := range flag.Args() {
			fn := P.Func(spec)
			if fn == nil {
				fmt.Println("unresolved:", spec)
				debugFunc(P, spec)
				continue
			}
			ir.Dump(os.Stdout, P.Fset, fn)
		}
		return
	}
	if *callers {
		res := &report.Result{FuncsTouched: map[string]bool{}}
		ctx := rules.NewCtx(P, "x", "quick", res)
		cg := ctx.CallGraph()
		for _, spec := range flag.Args() {
			fn := P.Func(spec)
			if fn == nil {
				fmt.Println("unresolved:", spec)
				continue
			}
			fmt.Println("==", ir.FuncName(fn))
			last := ""
			for _, cs := range cg.CallersOf(ir.FuncName(fn)) {
				if cs.Name != last {
					fmt.Printf("   %s   (%s)\n", cs.Name, cs.Pos)
				}
				last = cs.Name
			}
		}
		return
	}
	// thorough tier: the rule kinds are first exercised on the checker's own good/bad fixtures
	var selfFails []string
	selfRan := false
	if *tier == "thorough" && replayKey == "" {
		selfFails = selfTest(false, nil)
		selfRan = true
	}
	ids := strings.Split(*prop, ",")
	if *prop == "all" {
		ids = props.IDs()
	}
	exit := 0
	for _, id := range ids {
		p := props.Get(id)
		if p == nil {
			fmt.Printf("CHECK-BROKEN property=%s unknown property\n", id)
			os.Exit(2)
		}
		st := start
		if len(ids) > 1 {
			st = time.Now()
		}
		res := &report.Result{Property: id, Tier: *tier, Seed: seed, Start: st, Packages: len(P.Pkgs), Functions: P.NumFuncs,
			FuncsTouched: map[string]bool{}, Explanation: p.Explanation, NotCovered: p.NotCovered, Assumptions: p.Assumptions, Extra: map[string]interface{}{}}
		ctx := rules.NewCtx(P, id, *tier, res)
		func() {
			defer func() {
				if r := recover(); r != nil {
					res.Broken = append(res.Broken, fmt.Sprintf("checker panic: %v", r))
				}
			}()
			p.Run(ctx)
		}()
		if selfRan {
			res.Extra["selftest"] = "rule kinds exercised on fixtures/x/fx (good must hold, bad must report)"
			for _, f := range selfFails {
				res.Broken = append(res.Broken, "selftest: "+f)
			}
		}
		if len(res.Obligations) < p.MinObl {
			res.Broken = append(res.Broken, fmt.Sprintf("only %d obligations generated, floor is %d", len(res.Obligations), p.MinObl))
		}
		if replayKey != "" {
			for _, o := range res.Obligations {
				if o.Key == replayKey {
					fmt.Printf("replay %s\n  rule=%s subject=%s at %s\n  required: %s\n  found: %s\n  status: %s\n", o.Key, o.Kind, o.Subject, o.Pos, o.Desc, o.Detail, o.Status)
					if o.Status == report.Violated {
						os.Exit(1)
					}
					os.Exit(0)
				}
			}
			fmt.Println("replay: obligation no longer exists:", replayKey)
			os.Exit(2)
		}
		code := res.Finish()
		if code > exit {
			exit = code
		}
	}
	os.Exit(exit)
}
