package main

import (
	"fmt"
	"os"
	"path/filepath"
	"strings"

	"golang.org/x/tools/go/ssa"

	"osmolint/internal/analyses"
	"osmolint/internal/ir"
	"osmolint/internal/load"
	"osmolint/internal/report"
	"osmolint/internal/rules"
)

// checkerDir locates the checker's source tree (for the fixtures): VERIF_CHECKER, else <verif>/checker.
func checkerDir() string {
	if d := os.Getenv("VERIF_CHECKER"); d != "" {
		return d
	}
	return filepath.Join("/verif", "checker")
}

// selfTest runs every generic rule kind against the fixture package: the rule must hold on the Good… function and
// must report on the Bad… function. A rule kind that stops firing (or starts firing on the good example) makes the
// check broken. Returns the failures.
func selfTest(dump bool, specs []string) []string {
	ir.ExtraNew = func(fn *ssa.Function) bool { return strings.HasPrefix(fn.Name(), "helperNew") }
	defer func() { ir.ExtraNew = nil }()
	P, err := load.LoadFixture(checkerDir())
	if err != nil {
		return []string{"fixtures do not load: " + err.Error()}
	}
	if dump {
		for _, s := range specs {
			if fn := P.Func(s); fn != nil {
				ir.Dump(os.Stdout, P.Fset, fn)
			} else {
				fmt.Println("unresolved fixture:", s)
			}
		}
		return nil
	}
	var fails []string
	n := 0
	expect := func(name string, wantOK bool, run func(c *rules.Ctx)) {
		n++
		res := &report.Result{Property: "SELF", FuncsTouched: map[string]bool{}, Extra: map[string]interface{}{}}
		c := rules.NewCtx(P, "SELF", "quick", res)
		func() {
			defer func() {
				if r := recover(); r != nil {
					fails = append(fails, fmt.Sprintf("%s: panic %v", name, r))
				}
			}()
			run(c)
		}()
		if len(res.Obligations) == 0 {
			fails = append(fails, name+": rule produced no obligation")
			return
		}
		allOK := true
		detail := ""
		for _, o := range res.Obligations {
			if o.Status != report.OK {
				allOK = false
				detail = o.Detail
			}
		}
		if os.Getenv("VERIF_SELFTEST_VERBOSE") != "" {
			fmt.Printf("  %-40s want-holds=%v holds=%v %s\n", name, wantOK, allOK, detail)
		}
		if allOK != wantOK {
			if wantOK {
				fails = append(fails, name+": rule fires on the good fixture: "+detail)
			} else {
				fails = append(fails, name+": rule is silent on the bad fixture")
			}
		}
	}
	const F = "x/fx."
	pair := func(kind, good, bad string, run func(c *rules.Ctx, fn string)) {
		if good != "" {
			expect(kind+"/"+good, true, func(c *rules.Ctx) { run(c, F+good) })
		}
		if bad != "" {
			expect(kind+"/"+bad, false, func(c *rules.Ctx) { run(c, F+bad) })
		}
	}
	pair("FailsWhen", "GoodGuard", "BadGuard", func(c *rules.Ctx, fn string) {
		c.FailsWhen(fn, "ne(owner,sender)", "only the owner", rules.GuardOpt{Before: "fx.pay"})
	})
	pair("OnlyWhen", "GoodOnlyWhen", "BadOnlyWhen", func(c *rules.Ctx, fn string) { c.OnlyWhen(fn, "fx.Store.Del", "eq(n,0)", "delete only at zero") })
	pair("ReachedWhen", "GoodOnlyWhen", "BadReachedWhen", func(c *rules.Ctx, fn string) { c.ReachedWhen(fn, "fx.Store.Del", "eq(n,0)", "delete always at zero") })
	pair("CallArg", "GoodArg", "BadArg", func(c *rules.Ctx, fn string) { c.CallArg(fn, "fx.pay", 1, "amt", "pays the amount") })
	pair("Returns", "GoodArg", "BadArg", func(c *rules.Ctx, fn string) {
		c.Returns(fn, 0, "fx.pay(owner,amt)", "returns the payment's error", "")
	})
	pair("HasCall", "GoodPaired", "BadPaired", func(c *rules.Ctx, fn string) {
		c.HasCall(fn, "fx.book", []string{"amt"}, true, "booked on success", "")
	})
	pair("PairedArg", "GoodPaired", "BadPaired", func(c *rules.Ctx, fn string) { c.PairedArg(fn, "fx.pay", 1, "fx.book", "what is paid is booked") })
	pair("Order", "GoodOrder", "BadOrder", func(c *rules.Ctx, fn string) { c.Order(fn, "fx.check", "fx.pay", "check before pay") })
	pair("NeverAfter", "GoodOrder", "BadOrder", func(c *rules.Ctx, fn string) { c.NeverAfter(fn, "fx.pay", "fx.check", "no check after pay") })
	pair("ExactlyOnce", "GoodOrder", "BadTwice", func(c *rules.Ctx, fn string) { c.ExactlyOnce(fn, "fx.pay", "paid once") })
	pair("ForEach", "GoodForEach", "BadForEachSkip", func(c *rules.Ctx, fn string) { c.ForEach(fn, "fx.use", "xs", "every element", false) })
	pair("ForEach", "", "BadForEachBreak", func(c *rules.Ctx, fn string) { c.ForEach(fn, "fx.use", "xs", "every element", false) })
	pair("LoopOnlyFailExits", "GoodForEach", "BadForEachBreak", func(c *rules.Ctx, fn string) { c.LoopOnlyFailExits(fn, "no early success exit") })
	pair("FreshPerIteration", "GoodFresh", "BadFresh", func(c *rules.Ctx, fn string) { c.FreshPerIteration(fn, "fx.use", 0, "per-group sum") })
	pair("FreshRead", "GoodFreshRead", "BadFreshRead", func(c *rules.Ctx, fn string) { c.FreshRead(fn, "fx.read", "fx.mutate", "fx.use", 0, "no stale read") })
	pair("PathCase", "GoodPathCase", "BadPathCase", func(c *rules.Ctx, fn string) { c.PathCase(fn, "gt(v,max)", 1, "now", "clamp stamps the time") })
	pair("VarUpdatedWhen", "GoodBisect", "BadBisect", func(c *rules.Ctx, fn string) {
		c.VarUpdatedWhen(fn, "hi", "_", "gt(sub(dyn(f,_),target),0)", "upper bound moves when the image is too large")
	})
	pair("NoWrap", "GoodNoWrap", "BadNoWrap", func(c *rules.Ctx, fn string) { c.NoWrap(fn, "fx.split", 0, "8-bit split cannot wrap") })
	pair("MapKeys", "GoodMapKeys", "BadMapKeys", func(c *rules.Ctx, fn string) { c.MapKeys(fn, "elem(ks)", 2, "keyed by ks") })

	pair("StoresOnlyFields", "Pool.GoodReweigh", "Pool.BadReweigh", func(c *rules.Ctx, fn string) { c.StoresOnlyFields(fn, "Asset", []string{"Weight"}, "only weights") })
	pair("ReturnOnlyUnder", "GoodEmpty", "BadEmpty", func(c *rules.Ctx, fn string) {
		c.ReturnOnlyUnder(fn, 0, "eq(gross,0)", "true", "empty only without gross")
	})

	pair("NotUnder", "GoodNotUnder", "BadNotUnder", func(c *rules.Ctx, fn string) { c.NotUnder(fn, "fx.use", "dry", "use does not depend on the mode flag") })
	pair("MapAccumulate", "GoodAccumulate", "BadAccumulateDrop", func(c *rules.Ctx, fn string) { c.MapAccumulate(fn, "elem(vs)", 1, "summed per key") })
	pair("MapAccumulate", "", "BadAccumulateOverwrite", func(c *rules.Ctx, fn string) { c.MapAccumulate(fn, "elem(vs)", 0, "summed per key") })
	pair("KeyLayout", "GoodKey", "BadKeyOpenPrefix", func(c *rules.Ctx, fn string) { c.KeyLayout(fn, "idx/<pool>/<denom>/", "closed prefix") })

	pair("MustStore", "Book.GoodMustStore", "Book.BadMustStore", func(c *rules.Ctx, fn string) { c.MustStore(fn, "Total", "sub(b.Total,n)", "every success books") })
	pair("StoredObjectIsPassed", "GoodStoredPassed", "BadStoredPassed", func(c *rules.Ctx, fn string) { c.StoredObjectIsPassed(fn, "V", "fx.save", 0, "the modified record is saved") })
	pair("LoopBodyStraight", "GoodStraight", "BadStraightSkip", func(c *rules.Ctx, fn string) { c.LoopBodyStraight(fn, "no element skipped") })
	pair("CallArg/exact", "GoodExactArg", "BadExactArg", func(c *rules.Ctx, fn string) { c.CallArg(fn, "fx.save2", 0, "exact(elem(rs))", "the element is passed on unmodified") })

	// the same rules through helpers that are not in the function inventory (virtual inlining)
	pair("FailsWhen/helper", "GoodGuardViaHelper", "BadGuardViaHelper", func(c *rules.Ctx, fn string) {
		c.FailsWhen(fn, "ne(owner,sender)", "only the owner", rules.GuardOpt{Before: "fx.pay"})
	})
	pair("CallArg/helper", "GoodPairedViaHelper", "BadArgViaHelper", func(c *rules.Ctx, fn string) { c.CallArg(fn, "fx.pay", 1, "amt", "pays the amount") })
	pair("HasCall/helper", "GoodPairedViaHelper", "", func(c *rules.Ctx, fn string) {
		c.HasCall(fn, "fx.book", []string{"amt"}, true, "booked on success", "")
	})
	pair("CallArg/helper-value", "GoodValueViaHelper", "", func(c *rules.Ctx, fn string) {
		c.CallArg(fn, "fx.pay", 0, "phi(owner, receiver)", "pays the receiver or, when none, the owner")
	})

	// scanners
	rel := P.Rel
	sites := analyses.ScanDeterminism(P.Pkgs, rel, ir.PkgShort)
	got := map[string]string{}
	for _, s := range sites {
		got[s.Func+"/"+s.Kind] = s.What
	}
	has := func(fn, kindPrefix string) bool {
		for k := range got {
			if strings.HasPrefix(k, fn+"/") && strings.HasPrefix(strings.TrimPrefix(k, fn+"/"), kindPrefix) {
				return true
			}
		}
		return false
	}
	n += 4
	if !has("fx.BadMapOrder", "maprange") || has("fx.BadMapOrder", "maprange-ok") {
		fails = append(fails, "X-det: map iteration feeding an effect is not reported")
	}
	if !has("fx.GoodSortedKeys", "maprange-ok") {
		fails = append(fails, "X-det: collect-then-sort is not recognised as harmless")
	}
	if !has("fx.BadWallClock", "time") {
		fails = append(fails, "X-det: time.Now in state-machine code is not reported")
	}
	writes := analyses.ScanKeeperWrites(P.Pkgs, rel, ir.PkgShort)
	bad, good := false, false
	for _, w := range writes {
		if w.Func == "fx.Keeper.BadMemWrite" {
			bad = true
		}
		if w.Func == "fx.Keeper.GoodStoreWrite" {
			good = true
		}
	}
	if !bad || good {
		fails = append(fails, fmt.Sprintf("X-mem: in-memory keeper write reported=%v, store write reported=%v", bad, good))
	}
	fmt.Printf("selftest: %d rule/fixture expectations, %d failed\n", n, len(fails))
	return fails
}
