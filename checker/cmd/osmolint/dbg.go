package main

import (
	"fmt"
	"osmolint/internal/load"
)

func debugFunc(P *load.Program, spec string) {
	sp := P.SSAPkg("app/keepers")
	fmt.Println("ssapkg", sp != nil, P.Pkg("app/keepers") != nil)
	if p := P.Pkg("app/keepers"); p != nil {
		fmt.Println("errors", p.Errors, "illtyped", p.IllTyped, "types", p.Types != nil, "syntax", len(p.Syntax))
	}
	n := 0
	for _, p := range P.Pkgs {
		if P.SSAPkgs[p.PkgPath] == nil {
			n++
			fmt.Println("no ssa:", p.PkgPath, p.IllTyped, len(p.Errors))
		}
	}
}
