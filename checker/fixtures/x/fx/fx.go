// Package fx holds the checker's self-test fixtures: for every generic rule kind one function on which the rule
// must hold (Good…) and one on which it must report (Bad…). The fixtures are plain Go over the standard library;
// they are analysed, never executed. The expectation table is in cmd/osmolint/selftest.go.
package fx

import (
	"errors"
	"fmt"
	"sort"
	"time"
)

type Store struct{ m map[string]int }

func (s *Store) Get(k string) (int, error) { v, ok := s.m[k]; _ = ok; return v, nil }
func (s *Store) Set(k string, v int)       { s.m[k] = v }
func (s *Store) Del(k string)              { delete(s.m, k) }
func pay(to string, amt int) error         { _ = to; _ = amt; return nil }
func book(amt int)                         { _ = amt }
func check(owner string) error             { _ = owner; return nil }
func use(x int)                            { _ = x }
func read(k string) *int                   { _ = k; return new(int) }
func mutate(k string)                      { _ = k }

var errNo = errors.New("no")

// ---- G: FailsWhen / OnlyWhen / ReachedWhen
func GoodGuard(owner, sender string, amt int) error {
	if owner != sender {
		return errNo
	}
	return pay(owner, amt)
}

func BadGuard(owner, sender string, amt int) error {
	if owner != sender && amt > 5 { // weakened
		return errNo
	}
	return pay(owner, amt)
}

func GoodOnlyWhen(s *Store, k string, n int) {
	if n == 0 {
		s.Del(k)
	}
}

func BadOnlyWhen(s *Store, k string, n int) {
	if n >= 0 {
		s.Del(k)
	}
}

func BadReachedWhen(s *Store, k string, n, other int) {
	if n == 0 && other > 3 {
		s.Del(k)
	}
}

// ---- A: CallArg / Returns
func GoodArg(owner string, amt int) error { return pay(owner, amt) }
func BadArg(owner string, amt int) error  { return pay(owner, amt+1) }

// ---- M: HasCall on success / PairedArg
func GoodPaired(to string, amt int) error {
	if err := pay(to, amt); err != nil {
		return err
	}
	book(amt)
	return nil
}

func BadPaired(to string, amt int) error {
	if err := pay(to, amt); err != nil {
		return err
	}
	if amt > 10 {
		book(amt)
	}
	return nil
}

// ---- O: Order / NeverAfter / ExactlyOnce
func GoodOrder(owner string, amt int) error {
	if err := check(owner); err != nil {
		return err
	}
	return pay(owner, amt)
}

func BadOrder(owner string, amt int) error {
	err := pay(owner, amt)
	if err != nil {
		return err
	}
	return check(owner)
}

func BadTwice(owner string, amt int) error {
	if err := pay(owner, amt); err != nil {
		return err
	}
	return pay(owner, amt)
}

// ---- loops: ForEach / LoopOnlyFailExits / FreshPerIteration
func GoodForEach(xs []int) {
	for _, x := range xs {
		use(x)
	}
}

func BadForEachSkip(xs []int) {
	for _, x := range xs {
		if x == 3 {
			continue
		}
		use(x)
	}
}

func BadForEachBreak(xs []int) {
	for _, x := range xs {
		use(x)
		if x == 3 {
			break
		}
	}
}

func GoodFresh(groups [][]int) {
	for _, g := range groups {
		sum := 0
		for _, x := range g {
			sum += x
		}
		use(sum)
	}
}

func BadFresh(groups [][]int) {
	sum := 0
	for _, g := range groups {
		for _, x := range g {
			sum += x
		}
		use(sum)
	}
}

// ---- FreshRead
func GoodFreshRead(k string) {
	mutate(k)
	p := read(k)
	use(*p)
}

func BadFreshRead(k string) {
	p := read(k)
	mutate(k)
	use(*p)
}

// ---- PathCase / VarUpdatedWhen
func GoodPathCase(v, max int, prev, now time.Time) (int, time.Time) {
	t := prev
	if v > max {
		v, t = max, now
	}
	return v, t
}

func BadPathCase(v, max int, prev, now time.Time) (int, time.Time) {
	t := prev
	if v > max {
		v = max
	}
	return v, t
}

func GoodBisect(f func(int) int, lo, hi, target int) int {
	for i := 0; i < 64; i++ {
		mid := (lo + hi) / 2
		c := f(mid) - target
		if c > 0 {
			hi = mid
		} else if c < 0 {
			lo = mid
		} else {
			return mid
		}
	}
	return -1
}

func BadBisect(f func(int) int, lo, hi, target int) int {
	for i := 0; i < 64; i++ {
		mid := (lo + hi) / 2
		c := f(mid) - target
		if c < 0 {
			hi = mid
		} else if c > 0 {
			lo = mid
		} else {
			return mid
		}
	}
	return -1
}

// ---- NoWrap
type T struct{ m uint8 }

func split(i int) { _ = i }

func GoodNoWrap(t T) { split(int(t.m/2 + 1)) }
func BadNoWrap(t T)  { split(int((t.m + 2) / 2)) }

// ---- MapKeys
func GoodMapKeys(ks []string, ds []int) map[string]int {
	out := map[string]int{}
	for i, k := range ks {
		out[k] += ds[i]
	}
	return out
}

func BadMapKeys(ks []string, other []string, ds []int) map[string]int {
	out := map[string]int{}
	for i := range ks {
		out[other[i]] += ds[i]
	}
	return out
}

// ---- X-det: map iteration feeding an ordered effect, wall-clock time
func GoodSortedKeys(m map[string]int) []string {
	var ks []string
	for k := range m {
		ks = append(ks, k)
	}
	sort.Strings(ks)
	return ks
}

func BadMapOrder(m map[string]int, s *Store) {
	for k, v := range m {
		if err := pay(k, v); err != nil {
			return
		}
	}
}

func BadWallClock(s *Store) { s.Set("t", int(time.Now().Unix())) }

// ---- X-mem: keeper memory written during execution
type Keeper struct {
	cache map[string]int
	store *Store
}

func (k *Keeper) BadMemWrite(key string, v int)    { k.cache[key] = v }
func (k *Keeper) GoodStoreWrite(key string, v int) { k.store.Set(key, v) }

// ---- StoresOnlyFields / ReturnOnlyUnder
type Asset struct {
	Weight int
	Amount int
}

type Pool struct{ Assets []Asset }

func (p *Pool) GoodReweigh(ws []Asset) {
	for i := range p.Assets {
		p.Assets[i].Weight = ws[i].Weight
	}
}

func (p *Pool) BadReweigh(ws []Asset) {
	for i := range p.Assets {
		p.Assets[i] = ws[i]
	}
}

func GoodEmpty(gross, net int) bool {
	empty := false
	if gross == 0 && net == 0 {
		empty = true
	}
	return empty
}

func BadEmpty(gross, net, delta int) bool {
	empty := false
	if delta < 0 && net == 0 {
		empty = true
	}
	return empty
}

// ---- virtual inlining of helpers that are not in the function inventory (names starting with helperNew are
// declared "new" by the self-test): the same guard / argument / pairing rules must hold when the code sits in a helper
func helperNewCheckOwner(owner, sender string) error {
	if owner != sender {
		return errNo
	}
	return nil
}

func GoodGuardViaHelper(owner, sender string, amt int) error {
	if err := helperNewCheckOwner(owner, sender); err != nil {
		return err
	}
	return pay(owner, amt)
}

func helperNewCheckNothing(owner, sender string, amt int) error {
	if owner != sender && amt > 5 {
		return errNo
	}
	return nil
}

func BadGuardViaHelper(owner, sender string, amt int) error {
	if err := helperNewCheckNothing(owner, sender, amt); err != nil {
		return err
	}
	return pay(owner, amt)
}

func helperNewSettle(to string, amt int) error {
	if err := pay(to, amt); err != nil {
		return err
	}
	book(amt)
	return nil
}

func GoodPairedViaHelper(to string, amt int) error { return helperNewSettle(to, amt) }

func helperNewSettleWrong(to string, amt int) error {
	if err := pay(to, amt+1); err != nil {
		return err
	}
	book(amt)
	return nil
}

func BadArgViaHelper(to string, amt int) error { return helperNewSettleWrong(to, amt) }

func helperNewReceiver(receiver, owner string) string {
	if receiver == "" {
		return owner
	}
	return receiver
}

func GoodValueViaHelper(receiver, owner string, amt int) error {
	return pay(helperNewReceiver(receiver, owner), amt)
}

// ---- G: NotUnder (the transition does not hide behind the mode flag)
func GoodNotUnder(xs []int, dry bool) int {
	t := 0
	for _, x := range xs {
		if !dry {
			book(x)
		}
		use(x)
		t += x
	}
	return t
}

func BadNotUnder(xs []int, dry bool) int {
	t := 0
	for _, x := range xs {
		if !dry {
			book(x)
			use(x)
		}
		t += x
	}
	return t
}

// ---- A: MapAccumulate (a second contribution for a key is added, never dropped or overwriting)
func GoodAccumulate(ks []string, vs []int) map[string]int {
	m := map[string]int{}
	for i, k := range ks {
		n := vs[i]
		if cur, ok := m[k]; ok {
			n = n + cur
		}
		m[k] = n
	}
	return m
}

func BadAccumulateDrop(ks []string, vs []int) map[string]int {
	m := map[string]int{}
	for i, k := range ks {
		if cur, ok := m[k]; ok {
			cur = cur + vs[i]
			_ = cur
		} else {
			m[k] = vs[i]
		}
	}
	return m
}

func BadAccumulateOverwrite(ks []string, vs []int) map[string]int {
	m := map[string]int{}
	for i, k := range ks {
		m[k] = vs[i]
	}
	return m
}

// ---- Y: KeyLayout
func GoodKey(pool uint64, denom string) []byte {
	return []byte(fmt.Sprintf("idx/%d/%s/", pool, denom))
}

func BadKeyOpenPrefix(pool uint64, denom string) []byte {
	return []byte(fmt.Sprintf("idx/%d/%s", pool, denom))
}

// ---- M: MustStore / StoredObjectIsPassed ; O: LoopBodyStraight
type Book struct{ Total int }

type Rec struct{ V int }

func save(r *Rec) { _ = r }

func (b *Book) GoodMustStore(n int) error {
	if n < 0 {
		return errNo
	}
	b.Total = b.Total - n
	return nil
}

func (b *Book) BadMustStore(n int) error {
	if n == 0 {
		return nil // "nothing to do" also skips the bookkeeping
	}
	b.Total = b.Total - n
	return nil
}

func GoodStoredPassed(rs []Rec) {
	for _, r := range rs {
		r.V = r.V * 2
		save(&r)
	}
}

func BadStoredPassed(rs []Rec) {
	for _, r := range rs {
		c := r
		c.V = c.V * 2
		save(&r)
	}
}

func GoodStraight(xs []int) []int {
	out := make([]int, len(xs))
	for i, x := range xs {
		out[i] = x + 1
	}
	return out
}

func BadStraightSkip(xs []int) []int {
	out := make([]int, 0, len(xs))
	for _, x := range xs {
		if x == 0 {
			continue
		}
		out = append(out, x+1)
	}
	return out
}

// exact(): the argument is the collection element itself, with no field updated on any path.
func GoodExactArg(rs []Rec) {
	for _, r := range rs {
		save2(r)
	}
}

func BadExactArg(rs []Rec, floor int) {
	for _, r := range rs {
		if r.V < floor {
			r.V = floor
		}
		save2(r)
	}
}

func save2(r Rec) { _ = r }
