#!/bin/bash
# Re-applies every kept behaviour-preserving refactor (benign/<id>/<name>/patch.diff) in the scratch worktree /tmp/mt
# and runs ALL property checks on it in one process. Any VIOLATION / CHECK-BROKEN line is a false alarm.
cd /tmp/mt || exit 9
git checkout -q -- . ; git clean -fdq . ; git checkout -q --detach main
tot=0; silent=0
for d in /verif/benign/*/*/; do
  id=$(basename $(dirname $d))/$(basename $d)
  git checkout -q -- .
  if ! git apply --whitespace=nowarn $d/patch.diff 2>/dev/null; then echo "$id NOAPPLY"; tot=$((tot+1)); continue; fi
  res=$(VERIF_REPO=/tmp/mt VERIF_DIR=/tmp/mt-verif /verif/bin/osmolint -property all 2>&1)
  tot=$((tot+1))
  if echo "$res" | grep -q "^VIOLATION\|^CHECK-BROKEN"; then echo "$id ALARM"; echo "$res" | grep -A2 "^VIOLATION\|^CHECK-BROKEN" | head -6 | cut -c1-300; else silent=$((silent+1)); fi
done
git checkout -q -- .
echo "benign=$tot silent=$silent"
