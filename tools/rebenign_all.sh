#!/bin/bash
# Re-applies every kept behaviour-preserving refactor (benign/<id>/<name>/patch.diff) in a scratch worktree (default
# /tmp/mt) and runs ALL property checks on it in one process. Any VIOLATION / CHECK-BROKEN line is a false alarm.
# Sharding for parallel runs: WT=/tmp/mt2 SHARD=1 NSHARDS=4 tools/rebenign_all.sh (the scratch tree's verif dir
# $WT-verif needs a copy of known_findings.json).
WT=${WT:-/tmp/mt}; SHARD=${SHARD:-0}; NSHARDS=${NSHARDS:-1}; BIN=${BIN:-/verif/bin/osmolint}
cd $WT || exit 9
mkdir -p $WT-verif; cp /verif/known_findings.json $WT-verif/
git checkout -q -- . ; git clean -fdq . ; git checkout -q --detach main
tot=0; silent=0; i=0
for d in /verif/benign/*/*/; do
  i=$((i+1)); [ $((i % NSHARDS)) -eq $SHARD ] || continue
  id=$(basename $(dirname $d))/$(basename $d)
  git checkout -q -- .
  if ! git apply --whitespace=nowarn $d/patch.diff 2>/dev/null; then echo "$id NOAPPLY"; tot=$((tot+1)); continue; fi
  res=$(VERIF_REPO=$WT VERIF_DIR=$WT-verif $BIN -property all 2>&1)
  tot=$((tot+1))
  if echo "$res" | grep -q "^VIOLATION\|^CHECK-BROKEN"; then echo "$id ALARM"; echo "$res" | grep -A2 "^VIOLATION\|^CHECK-BROKEN" | head -6 | cut -c1-300; else silent=$((silent+1)); fi
done
git checkout -q -- .
echo "benign=$tot silent=$silent"
