#!/bin/bash
# Re-runs every kept seeded change against the current checker: applies the patch in a scratch worktree
# (default /tmp/mt, created with: git -C /repo worktree add --detach /tmp/mt main), runs the property's check on that
# tree and reports DETECTED / MISSED / NOAPPLY per seed. Does not run the demonstrations (tools/confirm_seed.sh does).
# Sharding for parallel runs: WT=/tmp/mt2 SHARD=1 NSHARDS=4 tools/reseed_all.sh  (shard k takes every n-th seed).
WT=${WT:-/tmp/mt}; SHARD=${SHARD:-0}; NSHARDS=${NSHARDS:-1}; BIN=${BIN:-/verif/bin/osmolint}
cd $WT || exit 9
mkdir -p $WT-verif; cp /verif/known_findings.json $WT-verif/
git checkout -q -- . ; git clean -fdq . ; git checkout -q --detach main
tot=0; det=0; i=0
for d in /verif/seeded/*/*/; do
  i=$((i+1)); [ $((i % NSHARDS)) -eq $SHARD ] || continue
  prop=$(basename $(dirname $d)); name=$(basename $d)
  git checkout -q -- .
  if ! git apply --whitespace=nowarn $d/patch.diff 2>/dev/null; then echo "$prop/$name NOAPPLY"; tot=$((tot+1)); continue; fi
  res=$(VERIF_REPO=$WT VERIF_DIR=$WT-verif $BIN -property $prop 2>&1)
  tot=$((tot+1))
  if echo "$res" | grep -q "^VIOLATION"; then det=$((det+1)); echo "$prop/$name DETECTED $(echo "$res" | grep -c '^VIOLATION')"; else echo "$prop/$name MISSED"; fi
done
git checkout -q -- .
echo "seeds=$tot detected=$det"
