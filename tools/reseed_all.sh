#!/bin/bash
# Re-runs every kept seeded change against the current checker: applies the patch in the scratch worktree /tmp/mt
# (created with: git -C /repo worktree add --detach /tmp/mt main), runs the property's check on that tree and reports
# DETECTED / MISSED / NOAPPLY per seed. Does not run the demonstrations (tools/confirm_seed.sh does).
cd /tmp/mt || exit 9
git checkout -q -- . ; git clean -fdq . ; git checkout -q --detach main
tot=0; det=0
for d in /verif/seeded/*/*/; do
  prop=$(basename $(dirname $d)); name=$(basename $d)
  git checkout -q -- .
  if ! git apply --whitespace=nowarn $d/patch.diff 2>/dev/null; then echo "$prop/$name NOAPPLY"; tot=$((tot+1)); continue; fi
  res=$(VERIF_REPO=/tmp/mt VERIF_DIR=/tmp/mt-verif /verif/bin/osmolint -property $prop 2>&1)
  tot=$((tot+1))
  if echo "$res" | grep -q "^VIOLATION"; then det=$((det+1)); echo "$prop/$name DETECTED $(echo "$res" | grep -c '^VIOLATION')"; else echo "$prop/$name MISSED"; fi
done
git checkout -q -- .
echo "seeds=$tot detected=$det"
