#!/usr/bin/env python3
"""Regenerates /verif/seeded/INDEX.md from the meta.json of every kept seeded change."""
import json, glob, os
rows = []
for m in sorted(glob.glob('/verif/seeded/*/*/meta.json')):
    d = json.load(open(m))
    name = os.path.basename(os.path.dirname(m))
    det = "; ".join(sorted({f"{x['rule']} @ {x['subject'].split('/')[-1]}" for x in d.get('detected_by', [])})) or "-"
    rows.append((d['property'], name, d.get('summary', '').replace('|', '/'), d.get('needs_to_manifest', '').replace('|', '/'), d.get('check_result', '?'), det))
out = ["# Seeded changes (property-breaking, compile, existing tests pass)", "",
       "Each directory holds `patch.diff` (apply with `git -C /repo apply`, undo with `git -C /repo checkout -- .`), `demo_test.go` (first line says where to place it; fails with the change, passes without) and `meta.json`.",
       "All were produced by fresh sub-agents that saw only the property text and a scratch worktree, then confirmed with `tools/confirm_seed.sh` (see meta.json).", "",
       "| property | seed | change | needs to manifest | check | reported by (rule @ subject) |", "|---|---|---|---|---|---|"]
for r in rows:
    out.append("| " + " | ".join(r) + " |")
n = len(rows); d = sum(1 for r in rows if r[4].startswith('DETECTED'))
out += ["", f"{d} of {n} seeded changes are reported by the property's check."]
open('/verif/seeded/INDEX.md', 'w').write("\n".join(out) + "\n")
print(n, d)
