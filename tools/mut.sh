#!/bin/sh
# usage: mut.sh <property[,property]> <file-relative-to-repo> <sed-expr> [more sed exprs]
# Applies the edit in the scratch worktree /tmp/mt, runs the check against it, restores the file.
prop=$1; file=$2; shift 2
cd /tmp/mt || exit 9
git checkout -q -- . 
for e in "$@"; do sed -i "$e" "$file"; done
if git diff --quiet; then echo "MUTATION DID NOT CHANGE ANYTHING"; exit 9; fi
git diff --stat | tail -1
(cd /tmp/mt && GOFLAGS= GOPROXY=off GOSUMDB=off go build ./$(dirname $file)/ 2>&1 | head -5)
VERIF_REPO=/tmp/mt VERIF_DIR=/tmp/mt-verif /verif/bin/osmolint -property $prop 2>&1 | egrep -v '^(NOTE|KNOWN)' | cut -c1-400 | head -${MUT_LINES:-12}
git checkout -q -- .
