#!/usr/bin/env python3
"""usage: keep_seed.py <prop> <src mutation dir> <name>
Runs tools/confirm_seed.sh on a sub-agent mutation and, if it is confirmed (demo passes without / fails with the
change, the tree builds, touched pinned modules keep passing), stores it as /verif/seeded/<prop>/<name>/ with a
meta.json recording what was run and which rules of the check reported it."""
import json, os, re, shutil, subprocess, sys
prop, src, name = sys.argv[1:4]
out = subprocess.run(["/verif/tools/confirm_seed.sh", prop, src], capture_output=True, text=True).stdout
print(out.strip()[:1500])
m = re.search(r"demo_without=(\S+) build=(\S+) demo_with=(\S+) pinned_tests=(\S+) check=(\S+)", out)
if not m:
    sys.exit("no verdict")
without, build, with_, pinned, check = m.groups()
if not (without == "PASS" and build == "OK" and with_ == "FAIL" and pinned in ("PASS", "n/a")):
    sys.exit("NOT CONFIRMED: " + m.group(0))
agent = json.load(open(os.path.join(src, "meta.json")))
rules = re.findall(r"rule=(\S+) subject=(\S+) at (\S+)\n\s+required: (.*)", out)
dst = f"/verif/seeded/{prop}/{name}"
os.makedirs(dst, exist_ok=True)
shutil.copy(os.path.join(src, "patch.diff"), dst)
shutil.copy(os.path.join(src, "demo_test.go"), dst)
meta = {
    "property": prop,
    "summary": agent.get("summary", ""),
    "needs_to_manifest": agent.get("needs", agent.get("what_it_needs", "")),
    "files": agent.get("files", agent.get("file", "")),
    "demo_cmd": agent.get("demo_cmd", ""),
    "origin": "fresh sub-agent given only the property text and a scratch worktree",
    "confirmed_by": "tools/confirm_seed.sh in scratch worktree /tmp/mt: demo passes on the clean tree, patch applies, go build ./... succeeds, demo fails with the patch, tests of touched pinned-suite modules (osmomath, osmoutils, x/epochs) still pass",
    "confirmation": {"demo_without": without, "build": build, "demo_with": with_, "pinned_module_tests": pinned},
    "check_result": check,
    "detected_by": [{"rule": r, "subject": s, "at": a, "required": q} for r, s, a, q in rules],
}
json.dump(meta, open(os.path.join(dst, "meta.json"), "w"), indent=1, ensure_ascii=False)
print("KEPT", dst, check)
