#!/usr/bin/env python3
"""Regenerates /verif/benign/INDEX.md from the meta.json of every kept behaviour-preserving refactor."""
import json, glob, os
rows = []
for m in sorted(glob.glob('/verif/benign/*/*/meta.json')):
    d = json.load(open(m))
    rows.append((os.path.basename(os.path.dirname(os.path.dirname(m))), os.path.basename(os.path.dirname(m)), d.get('kind', '').replace('|', '/'), d.get('summary', '').replace('|', '/')[:260], d.get('check_result', '?'), ",".join(d.get('checked_properties', []))))
out = ["# Behaviour-preserving refactors (no check may report them)", "",
       "Produced by fresh sub-agents asked for refactors of the property's anchor functions that keep behaviour identical for all inputs (tests of the touched packages pass). `tools/benign_check.py` applies each in the scratch worktree and runs the checks (`ALL=1`: every property's check). A report on one of these is a false alarm of the machinery.", "",
       "| property | id | kind | change | checks | properties run |", "|---|---|---|---|---|---|"]
for r in rows:
    out.append("| " + " | ".join(r) + " |")
n = len(rows); q = sum(1 for r in rows if r[4] == 'SILENT')
out += ["", f"{q} of {n} refactors leave the checks silent."]
open('/verif/benign/INDEX.md', 'w').write("\n".join(out) + "\n")
print(n, q)
