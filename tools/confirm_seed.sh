#!/bin/bash
# usage: confirm_seed.sh <prop> <mutation dir with patch.diff demo_test.go meta.json>
# Confirms in the scratch worktree $WT (default /tmp/mt; env WT, BIN for parallel runs): (1) demo passes without the change, (2) the change applies and
# compiles, (3) demo fails with it, (4) pinned-suite modules touched by the patch still pass their tests.
# Then runs the property's check against the changed scratch tree. Prints a one-line verdict.
prop=$1; d=$2
WT=${WT:-/tmp/mt}; BIN=${BIN:-/verif/bin/osmolint}
export GOPROXY=off GOSUMDB=off GOTOOLCHAIN=local; unset GOFLAGS GOWORK
cd $WT || exit 9
mkdir -p $WT-verif; cp /verif/known_findings.json $WT-verif/
git checkout -q -- . ; git clean -fdq -- . >/dev/null 2>&1
echo 'package statik' > client/docs/statik/statik.go
rm -f x/concentrated-liquidity/fuzz_test.go
pkgdir=$(head -1 $d/demo_test.go | sed -n 's|^// place in: *||p' | tr -d ' ')
[ -z "$pkgdir" ] && { echo "SEED $d: no 'place in' line"; exit 9; }
cp $d/demo_test.go $pkgdir/zz_demo_test.go
mod=.
case "$pkgdir" in osmomath*) mod=osmomath;; osmoutils*) mod=osmoutils;; x/epochs*) mod=x/epochs;; x/ibc-hooks*) mod=x/ibc-hooks;; esac
rel=${pkgdir#$mod}; rel=${rel#/}
runre=$(python3 -c "
import json,re,sys
m=json.load(open('$d/meta.json')); c=m.get('demo_cmd','')
r=re.search(r\"-run[ =]+'([^']+)'\", c) or re.search(r'-run[ =]+\"([^\"]+)\"', c) or re.search(r'-run[ =]+(\S+)', c)
print(r.group(1) if r else 'ZZDemo')")
run_demo() { (cd $WT/$mod && timeout 1500 go test ./$rel -count=1 -run "$runre" 2>&1 | tail -25); }
out0=$(run_demo); echo "$out0" | grep -q "^ok" && without=PASS || without=FAIL
echo "$out0" | grep -q "no tests to run" && without=NOTRUN
git apply --whitespace=nowarn $d/patch.diff 2>$WT-verif/apply.err || { echo "SEED $d: patch does not apply: $(cat $WT-verif/apply.err | head -2)"; exit 9; }
build=OK; (go build ./... >$WT-verif/build.err 2>&1) || build=FAIL
for m in osmomath osmoutils x/epochs; do if grep -q "^+++ b/$m/" $d/patch.diff; then (cd $m && go build ./... >>$WT-verif/build.err 2>&1) || build=FAIL; fi; done
out1=$(run_demo); echo "$out1" | grep -q "^ok" && with=PASS || with=FAIL
pinned=n/a
for m in osmomath osmoutils x/epochs; do
  if grep -q "^+++ b/$m/" $d/patch.diff; then
    rm -f $pkgdir/zz_demo_test.go
    (cd $m && timeout 1500 go test ./... -count=1 >$WT-verif/pinned.out 2>&1) && pinned=PASS || pinned=FAIL
    cp $d/demo_test.go $pkgdir/zz_demo_test.go
  fi
done
rm -f $pkgdir/zz_demo_test.go
res=$(VERIF_REPO=$WT VERIF_DIR=$WT-verif $BIN -property $prop 2>&1)
echo "$res" | grep -q "^VIOLATION" && det=DETECTED || det=MISSED
echo "$res" | grep -q "CHECK-BROKEN" && det="$det(BROKEN)"
echo "SEED $d: demo_without=$without build=$build demo_with=$with pinned_tests=$pinned check=$det"
echo "$res" | grep -A3 "^VIOLATION" | grep "rule=\|required" | head -4 | cut -c1-220
[ "$with" = PASS ] && echo "$out1" | tail -3
[ "$without" = FAIL ] && echo "$out0" | tail -8
git checkout -q -- . ; git clean -fdq -- . >/dev/null 2>&1
