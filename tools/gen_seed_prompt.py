#!/usr/bin/env python3
"""usage: gen_seed_prompt.py <prop> [n]  — instantiate the round-8 seed prompt for one property (worktree /tmp/sk-<prop>, output /tmp/sk-out/<prop>)."""
import json, sys, re
prop = sys.argv[1]; n = int(sys.argv[2]) if len(sys.argv) > 2 else 2
tmpl = open('/verif/tools/prompts/seed_round7_example_C06.txt').read()
head, rest = tmpl.split('\nPROPERTY\n', 1)
_, tail = rest.split('\nFor EACH mutation', 1)
tail = '\nFor EACH mutation' + tail
p = next(json.loads(l) for l in open('/verif/properties.jsonl') if json.loads(l)['id'] == prop)
body = f"id: {p['id']}\ntitle: {p['title']}\nstatement: {p['statement']}\nquantifier: {(p.get('quantifier') or {}).get('text','') if isinstance(p.get('quantifier'),dict) else p.get('quantifier','')}\nwhy tests cannot settle it: {p.get('why_tests_cant','')}\nanchors (where the relevant code lives):\n{json.dumps(p.get('anchors',{}), indent=1)}\n"
out = head + '\nPROPERTY\n' + body + tail
out = out.replace('sj-C06', 'sk-' + prop).replace('sj-out/C06', 'sk-out/' + prop).replace('"property": "C06"', f'"property": "{prop}"')
words = {2: ('2', 'two', 'both'), 3: ('3', 'three', 'ALL three')}[n]
out = out.replace('produce 3 DIFFERENT', f'produce {words[0]} DIFFERENT').replace('ALL three mutations', f'{words[2]} mutations').replace('Make the three mutations of three different kinds', f'Make the {words[1]} mutations of {words[1]} different kinds').replace('(1..3)', f'(1..{n})')
out += f"\nTIME BUDGET: you have about 20 minutes of wall-clock time in total. Decide quickly, keep test runs narrowly filtered with -run, and deliver each mutation directory as soon as it is complete (a complete m1 is worth more than two unfinished ones). Other agents are building on the same machine, so builds may be slower than usual.\n"
print(out)
