#!/usr/bin/env python3
"""usage: refresh_seed_meta.py [WT]   (default /tmp/mt5)
For every kept seed whose meta.json still says MISSED, applies the patch in the scratch worktree, runs the property's
check with the current checker and, if the change is now reported, records check_result=DETECTED, the reporting rules,
and keeps the original verdict as "check_result_when_kept". The demonstrations are not re-run (they were when kept)."""
import glob, json, os, re, subprocess, sys
wt = sys.argv[1] if len(sys.argv) > 1 else "/tmp/mt5"
binp = os.environ.get("BIN", "/verif/bin/osmolint")
os.makedirs(wt + "-verif", exist_ok=True)
subprocess.run(["cp", "/verif/known_findings.json", wt + "-verif/"])
def git(*a): return subprocess.run(["git", "-C", wt, *a], capture_output=True, text=True)
for m in sorted(glob.glob("/verif/seeded/*/*/meta.json")):
    d = json.load(open(m))
    if not d.get("check_result", "").startswith("MISSED"):
        continue
    git("checkout", "-q", "--", ".")
    if git("apply", "--whitespace=nowarn", os.path.join(os.path.dirname(m), "patch.diff")).returncode != 0:
        print(m, "NOAPPLY"); continue
    out = subprocess.run([binp, "-property", d["property"]], capture_output=True, text=True, errors="replace",
                         env=dict(os.environ, VERIF_REPO=wt, VERIF_DIR=wt + "-verif")).stdout
    rules = re.findall(r"VIOLATION .*\n\s+rule=(\S+) subject=(\S+) at (\S+)\n\s+required: (.*)", out)
    if rules:
        d["check_result_when_kept"] = d["check_result"]
        d["check_result"] = "DETECTED"
        d["detected_by"] = [{"rule": r, "subject": s, "at": a, "required": q} for r, s, a, q in rules]
        json.dump(d, open(m, "w"), indent=1, ensure_ascii=False)
    print(m.split("/seeded/")[1], "DETECTED" if rules else "STILL MISSED", len(rules))
git("checkout", "-q", "--", ".")
