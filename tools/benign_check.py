#!/usr/bin/env python3
"""usage: benign_check.py <prop> <src dir with patch.diff meta.json> <name>
Applies a behaviour-preserving refactor in the scratch worktree /tmp/mt, builds, runs the property's check (and, with
ALL=1, every property's check) against the changed tree. A VIOLATION is a false alarm of the machinery. Silent ones
are kept under /verif/benign/<prop>/<name>/ as regression material."""
import json, os, re, shutil, subprocess, sys
prop, src, name = sys.argv[1:4]
WT = os.environ.get("WT", "/tmp/mt"); BIN = os.environ.get("BIN", "/verif/bin/osmolint")
env = dict(os.environ, GOPROXY="off", GOSUMDB="off", GOTOOLCHAIN="local"); env.pop("GOFLAGS", None); env.pop("GOWORK", None)
def sh(cmd, **kw): return subprocess.run(cmd, shell=True, capture_output=True, text=True, cwd=WT, env=env, **kw)
sh("git checkout -q -- . ; git clean -fdq . ; git checkout -q --detach main")
a = sh(f"git apply --whitespace=nowarn {src}/patch.diff")
if a.returncode != 0:
    print(f"BENIGN {prop}/{name}: patch does not apply: {a.stderr.strip()[:200]}"); sys.exit(9)
patch = open(f"{src}/patch.diff").read()
mods = {"."}
for m in ("osmomath", "osmoutils", "x/epochs"):
    if re.search(rf"^\+\+\+ b/{m}/", patch, re.M): mods.add(m)
build = "OK"
for m in mods:
    b = subprocess.run("go build ./...", shell=True, capture_output=True, text=True, cwd=f"{WT}/{m}", env=env)
    if b.returncode != 0 and "statik" not in b.stderr: build = "FAIL: " + b.stderr[:300]
props = [prop] if not os.environ.get("ALL") else ["all"]
alarms = []
for p in props:
    r = subprocess.run([BIN, "-property", p], capture_output=True, text=True, env=dict(os.environ, VERIF_REPO=WT, VERIF_DIR=WT + "-verif"))
    out = r.stdout
    for m in re.finditer(r"VIOLATION property=(\S+).*\n\s+rule=(\S+) subject=(\S+) at (\S+)\n\s+required: (.*)\n\s+found: (.*)", out):
        alarms.append({"property": m.group(1), "rule": m.group(2), "subject": m.group(3), "at": m.group(4), "required": m.group(5), "found": m.group(6)[:300]})
    for m in re.finditer(r"CHECK-BROKEN (.*)", out):
        alarms.append({"property": p, "broken": m.group(1)[:300]})
sh("git checkout -q -- . ; git clean -fdq .")
verdict = "SILENT" if not alarms else "ALARM"
print(f"BENIGN {prop}/{name}: build={build} check={verdict}")
for a in alarms: print("   ", json.dumps(a)[:600])
meta = json.load(open(f"{src}/meta.json"))
dst = f"/verif/benign/{prop}/{name}"
os.makedirs(dst, exist_ok=True)
shutil.copy(f"{src}/patch.diff", dst)
meta.update({"origin": "fresh sub-agent asked for behaviour-preserving refactors of the property's anchor functions", "build": build, "check_result": verdict, "alarms": alarms, "checked_properties": props})
json.dump(meta, open(f"{dst}/meta.json", "w"), indent=1, ensure_ascii=False)
